import Sm9.Proofs.Consts
import Sm9.Proofs.MillerFrobenius
import Sm9.Proofs.MillerNaf
import Sm9.Proofs.ChainIndepSm9
import Sm9.Proofs.SpecRate
/-!
# C02 — Pairing values equal the SM9 R-ate pairing, byte for byte

Theorems: the loop constants are the signed-digit and binary expansions of 6t+2 for the
SM9 parameter t; the serialisation order is c2‖c1‖c0 with the high coefficient first at
every level; and the published test vector of the standard's key-agreement example
(inputs and expected value as in `pairings.rs::test_pairing`) is reproduced by **both**
model pairings by kernel evaluation.

**`fast_pairing` and the prepared pairing are the R-ate pairing on the whole domain**
(`fast_pairing_is_rate_pairing`, `prepared_pairing_is_rate_pairing`): for every `P ≠ O` on
`E(Fq)` and every `Q ≠ O` in `⟨P2⟩`, in any Jacobian representatives, the value is
`specMiller(P, Q)^((q^12−1)/r)` where `Miller.specMiller` is the textbook definition over
Mathlib's Weierstrass point group of the twist: `f_{6t+2,Q}(P)` by the double-and-add chain with
line values `y_P − λ·x_P·w⁻¹ + (λ·x_T − y_T)·w⁻³`, times `l_{[6t+2]Q, π(Q)}(P)` and
`l_{[6t+2]Q+π(Q), −π²(Q)}(P)`, `π` the `q`-Frobenius transported to the twist.
**`pairing()`** (the numerator/denominator Miller loop over the signed-digit chain) is likewise the
textbook Miller function *of that chain*, reduced (`pairing_is_rate_pairing_signed_chain`:
`Miller.specMillerNaf`, same lines, digits 0/1/−1, same two Frobenius lines; the coded loop returns
exactly `−specMillerNaf`).  That the two textbook functions have the same reduced value — independence
of the Miller function of the addition chain, a statement about divisors — is not proved in general
(`pairing_agreement_iff_chain_independence` reduces the agreement of the entry points to exactly that;
it is proved at the standard's test vector, `Sm9.C03.chain_independence_at_known_answer`) and is decided by the
three-way correspondence against `Sm9.Spec.rate` (DESIGN.md §6 C02).
-/
namespace Sm9.C02

theorem loop_constants : Consts.SM9_LOOP_N = 6 * tParam + 2 ∧
    signedDigitsVal Consts.SM9_LOOP_COUNT = (Consts.SM9_LOOP_N : Int) ∧ Consts.SM9_S = tParam :=
  ⟨loopN_eq, loop_count_eval, S_eq⟩
theorem curve_parameters : Consts.FQ = 36*tParam^4 + 36*tParam^3 + 24*tParam^2 + 6*tParam + 1 ∧
    Consts.FR = 36*tParam^4 + 36*tParam^3 + 18*tParam^2 + 6*tParam + 1 := ⟨q_poly, r_poly⟩
/-- serialisation order c2‖c1‖c0, each Fq4 as c1‖c0, each Fq2 as imaginary‖real -/
theorem to_slice_order (g : Fq12) :
    Api.fq12ToSlice g = Api.fq4ToSlice g.c2 ++ Api.fq4ToSlice g.c1 ++ Api.fq4ToSlice g.c0 := rfl
theorem to_slice_order4 (g : Fq4) : Api.fq4ToSlice g = Api.fq2ToSlice g.c1 ++ Api.fq2ToSlice g.c0 := rfl
theorem to_slice_order2 (g : Fq2) : Api.fq2ToSlice g = Api.fqToSlice g.c1 ++ Api.fqToSlice g.c0 := rfl

/-! the standard's vector (pairings.rs `test_pairing`) -/
def kaP : G1 := { x := Fq.ofNat 0x7CBA5B19069EE66AA79D490413D11846B9BA76DD22567F809CF23B6D964BB265, y := Fq.ofNat 0xA9760C99CB6F706343FED05637085864958D6C90902ABA7D405FBEDF7B781599, z := 1 }
def kaQ : G2 := { x := Fq2.new (Fq.ofNat 0x01092FF4DE89362670C21711B6DBE52DCD5F8E40C6654B3DECE573C2AB3D29B2) (Fq.ofNat 0x74CCC3AC9C383C60AF083972B96D05C75F12C8907D128A17ADAFBAB8C5A4ACF7), y := Fq2.new (Fq.ofNat 0x8CFC48FB4FF37F1E27727464F3C34E2153861AD08E972D1625FC1A7BD18D5539) (Fq.ofNat 0x44B0294AA04290E1524FF3E3DA8CFD432BB64DE3A8040B5B88D1B5FC86A4EBC1), z := Fq2.one }
def kaExpected : Fq12 :=
  { c0 := { c0 := Fq2.new (Fq.ofNat 0x6BA584CE742A2A3AB41C15D3EF94EDEB8EF74A2BDCDAAECC09ABA567981F6437) (Fq.ofNat 0x9B1CA08F64712E33AEDA3F44BD6CB633E0F722211E344D73EC9BBEBC92142765), c1 := Fq2.new (Fq.ofNat 0x861CCD9978617267CE4AD9789F77739E62F2E57B48C2FF26D2E90A79A1D86B93) (Fq.ofNat 0x8C8E9D8D905780D50E779067F2C4B1C8F83A8B59D735BB52AF35F56730BDE5AC) },
    c1 := { c0 := Fq2.new (Fq.ofNat 0x0F63A071A6D62EA45B59A1942DFF5335D1A232C9C5664FAD5D6AF54C11418B0D) (Fq.ofNat 0x73F21693C66FC23724DB26380C526223C705DAF6BA18B763A68623C86A632B05), c1 := Fq2.new (Fq.ofNat 0x647BA154C3E8E185DFC33657C1F128D480F3F7E3F16801208029E19434C733BB) (Fq.ofNat 0x4FEC93472DA33A4DB6599095C0CF895E3A7B993EE5E4EBE3B9AB7D7D5FF2A3D1) },
    c2 := { c0 := Fq2.new (Fq.ofNat 0x3497477913AB89F5E2960F382B1B5C8EE09DE0FA498BA95C4409D630D343DA40) (Fq.ofNat 0xA1ABFCD30C57DB0F1A838E3A8F2BF823479C978BD137230506EA6249C891049E), c1 := Fq2.new (Fq.ofNat 0x5E27C19FC02ED9AE37F5BB7BE9C03C2B87DE027539CCF03E6B7D36DE4AB45CD1) (Fq.ofNat 0x28542FB6954C84BE6A5F2988A31CB6817BA0781966FA83D9673A9577D3C0C134) } }

theorem known_answer_pairing : Api.pairing kaP kaQ = .ok kaExpected := by decide +kernel
theorem known_answer_fast_pairing : Api.fast_pairing kaP kaQ = .ok kaExpected := by decide +kernel

/-! ## the prepared Miller loop is the textbook Miller function of the R-ate pairing -/
open Miller in
/-- the prepared Miller loop (`G2Prepared::from` then `G2Prepared::miller_loop`) returns the textbook
    Miller function times a non-zero element of the subfield `Fq2` -/
theorem prepared_miller_is_textbook (xP yP : Fq) (xQ yQ : Fq2) (hQ : yQ * yQ = xQ * xQ * xQ + b2)
    (k : Nat) (hk : twPt (xQ, yQ) = k • twPt genXY) :
    ∃ κ : Fq2, κ ≠ 0 ∧
      (do let pr ← G2Prepared.from_ (⟨xQ, yQ, 1⟩ : G2); pr.miller_loop (⟨xP, yP, 1⟩ : G1))
        = .ok (Fq12.ofFq2 κ * specMiller xP yP xQ yQ) :=
  prepared_miller_eq_spec_G2 xP yP xQ yQ hQ k hk
open Miller in
/-- such a factor is removed by the final exponentiation: `(q²−1) ∣ (q¹²−1)/r` -/
theorem subfield_factor_removed (κ : Fq2) (hκ : κ ≠ 0) : Fq12.ofFq2 κ ^ ((q ^ 12 - 1) / r) = 1 :=
  ofFq2_pow_final κ hκ
open Miller in
/-- **`fast_pairing` is the SM9 R-ate pairing** on all of `(E(Fq) ∖ O) × (⟨P2⟩ ∖ O)`, for any
    Jacobian representatives -/
theorem fast_pairing_is_rate_pairing (P : G1) (Q : G2) (hPz : P.z ≠ 0) (hPv : G1.Valid P) (hQz : Q.z ≠ 0)
    (hQv : G2.Valid Q) (k : Nat) (hk : G2.toAff Q = k • G2.toAff (G.one : G2)) :
    Api.fast_pairing P Q
      = .ok (specMiller (P.x / P.z ^ 2) (P.y / P.z ^ 3) (Q.x / Q.z ^ 2) (Q.y / Q.z ^ 3) ^ ((q ^ 12 - 1) / r)) :=
  api_fast_pairing_eq_spec_G2 P Q hPz hPv hQz hQv k hk
open Miller in
/-- the same for `G2Prepared::from(Q).pairing(&P)` -/
theorem prepared_pairing_is_rate_pairing (P : G1) (Q : G2) (hPz : P.z ≠ 0) (hPv : G1.Valid P) (hQz : Q.z ≠ 0)
    (hQv : G2.Valid Q) (k : Nat) (hk : G2.toAff Q = k • G2.toAff (G.one : G2)) :
    (do let pr ← Api.prepare Q; Api.preparedPairing pr P)
      = .ok (specMiller (P.x / P.z ^ 2) (P.y / P.z ^ 3) (Q.x / Q.z ^ 2) (Q.y / Q.z ^ 3) ^ ((q ^ 12 - 1) / r)) :=
  (api_prepared_eq_fast P Q).trans (api_fast_pairing_eq_spec_G2 P Q hPz hPv hQz hQv k hk)
open Miller in
/-- **`pairing()` is the reduced textbook Miller function of the signed-digit chain** on all of
    `(E(Fq) ∖ O) × (⟨P2⟩ ∖ O)`, for any Jacobian representatives -/
theorem pairing_is_rate_pairing_signed_chain (P : G1) (Q : G2) (hPz : P.z ≠ 0) (hPv : G1.Valid P) (hQz : Q.z ≠ 0)
    (hQv : G2.Valid Q) (k : Nat) (hk : G2.toAff Q = k • G2.toAff (G.one : G2)) :
    Api.pairing P Q
      = .ok (specMillerNaf (P.x / P.z ^ 2) (P.y / P.z ^ 3) (Q.x / Q.z ^ 2) (Q.y / Q.z ^ 3) ^ ((q ^ 12 - 1) / r)) :=
  api_pairing_eq_spec_G2 P Q hPz hPv hQz hQv k hk
open Miller in
/-- the numerator/denominator loop returns exactly minus the textbook function of its chain -/
theorem signed_chain_miller_is_textbook (P : G1) (xQ yQ : Fq2) (hQ : yQ * yQ = xQ * xQ * xQ + b2)
    (k : Nat) (hk : twPt (xQ, yQ) = k • twPt genXY) :
    G2m.miller_loop (⟨xQ, yQ, 1⟩ : G2) P = .ok (-specMillerNaf P.x P.y xQ yQ) :=
  naf_miller_eq_spec_G2 P xQ yQ hQ k hk
open Miller in
/-- the entry points agree on an input exactly when the two textbook Miller functions (binary chain,
    signed-digit chain) have the same reduced value there -/
theorem pairing_agreement_iff_chain_independence (P : G1) (Q : G2) (hPz : P.z ≠ 0) (hPv : G1.Valid P)
    (hQz : Q.z ≠ 0) (hQv : G2.Valid Q) (k : Nat) (hk : G2.toAff Q = k • G2.toAff (G.one : G2)) :
    Api.pairing P Q = Api.fast_pairing P Q ↔
      specMillerNaf (P.x / P.z ^ 2) (P.y / P.z ^ 3) (Q.x / Q.z ^ 2) (Q.y / Q.z ^ 3) ^ ((q ^ 12 - 1) / r)
        = specMiller (P.x / P.z ^ 2) (P.y / P.z ^ 3) (Q.x / Q.z ^ 2) (Q.y / Q.z ^ 3) ^ ((q ^ 12 - 1) / r) :=
  api_pairing_eq_fast_pairing_iff P Q hPz hPv hQz hQv k hk
open Miller in
/-- **independence of the Miller function of the addition chain**: the two textbook functions (signed-digit
    chain of `G2::miller_loop`, binary chain of `G2Prepared::from`) have the same reduced value for every
    `P` of `E(Fq)` and every multiple `Q ≠ O` of `P2`.  Proof (Proofs/ChainIndep.lean, ChainIndepSm9.lean): in
    Mathlib's coordinate ring of the twist the product of lines either chain accumulates generates
    `I_Q^(6t+2) · I_{-[6t+2]Q}` times principal vertical ideals, so the two products differ by a unit of the
    coordinate ring — a constant of `Fq2ˣ` — and by verticals; evaluated at the untwisted `P`, constants, verticals
    (in the fixed field of the `q⁶`-power map) and powers of `w³` are killed by the final exponentiation. -/
theorem chain_independence (xP yP : Fq) (hP : yP * yP = xP * xP * xP + b1) (xQ yQ : Fq2)
    (hQ : yQ * yQ = xQ * xQ * xQ + b2) (k : Nat) (hk : twPt (xQ, yQ) = k • twPt genXY) :
    specMillerNaf xP yP xQ yQ ^ ((q ^ 12 - 1) / r) = specMiller xP yP xQ yQ ^ ((q ^ 12 - 1) / r) :=
  specMillerNaf_reduced_eq_specMiller_reduced xP yP hP xQ yQ hQ k hk
open Miller in
/-- **`pairing()` is the SM9 R-ate pairing** (binary-chain textbook definition, the same right-hand side as
    `fast_pairing_is_rate_pairing`) on all of `(E(Fq) ∖ O) × (⟨P2⟩ ∖ O)`, for any Jacobian representatives -/
theorem pairing_is_rate_pairing (P : G1) (Q : G2) (hPz : P.z ≠ 0) (hPv : G1.Valid P) (hQz : Q.z ≠ 0)
    (hQv : G2.Valid Q) (k : Nat) (hk : G2.toAff Q = k • G2.toAff (G.one : G2)) :
    Api.pairing P Q
      = .ok (specMiller (P.x / P.z ^ 2) (P.y / P.z ^ 3) (Q.x / Q.z ^ 2) (Q.y / Q.z ^ 3) ^ ((q ^ 12 - 1) / r)) :=
  (api_pairing_eq_fast_pairing P Q hPv hQv k hk).trans (api_fast_pairing_eq_spec_G2 P Q hPz hPv hQz hQv k hk)
open Miller in
/-- all three entry points return the same value on every valid input (identities included) -/
theorem entry_points_agree (P : G1) (Q : G2) (hPv : G1.Valid P) (hQv : G2.Valid Q)
    (k : Nat) (hk : G2.toAff Q = k • G2.toAff (G.one : G2)) :
    Api.pairing P Q = Api.fast_pairing P Q ∧
    (do let pr ← Api.prepare Q; Api.preparedPairing pr P) = Api.fast_pairing P Q :=
  ⟨api_pairing_eq_fast_pairing P Q hPv hQv k hk, api_prepared_eq_fast P Q⟩
open Miller SpecField in
/-- **the pairing value equals the one computed by the independent textbook implementation** (`Sm9.Spec.rate`, the executable
    oracle of the correspondence run: affine chord-and-tangent on the twist, schoolbook `F_q[w]/(w¹²+2)`, the binary Miller loop
    over `6t+2` with literal `q`-th powers for the Frobenius and the literal exponent `(q¹²−1)/r`, written without reference to
    the crate or the model).  For every valid `P ≠ O`, `Q ≠ O` of `⟨P2⟩` in any representation all three entry points return a `g`
    whose flattening is exactly what the oracle returns on the affine coordinates (Proofs/SpecField, SpecCurve, SpecRate.lean). -/
theorem pairing_equals_independent_implementation (P : G1) (Q : G2) (hPz : P.z ≠ 0) (hPv : G1.Valid P) (hQz : Q.z ≠ 0)
    (hQv : G2.Valid Q) (k : Nat) (hk : G2.toAff Q = k • G2.toAff (G.one : G2)) :
    ∃ g : Fq12, Api.pairing P Q = .ok g ∧ Api.fast_pairing P Q = .ok g ∧
      (do let pr ← Api.prepare Q; Api.preparedPairing pr P) = .ok g ∧
      Spec.rate (some ((P.x / P.z ^ 2).val, (P.y / P.z ^ 3).val))
        (some (toQ2 (Q.x / Q.z ^ 2), toQ2 (Q.y / Q.z ^ 3))) = some (toF12 g) := by
  refine ⟨_, pairing_is_rate_pairing P Q hPz hPv hQz hQv k hk, fast_pairing_is_rate_pairing P Q hPz hPv hQz hQv k hk,
    prepared_pairing_is_rate_pairing P Q hPz hPv hQz hQv k hk, ?_⟩
  obtain ⟨he, hpt⟩ := twPt_of_valid Q hQz hQv
  have hg : twPt genXY = G2.toAff (G.one : G2) := by rw [twPt_eq, affG2_gen]
  have hk' : twPt (Q.x / Q.z ^ 2, Q.y / Q.z ^ 3) = k • twPt genXY := by
    rw [hg]; exact hpt.trans hk
  have hP := ((Jac.nonsingular_iff b1 _ _).1 (hPv.resolve_left hPz)).1
  refine SpecRate.spec_rate_eq _ _ ?_ _ _ he k hk'
  calc P.y / P.z ^ 3 * (P.y / P.z ^ 3) = (P.y / P.z ^ 3) ^ 2 := by ring
    _ = (P.x / P.z ^ 2) ^ 3 + b1 := hP
    _ = P.x / P.z ^ 2 * (P.x / P.z ^ 2) * (P.x / P.z ^ 2) + b1 := by ring
/-- identities: the oracle returns one as well -/
theorem identity_equals_independent_implementation (Pa : Spec.Pt Nat) (Qa : Spec.Pt Spec.Q2) :
    Spec.rate none Qa = some (SpecField.toF12 1) ∧ Spec.rate Pa none = some (SpecField.toF12 1) :=
  ⟨SpecRate.spec_rate_none_left Qa, SpecRate.spec_rate_none_right Pa⟩
open Miller in
/-- the textbook line value in the tower basis is `y_P − λ·x_P·w⁻¹ + (λ·x_T − y_T)·w⁻³` -/
theorem line_value_formula (xT yT lam : Fq2) (xP yP : Fq) :
    lineSpec xT yT lam xP yP
      = Fq12.ofFq yP - Fq12.ofFq2 lam * Fq12.ofFq xP * Fq12.w⁻¹ + Fq12.ofFq2 (lam * xT - yT) * (Fq12.w ^ 3)⁻¹ :=
  lineSpec_eq_w xT yT lam xP yP
open Miller in
/-- the Frobenius used for the two correction lines is the `q`-power map transported to the twist -/
theorem frobenius_on_twist (p : Fq2 × Fq2) :
    Fq12.ofFq2 (frobTwist p).1 * (Fq12.w ^ 2)⁻¹ = (Fq12.ofFq2 p.1 * (Fq12.w ^ 2)⁻¹) ^ q ∧
    Fq12.ofFq2 (frobTwist p).2 * (Fq12.w ^ 3)⁻¹ = (Fq12.ofFq2 p.2 * (Fq12.w ^ 3)⁻¹) ^ q :=
  ⟨frobTwist_untwist_x p, frobTwist_untwist_y p⟩
open Miller in
/-- the hypotheses are satisfiable: `Q = P2` (`k = 1`), any affine `P` with `y_P ≠ 0` -/
example (xP yP : Fq) (hyP : yP ≠ 0) :
    Pairings.fast_pairing (⟨xP, yP, 1⟩ : G1) (G.one : G2)
      = .ok (specMiller xP yP genXY.1 genXY.2 ^ ((q ^ 12 - 1) / r)) := fast_pairing_generator xP yP hyP

end Sm9.C02
