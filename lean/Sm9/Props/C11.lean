import Sm9.Proofs.Pow
import Sm9.Proofs.GtOrder
import Sm9.Proofs.Codec
import Sm9.Model.Api
/-!
# C11 — Gt is a commutative group of order r and pow is exponentiation
The laws hold on **all** of Fq12 (the model's Karatsuba product and CH-SQR2 squaring),
hence on every pairing value; every output of a final exponentiation has order dividing r
(`gt_order`), so exponents reduce modulo r on Gt; `inverse` is the field inverse.
`g == h` (structural equality of canonical coefficients) holds exactly when the 384-byte
encodings are equal (`to_slice_inj`), and every 32-byte limb of an encoding is below q.
-/
namespace Sm9.C11

theorem mul_comm_law (g h : Fq12) : g * h = h * g := mul_comm g h
theorem mul_assoc_law (g h k : Fq12) : g * h * k = g * (h * k) := mul_assoc g h k
theorem mul_one_law (g : Fq12) : g * 1 = g := mul_one g
theorem squared_eq_mul (g : Fq12) : g.squared = g * g := Fq12.squared_eq_mul g
/-- `Gt::pow` (generic square-and-multiply with the scalar out of Montgomery form) is g^a -/
theorem gtPow_eq (g : Fq12) (a : Fr) : Api.gtPow g a = g ^ a.val := Fq12.pow_eq g a.val
theorem pow_add_law (g : Fq12) (a b : Fr) : Api.gtPow g a * Api.gtPow g b = g ^ (a.val + b.val) := by
  rw [gtPow_eq, gtPow_eq, pow_add]
theorem pow_pow_law (g : Fq12) (a b : Fr) : Api.gtPow (Api.gtPow g a) b = g ^ (a.val * b.val) := by
  rw [gtPow_eq, gtPow_eq, pow_mul]
theorem mul_pow_law (g h : Fq12) (a : Fr) : Api.gtPow (g * h) a = Api.gtPow g a * Api.gtPow h a := by
  rw [gtPow_eq, gtPow_eq, gtPow_eq, mul_pow]
theorem pow_zero_law (g : Fq12) : Api.gtPow g 0 = 1 := by
  rw [gtPow_eq]; simp [Fr.val]; rfl
theorem pow_one_law (g : Fq12) : Api.gtPow g 1 = g := by
  rw [gtPow_eq]
  have : (1 : Fr).val = 1 := by decide +kernel
  rw [this, pow_one]
/-- exponents add modulo r on elements of order dividing r -/
theorem pow_add_mod (g : Fq12) (hg : g ^ r = 1) (a b : Fr) :
    Api.gtPow g a * Api.gtPow g b = Api.gtPow g (a + b) := by
  rw [pow_add_law, gtPow_eq]
  have hab : (a + b).val = (a.val + b.val) % r := rfl
  rw [hab]
  conv_lhs => rw [← Nat.div_add_mod (a.val + b.val) r, pow_add, pow_mul, hg, one_pow, one_mul]
/-- pairing values (outputs of the final exponentiation) have order dividing r -/
theorem gt_order (f g : Fq12) (h : f.final_exp = .ok (some g)) : g ^ r = 1 ∧ g ^ (r - 1) * g = 1 :=
  Sm9.gt_order f g h
/-- hence the exponent laws hold modulo r on Gt -/
theorem gt_pow_add (f g : Fq12) (h : f.final_exp = .ok (some g)) (a b : Fr) :
    Api.gtPow g a * Api.gtPow g b = Api.gtPow g (a + b) := pow_add_mod g (Sm9.gt_order f g h).1 a b
/-- `Gt::inverse`: `Some` of the multiplicative inverse for every non-zero element -/
theorem inverse_correct (g : Fq12) (hg : g ≠ 0) : ∃ i, g.inverse = some i ∧ i * g = 1 := Fq12.inverse_correct g hg

/-- the 384-byte encoding is injective: `==` holds exactly when the encodings are equal -/
theorem to_slice_inj (g h : Fq12) (e : Api.fq12ToSlice g = Api.fq12ToSlice h) : g = h := by
  have l2 : ∀ x : Fq2, (Api.fq2ToSlice x).length = 64 := Api.fq2ToSlice_length
  have l4 : ∀ x : Fq4, (Api.fq4ToSlice x).length = 128 := by
    intro x; unfold Api.fq4ToSlice; rw [List.length_append, l2, l2]
  have i4 : ∀ x y : Fq4, Api.fq4ToSlice x = Api.fq4ToSlice y → x = y := by
    intro x y h4
    unfold Api.fq4ToSlice at h4
    have := List.append_inj h4 (by rw [l2, l2])
    cases x; cases y
    simp only [Fq4.mk.injEq]
    exact ⟨Api.fq2ToSlice_inj this.2, Api.fq2ToSlice_inj this.1⟩
  unfold Api.fq12ToSlice at e
  have h1 := List.append_inj e (by rw [List.length_append, List.length_append, l4, l4, l4, l4])
  have h2 := List.append_inj h1.1 (by rw [l4, l4])
  cases g; cases h
  simp only [Fq12.mk.injEq]
  exact ⟨i4 _ _ h1.2, i4 _ _ h2.2, i4 _ _ h2.1⟩
theorem eq_iff_to_slice_eq (g h : Fq12) : g = h ↔ Api.fq12ToSlice g = Api.fq12ToSlice h :=
  ⟨fun e => by rw [e], to_slice_inj g h⟩
/-- every 32-byte limb of an encoding is a canonical value below q -/
theorem limb_lt_q (x : Fq) : beVal (Api.fqToSlice x) < q := by
  unfold Api.fqToSlice
  rw [beVal_beBytes 32 x.val (lt_trans x.isLt q_lt_pow)]
  exact x.isLt

end Sm9.C11
