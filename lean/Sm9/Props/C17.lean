import Sm9.Proofs.Pow
import Sm9.Proofs.SpecField
import Sm9.Proofs.Consts
import Sm9.Proofs.FinalExp
import Sm9.Proofs.MillerFrobenius
import Sm9.Proofs.MillerNaf
import Sm9.Proofs.ChainIndepSm9
/-!
# C17 — the F_q¹² tower engine and final exponentiation on every element
Ring and **field** structure of Fq4 = Fq2[v]/(v²−u) and Fq12 = Fq4[w]/(w³−v) on the model's own
interleaved / Karatsuba products; sparse products; squarings; norm-based inverses; the coded
Frobenius maps are the power maps x ↦ x^(q^k); `pow(u128)` is exponentiation; **both**
final-exponentiation routines map every non-zero x to x^((q¹²−1)/r) (and agree on all inputs).
The prepared (line-coefficient) Miller loop is the textbook Miller function up to a factor in
`Fq2ˣ`, which the final exponentiation removes (`prepared_miller_textbook`, `subfield_factor_killed`;
every coded line is the textbook line times such a factor: `tangent_line_textbook`, `chord_line_textbook`;
the sparse product is the product: `sparse_line_product`).
Not a theorem: that the numerator/denominator loop over the signed-digit chain differs from it only by
factors killed by the final exponentiation (independence of the Miller function of the addition chain
needs divisor theory) — decided by correspondence (`miller.g2` / `miller.prep` against the textbook loop).
-/
namespace Sm9.C17

/-- Fq4 product is the product in Fq2[v]/(v² − u) -/
theorem fq4_mul_formula (x y : Fq4) :
    x * y = { c0 := x.c0 * y.c0 + x.c1 * y.c1 * Fq2.i, c1 := x.c0 * y.c1 + x.c1 * y.c0 } := by
  ext : 1 <;> simp
/-- Fq12 Karatsuba product is the product in Fq4[w]/(w³ − v) -/
theorem fq12_mul_formula (x y : Fq12) :
    x * y = { c0 := x.c0 * y.c0 + (x.c1 * y.c2 + x.c2 * y.c1) * Fq4.v,
              c1 := x.c0 * y.c1 + x.c1 * y.c0 + x.c2 * y.c2 * Fq4.v,
              c2 := x.c0 * y.c2 + x.c1 * y.c1 + x.c2 * y.c0 } := by
  ext : 1 <;> simp
theorem fq4_mul_comm (x y : Fq4) : x * y = y * x := mul_comm x y
theorem fq4_mul_assoc (x y z : Fq4) : x * y * z = x * (y * z) := mul_assoc x y z
theorem fq12_mul_comm (x y : Fq12) : x * y = y * x := mul_comm x y
theorem fq12_mul_assoc (x y z : Fq12) : x * y * z = x * (y * z) := mul_assoc x y z
theorem fq12_distrib (x y z : Fq12) : x * (y + z) = x * y + x * z := mul_add x y z
theorem fq4_squared_eq_mul (x : Fq4) : x.squared = x * x := Fq4.squared_eq_mul x
theorem fq12_squared_eq_mul (x : Fq12) : x.squared = x * x := Fq12.squared_eq_mul x
theorem v_squared : (Fq4.v * Fq4.v : Fq4) = { c0 := Fq2.i, c1 := 0 } := Fq4.v_sq
theorem fq4_mul_by_nonresidue (x : Fq4) : x.mul_by_nonresidue = x * Fq4.v := Fq4.mul_by_nonresidue_eq x
/-- sparse products, with the sparsity hypothesis of the Rust comment … -/
theorem mul_1_eq_mul (x y : Fq4) (h : y.c0 = 0) : x.mul_1 y = x * y := Fq4.mul_1_eq_mul x y h
theorem mul_015_eq_mul (x y : Fq12) (h1 : y.c1 = 0) (h2 : y.c2.c0 = 0) : x.mul_015 y = x * y :=
  Fq12.mul_015_eq_mul x y h1 h2
/-- … and as unconditional formulas -/
theorem mul_1_formula (x y : Fq4) : x.mul_1 y = x * { c0 := 0, c1 := y.c1 } := Fq4.mul_1_formula x y
theorem mul_015_formula (x y : Fq12) :
    x.mul_015 y = x * { c0 := y.c0, c1 := 0, c2 := { c0 := 0, c1 := y.c2.c1 } } := Fq12.mul_015_formula x y
/-- the Frobenius constants are the stated powers of the non-residue −2 -/
theorem frobenius_constants :
    Fq4.alpha1 = nr.pow ((Consts.FQ - 1) / 12) ∧ Fq4.alpha2 = nr.pow ((Consts.FQ - 1) / 6) ∧
    Fq4.alpha3 = nr.pow ((Consts.FQ - 1) / 4) ∧ Fq4.alpha4 = nr.pow ((Consts.FQ - 1) / 3) ∧
    Fq4.alpha5 = nr.pow (5 * ((Consts.FQ - 1) / 12)) ∧ Fq4.beta = Fq4.alpha3 :=
  ⟨alpha1_eq, alpha2_eq, alpha3_eq, alpha4_eq, alpha5_eq, beta_eq⟩
/-- unsupported Frobenius powers panic (`unimplemented!`) and the pairing code uses only
    1, 2, 3, 6 on Fq12 -/
theorem frobenius_supported (x : Fq12) :
    x.frobenius_map 1 = .ok x.frob1 ∧ x.frobenius_map 2 = .ok x.frob2 ∧
    x.frobenius_map 3 = .ok x.frob3 ∧ x.frobenius_map 6 = .ok x.frob6 ∧ x.frobenius_map 4 = .panic :=
  ⟨rfl, rfl, rfl, rfl, rfl⟩
/-- exponent constants of the two hard-part chains -/
theorem chain_exponents : Consts.SM9_A3 = 6 * tParam + 5 ∧ Consts.SM9_A2 = 6 * tParam ^ 2 + 1 ∧
    Consts.SM9_NINE = 9 ∧ Consts.SM9_S = tParam := ⟨a3_eq, a2_eq, nine_eq, S_eq⟩

/-- inverses are correct on every non-zero element of every level, `None` exactly for zero -/
theorem fq2_inverse (x : Fq2) (h : x ≠ 0) : ∃ y, x.inverse = some y ∧ y * x = 1 := Fq2.inverse_correct x h
theorem fq4_inverse (x : Fq4) (h : x ≠ 0) : ∃ y, x.inverse = some y ∧ y * x = 1 := Fq4.inverse_correct x h
theorem fq12_inverse (x : Fq12) (h : x ≠ 0) : ∃ y, x.inverse = some y ∧ y * x = 1 := Fq12.inverse_correct x h
theorem inverse_zero : (0 : Fq4).inverse = none ∧ (0 : Fq12).inverse = none := ⟨Fq4.inverse_zero, Fq12.inverse_zero⟩
/-- u is not a square in Fq2 and v is not a cube in Fq4: the tower is a tower of fields -/
theorem tower_irreducible : (∀ s : Fq2, s * s ≠ Fq2.i) ∧ (∀ s : Fq4, s ^ 3 ≠ Fq4.v) := ⟨Fq2.i_not_sq, Fq4.v_not_cube⟩
theorem cardinalities : Fintype.card Fq2 = q ^ 2 ∧ Fintype.card Fq4 = q ^ 4 ∧ Fintype.card Fq12 = q ^ 12 :=
  ⟨Fq2.card, Fq4.card, Fq12.card⟩
/-- every supported Frobenius power is the power map -/
theorem frobenius_is_power (x : Fq12) :
    x.frob1 = x ^ q ∧ x.frob2 = x ^ q ^ 2 ∧ x.frob3 = x ^ q ^ 3 ∧ x.frob6 = x ^ q ^ 6 :=
  ⟨Fq12.frob1_eq_pow x, Fq12.frob2_eq_pow x, Fq12.frob3_eq_pow x, Fq12.frob6_eq_pow x⟩
theorem frobenius_map_eq_pow (x : Fq12) (k : Nat) (hk : k = 1 ∨ k = 2 ∨ k = 3 ∨ k = 6) :
    x.frobenius_map k = .ok (x ^ q ^ k) := Fq12.frobenius_map_eq_pow x k hk
/-- small-exponent powering: fuel 128 suffices for every u128 -/
theorem pow_u128_eq (x : Fq12) (e : Nat) (he : e < 2 ^ 128) : x.pow_u128 e = x ^ e := Fq12.pow_u128_eq x e he
/-- both final exponentiations: x ≠ 0 ↦ x^((q¹²−1)/r); zero ↦ None; they agree everywhere -/
theorem final_exponentiation_eq_pow (x : Fq12) (hx : x ≠ 0) :
    x.final_exponentiation = .ok (some (x ^ ((q ^ 12 - 1) / r))) := Fq12.final_exponentiation_eq_pow x hx
theorem final_exp_eq_pow (x : Fq12) (hx : x ≠ 0) :
    x.final_exp = .ok (some (x ^ ((q ^ 12 - 1) / r))) := Fq12.final_exp_eq_pow x hx
theorem final_exp_zero : (0 : Fq12).final_exp = .ok none ∧ (0 : Fq12).final_exponentiation = .ok none :=
  ⟨Fq12.final_exp_zero, Fq12.final_exponentiation_zero⟩
theorem final_exp_variants_agree (x : Fq12) : x.final_exp = x.final_exponentiation :=
  Fq12.final_exp_eq_final_exponentiation x
theorem r_divides : r ∣ q ^ 12 - 1 := Fq12.r_dvd

/-! ## the prepared Miller loop -/
open Miller in
/-- the tangent step: new point is the doubling, and the coded line is `κ ·` (textbook tangent at `T`
    evaluated at `P`) with `κ = c0·u ∈ Fq2ˣ` -/
theorem tangent_line_textbook (T : G2) (xP yP : Fq) (hz : T.z ≠ 0) (hy : T.y ≠ 0) :
    (G2m.g_tangent T).1 = T.double ∧ (G2m.g_tangent T).2.1 ≠ 0 ∧
    G2Prepared.get_fq12 (G2m.g_tangent T).2 (Fq2.new yP 0).mul_by_nonresidue xP
      = Fq12.ofFq2 ((G2m.g_tangent T).2.1 * Fq2.i)
        * lineSpec (T.x / T.z ^ 2) (T.y / T.z ^ 3)
            (3 * (T.x / T.z ^ 2) ^ 2 / (2 * (T.y / T.z ^ 3))) xP yP :=
  g_tangent_line T xP yP hz hy
open Miller in
/-- the sparse product used by the loop is the field product -/
theorem sparse_line_product (f : Fq12) (c : Fq2 × Fq2 × Fq2) (t1 : Fq2) (x : Fq) :
    f.mul_015 (G2Prepared.get_fq12 c t1 x) = f * G2Prepared.get_fq12 c t1 x := mul_015_get_fq12 f c t1 x
open Miller in
theorem prepared_miller_textbook (xP yP : Fq) (xQ yQ : Fq2) (hQ : yQ * yQ = xQ * xQ * xQ + b2)
    (k : Nat) (hk : twPt (xQ, yQ) = k • twPt genXY) :
    ∃ κ : Fq2, κ ≠ 0 ∧
      (do let pr ← G2Prepared.from_ (⟨xQ, yQ, 1⟩ : G2); pr.miller_loop (⟨xP, yP, 1⟩ : G1))
        = .ok (Fq12.ofFq2 κ * specMiller xP yP xQ yQ) :=
  prepared_miller_eq_spec_G2 xP yP xQ yQ hQ k hk
open Miller in
theorem subfield_factor_killed (κ : Fq2) (hκ : κ ≠ 0) : Fq12.ofFq2 κ ^ ((q ^ 12 - 1) / r) = 1 :=
  ofFq2_pow_final κ hκ
theorem subfield_order_divides : q ^ 2 - 1 ∣ (q ^ 12 - 1) / r := Miller.fq2_card_dvd

/-! ## the numerator/denominator Miller loop -/
open Miller in
theorem eval_tangent_textbook (T : G2) (P : G1) (hz : T.z ≠ 0) (hy : T.y ≠ 0) :
    (G2m.eval_g_tangent T P).2 ≠ 0 ∧
    (G2m.eval_g_tangent T P).2 = Fq12.ofFq2 (T.z*T.z*T.z*T.y) * Fq12.w ^ 3 ∧
    (G2m.eval_g_tangent T P).1 = -((G2m.eval_g_tangent T P).2 *
       lineSpec (T.x/T.z^2) (T.y/T.z^3) (3*(T.x/T.z^2)^2 / (2*(T.y/T.z^3))) P.x P.y) :=
  eval_g_tangent_line T P hz hy
open Miller in
theorem eval_line_textbook (T R : G2) (P : G1) (hz : T.z ≠ 0) (hRz : R.z ≠ 0)
    (hx : T.x/T.z^2 ≠ R.x/R.z^2) :
    (G2m.eval_g_line T R P).2 ≠ 0 ∧
    (G2m.eval_g_line T R P).1 = -((G2m.eval_g_line T R P).2 *
       lineSpec (T.x/T.z^2) (T.y/T.z^3)
         ((R.y/R.z^3 - T.y/T.z^3)/(R.x/R.z^2 - T.x/T.z^2)) P.x P.y) :=
  ⟨(eval_g_line_line T R P hz hRz hx).1, (eval_g_line_line T R P hz hRz hx).2.2⟩
open Miller in
theorem signed_chain_miller_textbook (P : G1) (xQ yQ : Fq2) (hQ : yQ * yQ = xQ * xQ * xQ + b2)
    (k : Nat) (hk : twPt (xQ, yQ) = k • twPt genXY) :
    G2m.miller_loop (⟨xQ, yQ, 1⟩ : G2) P = .ok (-specMillerNaf P.x P.y xQ yQ) :=
  naf_miller_eq_spec_G2 P xQ yQ hQ k hk
open Miller in
/-- **both Miller-loop variants agree up to factors that the final exponentiation removes**: for every affine
    `P` of `E(Fq)` and every multiple `Q ≠ O` of `P2`, the value of the numerator/denominator loop over the
    signed-digit chain and the value of the prepared loop over the binary chain have the same
    `(q¹²−1)/r`-th power (chain independence of the Miller function, Proofs/ChainIndep.lean, ChainIndepSm9.lean) -/
theorem miller_loops_agree_after_final_exp (xP yP : Fq) (hP : yP * yP = xP * xP * xP + b1) (xQ yQ : Fq2)
    (hQ : yQ * yQ = xQ * xQ * xQ + b2) (k : Nat) (hk : twPt (xQ, yQ) = k • twPt genXY) :
    ∃ f g : Fq12,
      G2m.miller_loop (⟨xQ, yQ, 1⟩ : G2) (⟨xP, yP, 1⟩ : G1) = .ok f ∧
      (do let pr ← G2Prepared.from_ (⟨xQ, yQ, 1⟩ : G2); pr.miller_loop (⟨xP, yP, 1⟩ : G1)) = .ok g ∧
      f ^ ((q ^ 12 - 1) / r) = g ^ ((q ^ 12 - 1) / r) := by
  obtain ⟨κ, hκ, hg⟩ := prepared_miller_eq_spec_G2 xP yP xQ yQ hQ k hk
  refine ⟨_, _, naf_miller_eq_spec_G2 (⟨xP, yP, 1⟩ : G1) xQ yQ hQ k hk, hg, ?_⟩
  rw [neg_pow, neg_one_pow_final, one_mul, mul_pow, ofFq2_pow_final κ hκ, one_mul]
  exact specMillerNaf_reduced_eq_specMiller_reduced xP yP hP xQ yQ hQ k hk
theorem neg_one_killed : (-1 : Fq12) ^ ((q ^ 12 - 1) / r) = 1 := Miller.neg_one_pow_final

/-! ## the tower is `F_q[w]/(w¹²+2)`, against the independent schoolbook implementation

`toF12` is the coordinate vector of a tower element in the basis `1, w, …, w¹¹` (`w ↦ X`, `v = w³`, `u = w⁶`: kernel checks
`toF12_w/v/u`), and the oracle's schoolbook product and square-and-multiply power on such vectors (`Sm9.Spec.F12.mul`, `pow`:
multiply as polynomials, replace `w¹²` by `−2`) are the tower's product and power — on **every** element (Proofs/SpecField.lean). -/
open Sm9.SpecField in
theorem tower_is_schoolbook_extension (x y : Fq12) (e : Nat) :
    Spec.F12.mul (toF12 x) (toF12 y) = toF12 (x * y) ∧ Spec.F12.add (toF12 x) (toF12 y) = toF12 (x + y) ∧
    Spec.F12.pow (toF12 x) e = toF12 (x ^ e) ∧ Spec.F12.one = toF12 (1 : Fq12) ∧ Function.Injective toF12 :=
  ⟨toF12_mul x y, toF12_add x y, toF12_pow x e, toF12_one, toF12_injective⟩
open Sm9.SpecField in
theorem tower_generators_in_flat_basis :
    toF12 Fq12.w = Spec.F12.mono 1 1 ∧ toF12 ⟨Fq4.v, 0, 0⟩ = Spec.F12.mono 3 1 ∧
    toF12 (Fq12.ofFq2 Fq2.i) = Spec.F12.mono 6 1 := ⟨toF12_w, toF12_v, toF12_u⟩

end Sm9.C17
