import Sm9.Proofs.Pow
import Sm9.Proofs.Consts
/-!
# C17 — the F_q¹² tower engine and final exponentiation on every element
Ring structure of Fq4 = Fq2[v]/(v²−u) and Fq12 = Fq4[w]/(w³−v) on the model's own
interleaved / Karatsuba products; sparse products; squarings; Frobenius constants.
-/
namespace Sm9.C17

/-- Fq4 product is the product in Fq2[v]/(v² − u) -/
theorem fq4_mul_formula (x y : Fq4) :
    x * y = { c0 := x.c0 * y.c0 + x.c1 * y.c1 * Fq2.i, c1 := x.c0 * y.c1 + x.c1 * y.c0 } := by
  ext : 1 <;> simp
/-- Fq12 Karatsuba product is the product in Fq4[w]/(w³ − v) -/
theorem fq12_mul_formula (x y : Fq12) :
    x * y = { c0 := x.c0 * y.c0 + (x.c1 * y.c2 + x.c2 * y.c1) * Fq4.v,
              c1 := x.c0 * y.c1 + x.c1 * y.c0 + x.c2 * y.c2 * Fq4.v,
              c2 := x.c0 * y.c2 + x.c1 * y.c1 + x.c2 * y.c0 } := by
  ext : 1 <;> simp
theorem fq4_mul_comm (x y : Fq4) : x * y = y * x := mul_comm x y
theorem fq4_mul_assoc (x y z : Fq4) : x * y * z = x * (y * z) := mul_assoc x y z
theorem fq12_mul_comm (x y : Fq12) : x * y = y * x := mul_comm x y
theorem fq12_mul_assoc (x y z : Fq12) : x * y * z = x * (y * z) := mul_assoc x y z
theorem fq12_distrib (x y z : Fq12) : x * (y + z) = x * y + x * z := mul_add x y z
theorem fq4_squared_eq_mul (x : Fq4) : x.squared = x * x := Fq4.squared_eq_mul x
theorem fq12_squared_eq_mul (x : Fq12) : x.squared = x * x := Fq12.squared_eq_mul x
theorem v_squared : (Fq4.v * Fq4.v : Fq4) = { c0 := Fq2.i, c1 := 0 } := Fq4.v_sq
theorem fq4_mul_by_nonresidue (x : Fq4) : x.mul_by_nonresidue = x * Fq4.v := Fq4.mul_by_nonresidue_eq x
/-- sparse products, with the sparsity hypothesis of the Rust comment … -/
theorem mul_1_eq_mul (x y : Fq4) (h : y.c0 = 0) : x.mul_1 y = x * y := Fq4.mul_1_eq_mul x y h
theorem mul_015_eq_mul (x y : Fq12) (h1 : y.c1 = 0) (h2 : y.c2.c0 = 0) : x.mul_015 y = x * y :=
  Fq12.mul_015_eq_mul x y h1 h2
/-- … and as unconditional formulas -/
theorem mul_1_formula (x y : Fq4) : x.mul_1 y = x * { c0 := 0, c1 := y.c1 } := Fq4.mul_1_formula x y
theorem mul_015_formula (x y : Fq12) :
    x.mul_015 y = x * { c0 := y.c0, c1 := 0, c2 := { c0 := 0, c1 := y.c2.c1 } } := Fq12.mul_015_formula x y
/-- the Frobenius constants are the stated powers of the non-residue −2 -/
theorem frobenius_constants :
    Fq4.alpha1 = nr.pow ((Consts.FQ - 1) / 12) ∧ Fq4.alpha2 = nr.pow ((Consts.FQ - 1) / 6) ∧
    Fq4.alpha3 = nr.pow ((Consts.FQ - 1) / 4) ∧ Fq4.alpha4 = nr.pow ((Consts.FQ - 1) / 3) ∧
    Fq4.alpha5 = nr.pow (5 * ((Consts.FQ - 1) / 12)) ∧ Fq4.beta = Fq4.alpha3 :=
  ⟨alpha1_eq, alpha2_eq, alpha3_eq, alpha4_eq, alpha5_eq, beta_eq⟩
/-- unsupported Frobenius powers panic (`unimplemented!`) and the pairing code uses only
    1, 2, 3, 6 on Fq12 -/
theorem frobenius_supported (x : Fq12) :
    x.frobenius_map 1 = .ok x.frob1 ∧ x.frobenius_map 2 = .ok x.frob2 ∧
    x.frobenius_map 3 = .ok x.frob3 ∧ x.frobenius_map 6 = .ok x.frob6 ∧ x.frobenius_map 4 = .panic :=
  ⟨rfl, rfl, rfl, rfl, rfl⟩
/-- exponent constants of the two hard-part chains -/
theorem chain_exponents : Consts.SM9_A3 = 6 * tParam + 5 ∧ Consts.SM9_A2 = 6 * tParam ^ 2 + 1 ∧
    Consts.SM9_NINE = 9 ∧ Consts.SM9_S = tParam := ⟨a3_eq, a2_eq, nine_eq, S_eq⟩

end Sm9.C17
