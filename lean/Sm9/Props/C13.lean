import Sm9.Proofs.MontBasic
import Sm9.Proofs.FqField
import Sm9.Model.Api
/-!
# C13 — Byte, decimal and hash conversions to field elements compute n mod p
Value-level statements of the API model (what the public functions return), tied to the
code by the correspondence check over every length 0..=70; the limb-level algorithms
behind them (`U512.divrem`, Montgomery multiplication by R²) are related to these values
by the refinement theorems of C06/C12 as they land.
-/
namespace Sm9.C13

theorem fr_from_slice_spec (bs : List UInt8) :
    Api.frFromSlice bs = if 1 ≤ bs.length ∧ bs.length ≤ 64 then some (Fr.ofNat (beVal bs)) else none := rfl
theorem fr_from_slice_value (bs : List UInt8) (x : Fr) (h : Api.frFromSlice bs = some x) :
    x.val = beVal bs % r := by
  unfold Api.frFromSlice at h
  split at h
  · cases h; rfl
  · cases h
theorem fq_from_slice_value (bs : List UInt8) (x : Fq) (h : Api.fqFromSlice bs = some x) :
    x.val = beVal bs % q := by
  unfold Api.fqFromSlice at h
  split at h
  · cases h; rfl
  · cases h
theorem from_slice_lengths (bs : List UInt8) :
    (Api.frFromSlice bs).isSome = (decide (1 ≤ bs.length ∧ bs.length ≤ 64)) := by
  unfold Api.frFromSlice; split <;> simp_all
/-- `Fr::from_hash` lands in [1, r−1] -/
theorem from_hash_range (ha : List UInt8) (x : Fr) (h : Api.frFromHash ha = some x) :
    1 ≤ x.val ∧ x.val ≤ r - 1 ∧ x.val = beVal ha % (r - 1) + 1 := by
  unfold Api.frFromHash at h
  split at h
  · cases h
  · cases h
    have hr : 1 < r - 1 := by decide +kernel
    have hlt : beVal ha % (r - 1) < r - 1 := Nat.mod_lt _ (by omega)
    have hv : (Fr.ofNat (beVal ha % (r - 1) + 1)).val = beVal ha % (r - 1) + 1 := by
      show (beVal ha % (r - 1) + 1) % r = _
      apply Nat.mod_eq_of_lt; omega
    rw [hv]; omega
theorem from_hash_too_long (ha : List UInt8) (h : ha.length > 64) : Api.frFromHash ha = none := by
  unfold Api.frFromHash; simp [h]
/-- a wrong output-buffer size is an error, not a panic -/
theorem to_big_endian_wrong_size (a : Fq) (n : Nat) (h : n ≠ 32) : Api.fqToBigEndian a n = none := by
  unfold Api.fqToBigEndian; simp [h]
/-- decimal parser: rejects as soon as a non-digit occurs -/
theorem from_str_rejects (s : List Char) (h : s.all Char.isDigit = false) : Api.frFromStr s = none := by
  unfold Api.frFromStr; simp [h]
/-- `set_bit` with an index ≥ 256 leaves the value unchanged -/
theorem set_bit_out_of_range (a : Fr) (i : Nat) (v : Bool) (h : i ≥ 256) : Api.frSetBit a i v = a := by
  unfold Api.frSetBit U256.set_bit
  simp only [h, if_true]
  apply Fin.ext
  show a.val % r = a.val
  exact Nat.mod_eq_of_lt a.isLt

end Sm9.C13
