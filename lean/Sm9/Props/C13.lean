import Sm9.Proofs.Conversions
import Sm9.Proofs.FqField
import Sm9.Model.Api
import Sm9.Proofs.LibScalar
/-!
# C13 — Byte, decimal and hash conversions to field elements compute n mod p

Limb level (the model of lib.rs / fp.rs / u512.rs / u256.rs code paths): the three length
paths of `from_slice` (pad + strict `new`; Montgomery multiplication by R² which reduces;
512-bit long division), `interpret`, `from_hash`, `to_slice`, `set_bit`, `random` compute,
observed through the canonical value, exactly `n mod p` (resp. `(h mod (r−1)) + 1`); the
bitwise long division returns the true remainder and quotient and its debug self-check
holds.  Value level (`Api.*`, what the public functions return) states the same facts
directly; the two levels are tied to the code by the correspondence check over every
length 0..=70.  `from_str`: the value-level function *is* the decimal fold reduced mod p (`from_str_digits`), it rejects as
soon as a non-digit occurs, and the limb-level loop of fp.rs (table of the Montgomery forms of 0..10, `res*10 + digit` in
Montgomery arithmetic) refines it and stays canonical (`from_str_limb_refines_fr/fq`; the loop itself is re-translated
from the source on every run, `Gen/LimbEquiv.lean: Fp_from_str_equiv`, `LibFr_from_str_refines`).
-/
set_option exponentiation.threshold 1024
namespace Sm9.C13

/-- 512-bit long division: remainder, quotient rule (`None` unless the quotient is below the
    modulus), and the `debug_assert!` on the reconstruction holds -/
theorem divrem_spec (n m : Nat) (hm0 : 0 < m) (hm : m < W256) (hn : n < W512) :
    (U512.divrem n m).1.2 = n % m ∧
    (U512.divrem n m).1.1 = (if n / m < m ∧ n / m < W256 then some (n / m) else none) ∧
    (U512.divrem n m).2 = true := U512.divrem_spec n m hm0 hm hn
/-- 32-byte path: Montgomery multiplication by R² reduces any 256-bit value -/
theorem from_slice_32_reduces {P : MontParams} (hP : P.Ok) (x : Nat) (hx : x < W256) :
    Fp.new_mul_factor P x < P.modulus ∧ Fp.into_u256 P (Fp.new_mul_factor P x) = x % P.modulus :=
  Fp.new_mul_factor_reduces hP x hx
/-- 33..=64-byte path and `interpret`: the 512-bit remainder -/
theorem interpret_spec {P : MontParams} (hP : P.Ok) (bs : List UInt8) (h : bs.length = 64) :
    ∃ y, Fp.interpret P bs = .ok y ∧ y < P.modulus ∧ Fp.into_u256 P y = beVal bs % P.modulus :=
  Fp.interpret_spec hP bs h
/-- strict 32-byte decoder (1..=31-byte path after padding; point coordinates) -/
theorem from_slice_strict_spec {P : MontParams} (hP : P.Ok) (bs : List UInt8) :
    Fp.from_slice P bs = (if bs.length = 32 ∧ beVal bs < P.modulus then some (beVal bs * W256 % P.modulus) else none) :=
  Fp.from_slice_strict_spec hP bs
/-- `to_slice` is the 32-byte big-endian canonical value, below the modulus; decoding it gives x back -/
theorem to_slice_value {P : MontParams} (hP : P.Ok) (x : Nat) (hx : x < P.modulus) :
    (Fp.to_slice P x).length = 32 ∧ beVal (Fp.to_slice P x) = Fp.into_u256 P x ∧ beVal (Fp.to_slice P x) < P.modulus :=
  Fp.to_slice_value hP x hx
theorem from_to_slice {P : MontParams} (hP : P.Ok) (x : Nat) (hx : x < P.modulus) :
    Fp.from_slice P (Fp.to_slice P x) = some x := Fp.from_slice_to_slice hP x hx
/-- `Fr::from_hash(h) = (int(h) mod (r−1)) + 1` for up to 64 bytes, `None` beyond -/
theorem from_hash_spec (ha : List UInt8) (h : ha.length ≤ 64) :
    ∃ y, FrL.from_hash ha = .ok (some y) ∧ y < Consts.FR ∧
      Fp.into_u256 paramsR y = beVal ha % (Consts.FR - 1) + 1 := FrL.from_hash_spec ha h
theorem from_hash_too_long_limb (ha : List UInt8) (h : ha.length > 64) : FrL.from_hash ha = .ok none :=
  FrL.from_hash_too_long ha h
/-- `set_bit(i, v)` sets bit i of the canonical value and reduces (every i; i ≥ 256 is the identity) -/
theorem set_bit_spec {P : MontParams} (hP : P.Ok) (x i : Nat) (v : Bool) (hx : x < P.modulus) :
    Fp.into_u256 P (Fp.set_bit P x i v) = (U256.set_bit (Fp.into_u256 P x) i v).1 % P.modulus ∧
    Fp.set_bit P x i v < P.modulus := Fp.set_bit_spec hP x i v hx
/-- `random`: the 512-bit draw reduced modulo p -/
theorem random_spec {P : MontParams} (hP : P.Ok) (draw : List Nat) :
    Fp.random P draw = Limb.value B64 (draw.take 8) % P.modulus ∧ Fp.random P draw < P.modulus :=
  Fp.random_spec hP draw
theorem be_roundtrip (len n : Nat) (h : n < 256 ^ len) : beVal (beBytes len n) = n := beVal_beBytes len n h

/-! value level (what the public API returns) -/
theorem fr_from_slice_spec (bs : List UInt8) :
    Api.frFromSlice bs = if 1 ≤ bs.length ∧ bs.length ≤ 64 then some (Fr.ofNat (beVal bs)) else none := rfl
theorem fr_from_slice_value (bs : List UInt8) (x : Fr) (h : Api.frFromSlice bs = some x) :
    x.val = beVal bs % r := by
  unfold Api.frFromSlice at h
  split at h
  · cases h; rfl
  · cases h
theorem fq_from_slice_value (bs : List UInt8) (x : Fq) (h : Api.fqFromSlice bs = some x) :
    x.val = beVal bs % q := by
  unfold Api.fqFromSlice at h
  split at h
  · cases h; rfl
  · cases h
theorem from_slice_lengths (bs : List UInt8) :
    (Api.frFromSlice bs).isSome = (decide (1 ≤ bs.length ∧ bs.length ≤ 64)) := by
  unfold Api.frFromSlice; split <;> simp_all
theorem from_hash_range (ha : List UInt8) (x : Fr) (h : Api.frFromHash ha = some x) :
    1 ≤ x.val ∧ x.val ≤ r - 1 ∧ x.val = beVal ha % (r - 1) + 1 := by
  unfold Api.frFromHash at h
  split at h
  · cases h
  · cases h
    have hr : 1 < r - 1 := by decide +kernel
    have hlt : beVal ha % (r - 1) < r - 1 := Nat.mod_lt _ (by omega)
    have hv : (Fr.ofNat (beVal ha % (r - 1) + 1)).val = beVal ha % (r - 1) + 1 := by
      show (beVal ha % (r - 1) + 1) % r = _
      apply Nat.mod_eq_of_lt; omega
    rw [hv]; omega
theorem from_hash_too_long (ha : List UInt8) (h : ha.length > 64) : Api.frFromHash ha = none := by
  unfold Api.frFromHash; simp [h]
theorem to_big_endian_wrong_size (a : Fq) (n : Nat) (h : n ≠ 32) : Api.fqToBigEndian a n = none := by
  unfold Api.fqToBigEndian; simp [h]
theorem from_str_rejects (s : List Char) (h : s.all Char.isDigit = false) : Api.frFromStr s = none := by
  unfold Api.frFromStr; simp [h]
/-- digit strings: the decimal value (most significant digit first), reduced mod r -/
theorem from_str_digits (s : List Char) (h : s.all Char.isDigit = true) :
    Api.frFromStr s = some (Fr.ofNat (s.foldl (fun acc c => acc * 10 + (c.toNat - 48)) 0)) := by
  unfold Api.frFromStr; simp [h]
theorem fq_from_str_digits (s : List Char) (h : s.all Char.isDigit = true) :
    Api.fqFromStr s = some (Fq.ofNat (s.foldl (fun acc c => acc * 10 + (c.toNat - 48)) 0)) := by
  unfold Api.fqFromStr; simp [h]
/-- the limb-level loop (Montgomery table of 0..10, `res·10 + digit`) denotes exactly that and stays below the modulus -/
theorem from_str_limb_refines_fr (s : List Char) :
    (Fp.from_str paramsR s).map Fr.ofMont = Api.frFromStr s ∧ ∀ y, Fp.from_str paramsR s = some y → y < Consts.FR :=
  Fr.from_str_refines s
theorem from_str_limb_refines_fq (s : List Char) :
    (Fp.from_str paramsQ s).map Fq.ofMont = Api.fqFromStr s ∧ ∀ y, Fp.from_str paramsQ s = some y → y < Consts.FQ :=
  Fq.from_str_refines s
/-- non-vacuity: "1234" -/
example : Api.frFromStr ['1', '2', '3', '4'] = some (Fr.ofNat 1234) := by decide +kernel
theorem set_bit_out_of_range (a : Fr) (i : Nat) (v : Bool) (h : i ≥ 256) : Api.frSetBit a i v = a := by
  unfold Api.frSetBit U256.set_bit
  simp only [h, if_true]
  apply Fin.ext
  show a.val % r = a.val
  exact Nat.mod_eq_of_lt a.isLt

end Sm9.C13
