import Sm9.Proofs.MontBasic
import Sm9.Proofs.MontMul
import Sm9.Proofs.MontInvert
import Sm9.Proofs.Conversions
import Sm9.Proofs.MontSop
import Sm9.Proofs.Consts
import Sm9.Proofs.FqField
import Sm9.Model.Api
import Sm9.Proofs.LibScalar
import Sm9.Proofs.FieldProgram
import Sm9.Proofs.FieldProgram2
import Sm9.Proofs.FieldProgram2Sqrt
/-!
# C07 — Field elements always stay canonical; equality is value equality
Limb level: `Canon m x := x < m`.  Every arithmetic step of the limb model maps canonical
inputs to canonical outputs: add, sub, negate, double, Montgomery multiply, square,
entering / leaving Montgomery form, and `set_bit` (after the D1 repair it re-enters
Montgomery form through a reducing multiplication).  On canonical limbs the derived
`PartialEq` (equality of raw limbs) is equality of values, because x ↦ x·R mod m is
injective on [0, m).  `inverse` terminates (within the model's fuel) with a canonical result on
every canonical non-zero input; every constructor (`new`, strict / reducing `from_slice`,
`interpret`, `from_hash`, `random` for arbitrary RNG output, `set_bit` for every index) yields a
canonical value, and so does the interleaved `sum_of_products` behind every Fq2/Fq4 product.
Histories (any order of public calls) are additionally exercised by register-machine programs
on the real crate.

## Any sequence of public operations (one induction over an operation language)

`Sm9/Model/Prog.lean` defines the instruction set `FInstr` of the field programs of the line protocol
(`const slice str hash random add sub mul pow neg dup inv sqrt setbit`: the public `Fr` / `Fq` API of
lib.rs) and ONE register machine `fstep O` / `frun O`, instantiated
* at the limb level, `FrProg.frunL` / `FqProg.frunL`: a register is the stored Montgomery
  representative, an instruction runs the limb-model function the `lib.rs` wrapper calls
  (`lib_from_slice`, `Fp.from_str`, `FrL.from_hash`, `Fp.random`, `Fp.add/sub/mul/neg/pow`,
  `Fp.inverse`, `FqL.sqrt`, `Fp.set_bit`; `Sm9/Gen/LimbEquiv.lean` proves these equal to the
  definitions translated from the Rust source), and
* at the value level, `FrProg.frunV` / `FqProg.frunV`: what the differential driver runs
  (`Sm9/Driver/Prog.lean` only parses the text of a step into an `FInstr`).
A `None` result of the API (bad length, non-digit, `inverse` of 0, `sqrt` of a non-square) leaves zero.

Proved for **every** program `prog : List FInstr` (any length, any order), for Fr and for Fq, with
`CanonRel x a := x < modulus ∧ ofMont x = a` (`ofMont x` = the field element `x · R⁻¹`):

* `fr_program_fails_iff` / `fq_program_fails_iff` (no hypothesis): the limb-level machine fails exactly
  when the value-level machine fails, and (`fr_program_fails_iff_wf`) that happens exactly when the
  program is not `WellFormed` — a decidable, purely syntactic condition: a register index that does
  not refer to an earlier step, an instruction the field does not have (`sqrt` for Fr; `hash random
  setbit` for Fq), a `random` script that is not 8 words long, a `const` literal beyond 64 bytes.
  In particular no limb-model function panics and **the fuel of `inverse` (binary extended Euclid)
  always suffices** along a run (`fr_program_total`, `fr_inverse_total`).
* `fr_program_refines` / `fq_program_refines`: if the value-level machine runs, the limb-level machine
  runs and `List.Forall₂ CanonRel` relates the two register files; `fr_program_canonical`: every limb
  register after any program is `< modulus`.
* observations are functions of the denoted field element: `fr_observe_eq` (equality of raw limbs —
  the derived `==` — ⇔ equality of the field elements), `fr_observe_is_zero`, `fr_observe_to_slice`,
  `fq_observe_is_even`; `fr_canon_unique`: the stored limbs themselves are determined by the field
  element, hence (`fr_step_congr`) any further instruction applied to two register files denoting
  the same values gives related — in fact identical — results; `fr_canon_fresh`: the value decoded
  afresh from `to_slice` is that unique representative.  `fr_program_observe` packages these for the
  registers of a run.

**Hypotheses that remain / modelling conventions**: `random` takes the RNG output as a script of
exactly 8 words (`next_u64` draws, limb 0 first; any word values); the exponent of `pow` is a
register (as in `Fr::pow(self, exp: Fr)`), not a literal; `const v` stands for `from_slice` of the
32-byte (64-byte if `v ≥ 2^256`) big-endian encoding of `v`; `str` takes the already UTF-8-decoded
characters.  **Fq2** has its own instance of the same machine (`Sm9/Proofs/FieldProgram2.lean`, theorems `fq2_program_*`
below): registers are pairs of Montgomery limbs, the instructions are the ones the public `Fq2` API has
(`slice` = the strict 64-byte decoder, `add sub mul neg dup`; `mul` is the interleaved `sum_of_products` exactly as
`Fq2::mul_inplace` calls it) and, in the extended machine `opsLs`/`opsVs` of `Sm9/Proofs/FieldProgram2Sqrt.lean`, `sqrt`: the
limb-level `Fq2::sqrt` (`sqrtL`, Tower.lean's algorithm line by line on Montgomery residues) never fails, returns `None`
exactly when the value-level root does not exist and otherwise a canonical pair denoting it (`fq2_sqrt_refines`).  Field elements
inside Fq4/Fq12 and point coordinates are not registers of any of these machines (they are covered by the step theorems
above and by C16 for points).
-/
set_option maxRecDepth 100000
namespace Sm9.C07

def Canon (m x : Nat) : Prop := x < m

theorem add_canon (a b m : Nat) (hm : m < W256) (hm2 : W256 < 2 * m) (ha : Canon m a) (hb : Canon m b) :
    Canon m (U256.add a b m) := (U256.add_refines a b m hm hm2 ha hb).1
theorem sub_canon (a b m : Nat) (hm : m < W256) (ha : Canon m a) (hb : Canon m b) :
    Canon m (U256.sub a b m) := (U256.sub_refines a b m hm ha hb).1
theorem neg_canon (a m : Nat) (hm : m < W256) (ha : Canon m a) : Canon m (U256.neg a m) :=
  (U256.neg_refines a m hm ha).1
theorem double_canon (a m : Nat) (hm : m < W256) (hm2 : W256 < 2 * m) (ha : Canon m a) :
    Canon m (U256.mul2 a m) := (U256.mul2_refines a m hm hm2 ha).1
theorem mul_canon {P : MontParams} (hP : P.Ok) (a b : Nat) (ha : Canon P.modulus a) (hb : Canon P.modulus b) :
    Canon P.modulus (Fp.mul P a b) := (Fp.mul_refines hP a b ha hb).1
theorem squared_canon {P : MontParams} (hP : P.Ok) (a : Nat) (ha : Canon P.modulus a) :
    Canon P.modulus (Fp.squared P a) := (Fp.squared_refines hP a ha).1
/-- constructors: `zero`, `one` are canonical; `new` accepts exactly the canonical range and
    its result is canonical -/
theorem ctor_canon : Canon paramsQ.modulus 0 ∧ Canon paramsQ.modulus paramsQ.one ∧
    Canon paramsR.modulus 0 ∧ Canon paramsR.modulus paramsR.one := by
  unfold Canon; decide +kernel
theorem new_spec {P : MontParams} (hP : P.Ok) (x : Nat) :
    Fp.new P x = if x < P.modulus then some ((x * W256) % P.modulus) else none := Fp.new_eq hP x
theorem new_canon {P : MontParams} (hP : P.Ok) (x y : Nat) (h : Fp.new P x = some y) : Canon P.modulus y := by
  rw [Fp.new_eq hP] at h
  split at h
  · rw [Option.some.injEq] at h; rw [← h]
    exact Nat.mod_lt _ (by have := hP.gt; rw [U256.W256_eq] at this; omega)
  · cases h
theorem inverse_canon_terminates {P : MontParams} (hP : P.Ok) (hp : Nat.Prime P.modulus) (x : Nat)
    (hx : Canon P.modulus x) (h0 : x ≠ 0) :
    ∃ y, Fp.inverse P x = some (some y) ∧ Canon P.modulus y := by
  obtain ⟨y, h1, h2, _⟩ := (Fp.inverse_refines hP hp x hx).2 h0
  exact ⟨y, h1, h2⟩
theorem div2_canon (b m : Nat) (hm : m < W256) (hm2 : W256 < 2 * m) (hodd : m % 2 = 1) (hb : Canon m b) :
    Canon m (U256.div2 b m) := (U256.div2_refines b m hm hm2 hodd hb).1
theorem new_mul_factor_canon {P : MontParams} (hP : P.Ok) (x : Nat) (hx : x < W256) :
    Canon P.modulus (Fp.new_mul_factor P x) := (Fp.new_mul_factor_reduces hP x hx).1
theorem interpret_canon {P : MontParams} (hP : P.Ok) (bs : List UInt8) (h : bs.length = 64) :
    ∃ y, Fp.interpret P bs = .ok y ∧ Canon P.modulus y := by
  obtain ⟨y, h1, h2, _⟩ := Fp.interpret_spec hP bs h
  exact ⟨y, h1, h2⟩
theorem set_bit_canon {P : MontParams} (hP : P.Ok) (x i : Nat) (v : Bool) (hx : Canon P.modulus x) :
    Canon P.modulus (Fp.set_bit P x i v) := (Fp.set_bit_spec hP x i v hx).2
theorem random_canon {P : MontParams} (hP : P.Ok) (draw : List Nat) : Canon P.modulus (Fp.random P draw) :=
  (Fp.random_spec hP draw).2
theorem from_hash_canon (ha : List UInt8) (h : ha.length ≤ 64) :
    ∃ y, FrL.from_hash ha = .ok (some y) ∧ Canon Consts.FR y := by
  obtain ⟨y, h1, h2, _⟩ := FrL.from_hash_spec ha h
  exact ⟨y, h1, h2⟩
theorem sum_of_products_canon (as bs : List Nat) (hlen : as.length = bs.length) (h4 : as.length ≤ 4)
    (ha : ∀ a ∈ as, Canon Consts.FQ a) (hb : ∀ b ∈ bs, Canon Consts.FQ b) :
    ∃ res, FqL.sum_of_products as bs = some res ∧ Canon Consts.FQ res := by
  obtain ⟨res, h1, h2, _⟩ := FqL.sum_of_products_refines as bs hlen h4 ha hb
  exact ⟨res, h1, h2⟩
/-- on canonical limbs, equal values (x·R mod m) force equal limbs: `==` on raw limbs is value equality -/
theorem eq_iff_value {P : MontParams} (hP : P.Ok) {a b : Nat} (ha : Canon P.modulus a) (hb : Canon P.modulus b)
    (h : (a * W256) % P.modulus = (b * W256) % P.modulus) : a = b := Fp.eq_of_mul_W256 hP ha hb h
/-- the canonical encoding is below the modulus -/
theorem to_slice_lt {P : MontParams} (hP : P.Ok) (x : Nat) (hx : Canon P.modulus x) :
    Fp.into_u256 P x < P.modulus := (Fp.into_u256_refines hP x hx).1
/-- value level: `is_zero` holds exactly for the value 0 -/
theorem is_zero_iff (x : Fq) : x.is_zero = true ↔ x = 0 := Fq.is_zero_iff x
theorem fr_is_zero_iff (x : Fr) : x.is_zero = true ↔ x = 0 := Fr.is_zero_iff x
/-- the D1 witness, on the repaired code: setting bits 255 and 254 of one stays canonical -/
example : Fp.set_bit paramsR (Fp.set_bit paramsR paramsR.one 255 true) 254 true < paramsR.modulus := by
  decide +kernel

/-! ## any sequence of public operations: limb-level machine vs value-level machine -/

/-- what the relation says -/
theorem fr_canonRel_iff (x : Nat) (a : Fr) : FrProg.CanonRel x a ↔ (Canon paramsR.modulus x ∧ Fr.ofMont x = a) := Iff.rfl
theorem fq_canonRel_iff (x : Nat) (a : Fq) : FqProg.CanonRel x a ↔ (Canon paramsQ.modulus x ∧ Fq.ofMont x = a) := Iff.rfl

/-- main theorem, Fr: if the value-level machine runs, so does the limb-level machine, and limb
    register k is the canonical representative of value register k -/
theorem fr_program_refines (prog : List FInstr) (ds : List Fr) (h : FrProg.frunV prog = some ds) :
    ∃ regs, FrProg.frunL prog = some regs ∧ List.Forall₂ FrProg.CanonRel regs ds :=
  FrProg.frun_refines prog ds h
theorem fq_program_refines (prog : List FInstr) (ds : List Fq) (h : FqProg.frunV prog = some ds) :
    ∃ regs, FqProg.frunL prog = some regs ∧ List.Forall₂ FqProg.CanonRel regs ds :=
  FqProg.frun_refines prog ds h

/-- the machines fail on exactly the same programs (no panic, no fuel exhaustion at the limb level) -/
theorem fr_program_fails_iff (prog : List FInstr) : FrProg.frunL prog = none ↔ FrProg.frunV prog = none :=
  FrProg.frun_fails_iff prog
theorem fq_program_fails_iff (prog : List FInstr) : FqProg.frunL prog = none ↔ FqProg.frunV prog = none :=
  FqProg.frun_fails_iff prog

/-- … namely on the programs that are not well formed (decidable, syntactic) -/
theorem fr_program_fails_iff_wf (prog : List FInstr) : FrProg.frunL prog = none ↔ ¬ FrProg.WellFormed prog :=
  (FrProg.frun_fails_iff prog).trans (FrProg.frunV_fails_iff_wf prog)
theorem fq_program_fails_iff_wf (prog : List FInstr) : FqProg.frunL prog = none ↔ ¬ FqProg.WellFormed prog :=
  (FqProg.frun_fails_iff prog).trans (FqProg.frunV_fails_iff_wf prog)

/-- every register after any sequence of public operations is canonical -/
theorem fr_program_canonical (prog : List FInstr) (regs : List Nat) (h : FrProg.frunL prog = some regs) :
    ∀ x ∈ regs, Canon paramsR.modulus x := FrProg.frun_canonical prog regs h
theorem fq_program_canonical (prog : List FInstr) (regs : List Nat) (h : FqProg.frunL prog = some regs) :
    ∀ x ∈ regs, Canon paramsQ.modulus x := FqProg.frun_canonical prog regs h

/-- totality on well-formed programs -/
theorem fr_program_total (prog : List FInstr) (hwf : FrProg.WellFormed prog) :
    ∃ regs ds, FrProg.frunL prog = some regs ∧ FrProg.frunV prog = some ds ∧
      List.Forall₂ FrProg.CanonRel regs ds ∧ regs.length = prog.length ∧ ∀ x ∈ regs, x < paramsR.modulus :=
  FrProg.frunL_total prog hwf
theorem fq_program_total (prog : List FInstr) (hwf : FqProg.WellFormed prog) :
    ∃ regs ds, FqProg.frunL prog = some regs ∧ FqProg.frunV prog = some ds ∧
      List.Forall₂ FqProg.CanonRel regs ds ∧ regs.length = prog.length ∧ ∀ x ∈ regs, x < paramsQ.modulus :=
  FqProg.frunL_total prog hwf

/-- the fuel of `inverse` suffices on every canonical input -/
theorem fr_inverse_total (x : Nat) (hx : Canon paramsR.modulus x) :
    ∃ y, FProg.invL paramsR x = some y ∧ y < paramsR.modulus ∧ Fr.ofMont y = ((Fr.ofMont x).inverse).getD 0 :=
  FrProg.invL_total x hx
theorem fq_inverse_total (x : Nat) (hx : Canon paramsQ.modulus x) :
    ∃ y, FProg.invL paramsQ x = some y ∧ y < paramsQ.modulus ∧ Fq.ofMont y = ((Fq.ofMont x).inverse).getD 0 :=
  FqProg.invL_total x hx

/-- the step lemma: from related register files, any instruction fails in both machines or yields
    related register files -/
theorem fr_step_refines {regs : List Nat} {ds : List Fr} (h : List.Forall₂ FrProg.CanonRel regs ds) (ins : FInstr) :
    OptRel (List.Forall₂ FrProg.CanonRel) (FrProg.fstepL regs ins) (FrProg.fstepV ds ins) :=
  FrProg.fstep_refines h ins
theorem fq_step_refines {regs : List Nat} {ds : List Fq} (h : List.Forall₂ FqProg.CanonRel regs ds) (ins : FInstr) :
    OptRel (List.Forall₂ FqProg.CanonRel) (FqProg.fstepL regs ins) (FqProg.fstepV ds ins) :=
  FqProg.fstep_refines h ins

/-! observations -/

/-- raw-limb equality (the derived `==`) ⇔ equality of the denoted field elements -/
theorem fr_observe_eq {x y : Nat} {a b : Fr} (hx : FrProg.CanonRel x a) (hy : FrProg.CanonRel y b) :
    x = y ↔ a = b := FrProg.observe_eq hx hy
theorem fq_observe_eq {x y : Nat} {a b : Fq} (hx : FqProg.CanonRel x a) (hy : FqProg.CanonRel y b) :
    x = y ↔ a = b := FqProg.observe_eq hx hy
theorem fr_observe_is_zero {x : Nat} {a : Fr} (hx : FrProg.CanonRel x a) : Fp.is_zero x = a.is_zero :=
  FrProg.observe_is_zero hx
theorem fq_observe_is_zero {x : Nat} {a : Fq} (hx : FqProg.CanonRel x a) : Fp.is_zero x = a.is_zero :=
  FqProg.observe_is_zero hx
theorem fr_observe_to_slice {x : Nat} {a : Fr} (hx : FrProg.CanonRel x a) :
    Fp.to_slice paramsR x = Api.frToSlice a := FrProg.observe_to_slice hx
theorem fq_observe_to_slice {x : Nat} {a : Fq} (hx : FqProg.CanonRel x a) :
    Fp.to_slice paramsQ x = Api.fqToSlice a := FqProg.observe_to_slice hx
theorem fq_observe_is_even {x : Nat} {a : Fq} (hx : FqProg.CanonRel x a) :
    Big.is_even (Fp.into_u256 paramsQ x) = a.is_even := FqProg.observe_is_even hx
/-- the stored limbs are a function of the field element -/
theorem fr_canon_unique {x y : Nat} {a : Fr} (hx : FrProg.CanonRel x a) (hy : FrProg.CanonRel y a) : x = y :=
  FrProg.canonRel_unique hx hy
theorem fq_canon_unique {x y : Nat} {a : Fq} (hx : FqProg.CanonRel x a) (hy : FqProg.CanonRel y a) : x = y :=
  FqProg.canonRel_unique hx hy
theorem fr_canon_fresh (a : Fr) : FrProg.CanonRel (Fp.new_mul_factor paramsR a.val) a := FrProg.canonRel_fresh a
theorem fq_canon_fresh (a : Fq) : FqProg.CanonRel (Fp.new_mul_factor paramsQ a.val) a := FqProg.canonRel_fresh a
/-- any further instruction applied to two register files denoting the same values -/
theorem fr_step_congr {regs regs' : List Nat} {ds : List Fr} (h : List.Forall₂ FrProg.CanonRel regs ds)
    (h' : List.Forall₂ FrProg.CanonRel regs' ds) (ins : FInstr) :
    OptRel (List.Forall₂ FrProg.CanonRel) (FrProg.fstepL regs ins) (FrProg.fstepV ds ins) ∧
    OptRel (List.Forall₂ FrProg.CanonRel) (FrProg.fstepL regs' ins) (FrProg.fstepV ds ins) ∧
    FrProg.fstepL regs ins = FrProg.fstepL regs' ins := FrProg.step_congr h h' ins
theorem fq_step_congr {regs regs' : List Nat} {ds : List Fq} (h : List.Forall₂ FqProg.CanonRel regs ds)
    (h' : List.Forall₂ FqProg.CanonRel regs' ds) (ins : FInstr) :
    OptRel (List.Forall₂ FqProg.CanonRel) (FqProg.fstepL regs ins) (FqProg.fstepV ds ins) ∧
    OptRel (List.Forall₂ FqProg.CanonRel) (FqProg.fstepL regs' ins) (FqProg.fstepV ds ins) ∧
    FqProg.fstepL regs ins = FqProg.fstepL regs' ins := FqProg.step_congr h h' ins
/-- the observations of the registers of a run -/
theorem fr_program_observe (prog : List FInstr) (regs : List Nat) (h : FrProg.frunL prog = some regs) :
    ∃ ds, FrProg.frunV prog = some ds ∧ ds.length = regs.length ∧
      ∀ (i j x y : Nat), regs[i]? = some x → regs[j]? = some y → ∃ a b, ds[i]? = some a ∧ ds[j]? = some b ∧
        x < paramsR.modulus ∧ Fr.ofMont x = a ∧
        FProg.eqObs x y = decide (a = b) ∧ FProg.isZeroObs x = a.is_zero ∧
        FProg.toSliceObs paramsR x = Api.frToSlice a := FrProg.frun_observe prog regs h
theorem fq_program_observe (prog : List FInstr) (regs : List Nat) (h : FqProg.frunL prog = some regs) :
    ∃ ds, FqProg.frunV prog = some ds ∧ ds.length = regs.length ∧
      ∀ (i j x y : Nat), regs[i]? = some x → regs[j]? = some y → ∃ a b, ds[i]? = some a ∧ ds[j]? = some b ∧
        x < paramsQ.modulus ∧ Fq.ofMont x = a ∧
        FProg.eqObs x y = decide (a = b) ∧ FProg.isZeroObs x = a.is_zero ∧
        FProg.toSliceObs paramsQ x = Api.fqToSlice a ∧ FProg.isEvenObs x = a.is_even :=
  FqProg.frun_observe prog regs h

/-! ### Fq2: the same induction, on pairs of limbs -/
/-- every program over Fq2 values: the limb machine runs whenever the value machine does; every register is canonical in both
    coordinates and denotes the corresponding register of the value machine -/
theorem fq2_program_refines (prog : List FInstr) (ds : List Fq2) (h : Fq2Prog.frunV prog = some ds) :
    ∃ regs, Fq2Prog.frunL prog = some regs ∧ List.Forall₂ Fq2Prog.CanonRel2 regs ds := Fq2Prog.frun_refines prog ds h
theorem fq2_program_fails_iff (prog : List FInstr) : Fq2Prog.frunL prog = none ↔ Fq2Prog.frunV prog = none :=
  Fq2Prog.frun_fails_iff prog
theorem fq2_program_fails_iff_wf (prog : List FInstr) : Fq2Prog.frunL prog = none ↔ ¬ Fq2Prog.WellFormed prog :=
  Fq2Prog.frunL_fails_iff_wf prog
theorem fq2_program_canonical (prog : List FInstr) (regs : List (Nat × Nat)) (h : Fq2Prog.frunL prog = some regs) :
    ∀ x ∈ regs, x.1 < paramsQ.modulus ∧ x.2 < paramsQ.modulus := Fq2Prog.frun_canonical prog regs h
/-- raw-limb equality of two registers is equality in Fq2; `is_zero` holds exactly for the value 0; the 64-byte encoding and
    the parity are functions of the denoted element -/
theorem fq2_observe_eq {x y : Nat × Nat} {a b : Fq2} (hx : Fq2Prog.CanonRel2 x a) (hy : Fq2Prog.CanonRel2 y b) :
    x = y ↔ a = b := Fq2Prog.observe_eq hx hy
theorem fq2_observe_is_zero_iff {x : Nat × Nat} {a : Fq2} (hx : Fq2Prog.CanonRel2 x a) :
    Fq2Prog.isZeroObs2 x = true ↔ a = Fq2.zero := Fq2Prog.observe_is_zero_iff hx
theorem fq2_observe_to_slice {x : Nat × Nat} {a : Fq2} (hx : Fq2Prog.CanonRel2 x a) :
    Fq2Prog.toSliceObs2 x = Api.fq2ToSlice a := Fq2Prog.observe_to_slice hx
theorem fq2_canon_unique {x y : Nat × Nat} {a : Fq2} (hx : Fq2Prog.CanonRel2 x a) (hy : Fq2Prog.CanonRel2 y a) : x = y :=
  Fq2Prog.canonRel2_unique hx hy
/-- the limb-level `Fq2::sqrt`: total, `None` exactly when the value-level square root is `None`, otherwise canonical and
    denoting it -/
theorem fq2_sqrt_refines {x : Nat × Nat} {a : Fq2} (hx : Fq2Prog.CanonRel2 x a) :
    ∃ res, Fq2Prog.sqrtL x = some res ∧ OptRel Fq2Prog.CanonRel2 res a.sqrt := Fq2Prog.sqrtL_refines hx
/-- the program theorems for the machine that has every public Fq2 operation incl. `sqrt` -/
theorem fq2_program_refines_s (prog : List FInstr) (ds : List Fq2) (h : Fq2Prog.frunVs prog = some ds) :
    ∃ regs, Fq2Prog.frunLs prog = some regs ∧ List.Forall₂ Fq2Prog.CanonRel2 regs ds := Fq2Prog.frun_refines_s prog ds h
theorem fq2_program_fails_iff_s (prog : List FInstr) : Fq2Prog.frunLs prog = none ↔ Fq2Prog.frunVs prog = none :=
  Fq2Prog.frun_fails_iff_s prog
theorem fq2_program_canonical_s (prog : List FInstr) (regs : List (Nat × Nat)) (h : Fq2Prog.frunLs prog = some regs) :
    ∀ x ∈ regs, x.1 < paramsQ.modulus ∧ x.2 < paramsQ.modulus := Fq2Prog.frun_canonical_s prog regs h
/-- non-vacuity: decode two elements, multiply -/
example : Fq2Prog.WellFormed Fq2Prog.demo := by decide

/-- non-vacuity: the D1 history (set bits 255 and 254 of one) followed by every kind of Fr operation,
    including `inverse` of zero; the limb-level machine runs and all registers are canonical -/
def exampleFr : List FInstr :=
  [.str ['1'], .setbit 0 255 true, .setbit 1 254 true, .hash [1, 2], .random [1, 2, 3, 4, 5, 6, 7, 8],
   .mul 2 3, .pow 5 4, .sub 0 0, .inv 7, .inv 6, .neg 9, .slice [255], .add 10 11, .const 7, .dup 13]
example : ∃ regs, FrProg.frunL exampleFr = some regs ∧ regs.length = 15 ∧ ∀ x ∈ regs, Canon paramsR.modulus x := by
  obtain ⟨regs, _, h1, _, _, h4, h5⟩ := FrProg.frunL_total exampleFr (by decide)
  exact ⟨regs, h1, h4, h5⟩
def exampleFq : List FInstr :=
  [.const 4, .sqrt 0, .neg 1, .sqrt 2, .inv 3, .str ['9', 'x'], .pow 1 0, .sub 6 6, .inv 7]
example : ∃ regs, FqProg.frunL exampleFq = some regs ∧ ∀ x ∈ regs, Canon paramsQ.modulus x := by
  obtain ⟨regs, _, h1, _, _, _, h5⟩ := FqProg.frunL_total exampleFq (by decide)
  exact ⟨regs, h1, h5⟩
/-- the machines fail together: `sqrt` does not exist for Fr; a forward reference -/
example : FrProg.frunL [.const 4, .sqrt 0] = none := (fr_program_fails_iff_wf [.const 4, .sqrt 0]).2 (by decide)
example : FqProg.frunL [.const 4, .add 0 1] = none := (fq_program_fails_iff_wf [.const 4, .add 0 1]).2 (by decide)

end Sm9.C07
