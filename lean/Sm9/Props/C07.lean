import Sm9.Proofs.MontBasic
import Sm9.Proofs.MontMul
import Sm9.Proofs.MontInvert
import Sm9.Proofs.Conversions
import Sm9.Proofs.MontSop
import Sm9.Proofs.Consts
import Sm9.Proofs.FqField
import Sm9.Model.Api
/-!
# C07 — Field elements always stay canonical; equality is value equality
Limb level: `Canon m x := x < m`.  Every arithmetic step of the limb model maps canonical
inputs to canonical outputs: add, sub, negate, double, Montgomery multiply, square,
entering / leaving Montgomery form, and `set_bit` (after the D1 repair it re-enters
Montgomery form through a reducing multiplication).  On canonical limbs the derived
`PartialEq` (equality of raw limbs) is equality of values, because x ↦ x·R mod m is
injective on [0, m).  `inverse` terminates (within the model's fuel) with a canonical result on
every canonical non-zero input; every constructor (`new`, strict / reducing `from_slice`,
`interpret`, `from_hash`, `random` for arbitrary RNG output, `set_bit` for every index) yields a
canonical value, and so does the interleaved `sum_of_products` behind every Fq2/Fq4 product.
Histories (any order of public calls) are additionally exercised by register-machine programs
on the real crate.
-/
set_option maxRecDepth 100000
namespace Sm9.C07

def Canon (m x : Nat) : Prop := x < m

theorem add_canon (a b m : Nat) (hm : m < W256) (hm2 : W256 < 2 * m) (ha : Canon m a) (hb : Canon m b) :
    Canon m (U256.add a b m) := (U256.add_refines a b m hm hm2 ha hb).1
theorem sub_canon (a b m : Nat) (hm : m < W256) (ha : Canon m a) (hb : Canon m b) :
    Canon m (U256.sub a b m) := (U256.sub_refines a b m hm ha hb).1
theorem neg_canon (a m : Nat) (hm : m < W256) (ha : Canon m a) : Canon m (U256.neg a m) :=
  (U256.neg_refines a m hm ha).1
theorem double_canon (a m : Nat) (hm : m < W256) (hm2 : W256 < 2 * m) (ha : Canon m a) :
    Canon m (U256.mul2 a m) := (U256.mul2_refines a m hm hm2 ha).1
theorem mul_canon {P : MontParams} (hP : P.Ok) (a b : Nat) (ha : Canon P.modulus a) (hb : Canon P.modulus b) :
    Canon P.modulus (Fp.mul P a b) := (Fp.mul_refines hP a b ha hb).1
theorem squared_canon {P : MontParams} (hP : P.Ok) (a : Nat) (ha : Canon P.modulus a) :
    Canon P.modulus (Fp.squared P a) := (Fp.squared_refines hP a ha).1
/-- constructors: `zero`, `one` are canonical; `new` accepts exactly the canonical range and
    its result is canonical -/
theorem ctor_canon : Canon paramsQ.modulus 0 ∧ Canon paramsQ.modulus paramsQ.one ∧
    Canon paramsR.modulus 0 ∧ Canon paramsR.modulus paramsR.one := by
  unfold Canon; decide +kernel
theorem new_spec {P : MontParams} (hP : P.Ok) (x : Nat) :
    Fp.new P x = if x < P.modulus then some ((x * W256) % P.modulus) else none := Fp.new_eq hP x
theorem new_canon {P : MontParams} (hP : P.Ok) (x y : Nat) (h : Fp.new P x = some y) : Canon P.modulus y := by
  rw [Fp.new_eq hP] at h
  split at h
  · rw [Option.some.injEq] at h; rw [← h]
    exact Nat.mod_lt _ (by have := hP.gt; rw [U256.W256_eq] at this; omega)
  · cases h
theorem inverse_canon_terminates {P : MontParams} (hP : P.Ok) (hp : Nat.Prime P.modulus) (x : Nat)
    (hx : Canon P.modulus x) (h0 : x ≠ 0) :
    ∃ y, Fp.inverse P x = some (some y) ∧ Canon P.modulus y := by
  obtain ⟨y, h1, h2, _⟩ := (Fp.inverse_refines hP hp x hx).2 h0
  exact ⟨y, h1, h2⟩
theorem div2_canon (b m : Nat) (hm : m < W256) (hm2 : W256 < 2 * m) (hodd : m % 2 = 1) (hb : Canon m b) :
    Canon m (U256.div2 b m) := (U256.div2_refines b m hm hm2 hodd hb).1
theorem new_mul_factor_canon {P : MontParams} (hP : P.Ok) (x : Nat) (hx : x < W256) :
    Canon P.modulus (Fp.new_mul_factor P x) := (Fp.new_mul_factor_reduces hP x hx).1
theorem interpret_canon {P : MontParams} (hP : P.Ok) (bs : List UInt8) (h : bs.length = 64) :
    ∃ y, Fp.interpret P bs = .ok y ∧ Canon P.modulus y := by
  obtain ⟨y, h1, h2, _⟩ := Fp.interpret_spec hP bs h
  exact ⟨y, h1, h2⟩
theorem set_bit_canon {P : MontParams} (hP : P.Ok) (x i : Nat) (v : Bool) (hx : Canon P.modulus x) :
    Canon P.modulus (Fp.set_bit P x i v) := (Fp.set_bit_spec hP x i v hx).2
theorem random_canon {P : MontParams} (hP : P.Ok) (draw : List Nat) : Canon P.modulus (Fp.random P draw) :=
  (Fp.random_spec hP draw).2
theorem from_hash_canon (ha : List UInt8) (h : ha.length ≤ 64) :
    ∃ y, FrL.from_hash ha = .ok (some y) ∧ Canon Consts.FR y := by
  obtain ⟨y, h1, h2, _⟩ := FrL.from_hash_spec ha h
  exact ⟨y, h1, h2⟩
theorem sum_of_products_canon (as bs : List Nat) (hlen : as.length = bs.length) (h4 : as.length ≤ 4)
    (ha : ∀ a ∈ as, Canon Consts.FQ a) (hb : ∀ b ∈ bs, Canon Consts.FQ b) :
    ∃ res, FqL.sum_of_products as bs = some res ∧ Canon Consts.FQ res := by
  obtain ⟨res, h1, h2, _⟩ := FqL.sum_of_products_refines as bs hlen h4 ha hb
  exact ⟨res, h1, h2⟩
/-- on canonical limbs, equal values (x·R mod m) force equal limbs: `==` on raw limbs is value equality -/
theorem eq_iff_value {P : MontParams} (hP : P.Ok) {a b : Nat} (ha : Canon P.modulus a) (hb : Canon P.modulus b)
    (h : (a * W256) % P.modulus = (b * W256) % P.modulus) : a = b := Fp.eq_of_mul_W256 hP ha hb h
/-- the canonical encoding is below the modulus -/
theorem to_slice_lt {P : MontParams} (hP : P.Ok) (x : Nat) (hx : Canon P.modulus x) :
    Fp.into_u256 P x < P.modulus := (Fp.into_u256_refines hP x hx).1
/-- value level: `is_zero` holds exactly for the value 0 -/
theorem is_zero_iff (x : Fq) : x.is_zero = true ↔ x = 0 := Fq.is_zero_iff x
theorem fr_is_zero_iff (x : Fr) : x.is_zero = true ↔ x = 0 := Fr.is_zero_iff x
/-- the D1 witness, on the repaired code: setting bits 255 and 254 of one stays canonical -/
example : Fp.set_bit paramsR (Fp.set_bit paramsR paramsR.one 255 true) 254 true < paramsR.modulus := by
  decide +kernel

end Sm9.C07
