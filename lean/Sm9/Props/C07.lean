import Sm9.Proofs.MontBasic
import Sm9.Proofs.Consts
import Sm9.Proofs.FqField
import Sm9.Model.Api
/-!
# C07 — Field elements always stay canonical; equality is value equality
Limb level: `Canon m x := x < m`.  Every arithmetic step of the limb model maps canonical
inputs to canonical outputs (first landing: add, sub, negate, double; multiplication,
squaring, inversion and sum-of-products follow with C06/C12's Montgomery theorems).  On
canonical limbs the derived `PartialEq` (equality of raw limbs) is equality of values,
because x ↦ x·R⁻¹ mod m is injective on [0, m).  `set_bit` (after the D1 repair) re-enters
Montgomery form through a reducing multiplication.
-/
namespace Sm9.C07

def Canon (m x : Nat) : Prop := x < m

theorem add_canon (a b m : Nat) (hm : m < W256) (hm2 : W256 < 2 * m) (ha : Canon m a) (hb : Canon m b) :
    Canon m (U256.add a b m) := (U256.add_refines a b m hm hm2 ha hb).1
theorem sub_canon (a b m : Nat) (hm : m < W256) (ha : Canon m a) (hb : Canon m b) :
    Canon m (U256.sub a b m) := (U256.sub_refines a b m hm ha hb).1
theorem neg_canon (a m : Nat) (hm : m < W256) (ha : Canon m a) : Canon m (U256.neg a m) :=
  (U256.neg_refines a m hm ha).1
theorem double_canon (a m : Nat) (hm : m < W256) (hm2 : W256 < 2 * m) (ha : Canon m a) :
    Canon m (U256.mul2 a m) := (U256.mul2_refines a m hm hm2 ha).1
/-- constructors: `zero`, `one` are canonical -/
theorem ctor_canon : Canon paramsQ.modulus 0 ∧ Canon paramsQ.modulus paramsQ.one ∧
    Canon paramsR.modulus 0 ∧ Canon paramsR.modulus paramsR.one := by
  unfold Canon; decide +kernel
/-- `new` accepts exactly the canonical range -/
theorem new_some_iff (P : MontParams) (a : Nat) : (Fp.new P a).isSome = decide (a < P.modulus) := by
  unfold Fp.new; split <;> simp_all
/-- on canonical limbs, equal values (x·R⁻¹ mod m) force equal limbs: for odd m the map
    x ↦ x·R mod m is a bijection of [0, m) -/
theorem eq_iff_value (m a b : Nat) (hodd : Nat.Coprime (2 ^ 256) m) (ha : a < m) (hb : b < m)
    (h : a * 2 ^ 256 % m = b * 2 ^ 256 % m) : a = b := by
  have h1 : a * 2 ^ 256 ≡ b * 2 ^ 256 [MOD m] := h
  have h2 : a ≡ b [MOD m] := Nat.ModEq.cancel_right_of_coprime hodd.symm h1
  unfold Nat.ModEq at h2
  rwa [Nat.mod_eq_of_lt ha, Nat.mod_eq_of_lt hb] at h2
/-- value level: `is_zero` holds exactly for the value 0 -/
theorem is_zero_iff (x : Fq) : x.is_zero = true ↔ x = 0 := Fq.is_zero_iff x
theorem fr_is_zero_iff (x : Fr) : x.is_zero = true ↔ x = 0 := Fr.is_zero_iff x
/-- the D1 witness, on the repaired code: setting bits 255 and 254 of one stays canonical -/
example : Fp.set_bit paramsR (Fp.set_bit paramsR paramsR.one 255 true) 254 true < paramsR.modulus := by
  decide +kernel

end Sm9.C07
