import Sm9.Proofs.RepIndep
import Sm9.Proofs.SpecGroup
import Sm9.Proofs.Consts
/-!
# C09 — Only points of the curve and of the order-r subgroup pass validated construction
-/
namespace Sm9.C09

/-- `AffineG1::new(x, y)` succeeds exactly when y² = x³ + 5 -/
theorem affine_g1_new_iff (x y : Fq) :
    (∃ a, (AffineG.new x y : Except GroupError AffineG1) = .ok a) ↔ y * y = x * x * x + Fq.ofNat 5 := by
  unfold AffineG.new
  have hb : (GroupParams.coeff_b : Fq) = Fq.ofNat 5 := coeff_b1
  have hc : GroupParams.check_order Fq = false := rfl
  simp only [hc, Bool.false_eq_true, if_false]
  constructor
  · rintro ⟨a, h⟩
    split at h
    · next hh => rw [Fq.beq_iff] at hh; rw [← hb]; exact hh
    · cases h
  · intro h
    have : FieldElement.beq (FieldElement.squared y) (FieldElement.squared x * x + GroupParams.coeff_b) = true := by
      rw [Fq.beq_iff, hb]; exact h
    simp [this]
/-- `AffineG2::new` accepts only after both tests: the curve equation of the twist and
    the subgroup test `(p·(r−1)) + p == O` -/
theorem affine_g2_new_ok (x y : Fq2) (a : AffineG2)
    (h : (AffineG.new x y : Except GroupError AffineG2) = .ok a) :
    y * y = x * x * x + Fq2.new 0 (Fq.ofNat 5) ∧
    G.eq ((({ x := x, y := y, z := 1 } : G2).mul (-(1 : Fr))).add { x := x, y := y, z := 1 }) G.zero = true := by
  unfold AffineG.new at h
  have hb : (GroupParams.coeff_b : Fq2) = Fq2.new 0 (Fq.ofNat 5) := coeff_b2
  have hc : GroupParams.check_order Fq2 = true := rfl
  simp only [hc, if_true] at h
  split at h
  · next hh =>
    rw [Fq2.beq_iff] at hh
    refine ⟨?_, ?_⟩
    · rw [← hb, ← Fq2.squared_eq_mul, ← Fq2.squared_eq_mul]; exact hh
    · split at h
      · cases h
      · next hne => simpa using hne
  · cases h
/-- **`AffineG2::new(x, y)` succeeds exactly when y² = x³ + 5u and r·(x, y) = O** in the group
    of the twist -/
theorem affine_g2_new_iff (x y : Fq2) :
    (AffineG.new x y : Except GroupError AffineG2).toBool = true ↔
      ∃ _ : y * y = x * x * x + b2, r • G2.toAff { x := x, y := y, z := 1 } = 0 := by
  unfold AffineG.new
  have hc : GroupParams.check_order Fq2 = true := rfl
  simp only [hc, if_true]
  constructor
  · intro h
    split at h
    · next hh =>
      rw [Fq2.beq_iff] at hh
      have heq : y * y = x * x * x + b2 := by
        rw [← Fq2.squared_eq_mul, ← Fq2.squared_eq_mul]; exact hh
      refine ⟨heq, ?_⟩
      split at h
      · cases h
      · next hne =>
        have : G.eq ((({ x := x, y := y, z := 1 } : G2).mul (-(1 : Fr))).add { x := x, y := y, z := 1 }) G.zero = true := by
          simpa using hne
        exact (G2.subgroup_test_iff x y heq).1 this
    · cases h
  · rintro ⟨heq, hr⟩
    have hb : FieldElement.beq (FieldElement.squared y) (FieldElement.squared x * x + GroupParams.coeff_b) = true := by
      rw [Fq2.beq_iff]
      show y.squared = x.squared * x + b2
      rw [Fq2.squared_eq_mul, Fq2.squared_eq_mul]; exact heq
    have ht := (G2.subgroup_test_iff x y heq).2 hr
    simp [hb, ht, Except.toBool]
/-- the G2 decoders reach `Ok` only through the validated constructor -/
theorem g2_from_slice_funnel (bs : List UInt8) (p : G2) (h : Api.g2FromSlice bs = .ok p) :
    ∃ x y a, (AffineG.new x y : Except GroupError AffineG2) = .ok a ∧ p = a.to_jacobian := by
  unfold Api.g2FromSlice at h
  split at h
  · cases h
  · split at h
    · next x y _ _ =>
      unfold Api.liftNew at h
      split at h
      · next a ha => exact ⟨x, y, a, ha, by cases h; rfl⟩
      · cases h
    · cases h
/-- the generator of G2 is accepted (non-vacuity of the `ok` branch) -/
theorem P2_accepted :
    (AffineG.new (G.one : G2).x (G.one : G2).y : Except GroupError AffineG2).toBool = true := by
  decide +kernel
/-- … and a point of the twist outside the subgroup is rejected with `NotInSubgroup`
    (x = 1: y² = 1 + 5u has a root in Fq2; the point does not have order r) -/
theorem off_subgroup_rejected :
    ((Fq2.new 1 (Fq.ofNat 5)).sqrt.map fun y =>
      match (AffineG.new (1 : Fq2) y : Except GroupError AffineG2) with
      | .error GroupError.NotInSubgroup => true
      | _ => false) = some true := by
  decide +kernel

/-! ## against the independent implementation

The oracle's membership test is "on the twist (`Spec.onCurve2`) and `[r]P = O` by its own double-and-add over its own affine law".
Both halves are the conditions of `affine_g2_new_iff` (Proofs/SpecGroup.lean), and `Spec.r`, `Spec.q` are the crate's constants. -/
theorem independent_parameters : Spec.r = r ∧ Spec.q = q := by decide +kernel
open SpecCurve SpecGroup in
theorem independent_subgroup_test (A : (Jac.Wb b2).Point) :
    Spec.ptMul Spec.opsQ2 Spec.r (encPt A) = none ↔ r • A = 0 := by
  rw [independent_parameters.1, ptMul_eq]
  constructor
  · intro h; exact encPt_injective (h.trans encPt_zero.symm)
  · intro h; rw [h]; rfl
open SpecField SpecGroup in
theorem independent_curve_tests (x1 y1 : Fq) (x2 y2 : Fq2) :
    Spec.onCurve1 x1.val y1.val = decide (y1 * y1 = x1 * x1 * x1 + b1) ∧
    Spec.onCurve2 (toQ2 x2) (toQ2 y2) = decide (y2 * y2 = x2 * x2 * x2 + b2) :=
  ⟨onCurve1_eq x1 y1, onCurve2_eq x2 y2⟩

end Sm9.C09
