import Sm9.Proofs.GroupBasic
/-!
# C10 — Point encodings round-trip and follow the SM9 byte formats
First landing: format shapes (prefix bytes, layout x‖y, imaginary part first), the
identity cannot be encoded (modelled panic), encodings are a function of the affine
conversion only.
-/
namespace Sm9.C10

theorem g1_to_slice_identity (p : G1) (h : p.z = 0) : Api.g1ToSlice p = .panic := by
  unfold Api.g1ToSlice; rw [G1.to_affine_none_of_z p h]
theorem g1_to_slice_layout (p : G1) (a : AffineG1) (h : p.to_affine = some a) :
    Api.g1ToSlice p = .ok (beBytes 32 a.x.val ++ beBytes 32 a.y.val) := by
  unfold Api.g1ToSlice; rw [h]; rfl
theorem g1_to_uncompressed_layout (p : G1) (a : AffineG1) (h : p.to_affine = some a) :
    Api.g1ToUncompressed p = .ok ((4 : UInt8) :: (beBytes 32 a.x.val ++ beBytes 32 a.y.val)) := by
  unfold Api.g1ToUncompressed; rw [g1_to_slice_layout p a h]; rfl
theorem g1_to_compressed_layout (p : G1) (a : AffineG1) (h : p.to_affine = some a) :
    Api.g1ToCompressed p = .ok ((if a.y.val % 2 == 0 then (2 : UInt8) else 3) :: beBytes 32 a.x.val) := by
  unfold Api.g1ToCompressed; rw [h]; rfl
theorem g2_to_slice_layout (p : G2) (a : AffineG2) (h : p.to_affine = some a) :
    Api.g2ToSlice p = .ok ((beBytes 32 a.x.c1.val ++ beBytes 32 a.x.c0.val) ++ (beBytes 32 a.y.c1.val ++ beBytes 32 a.y.c0.val)) := by
  unfold Api.g2ToSlice; rw [h]; rfl
theorem g2_to_compressed_layout (p : G2) (a : AffineG2) (h : p.to_affine = some a) :
    Api.g2ToCompressed p = .ok ((if a.y.c0.val % 2 == 0 then (2 : UInt8) else 3) :: (beBytes 32 a.x.c1.val ++ beBytes 32 a.x.c0.val)) := by
  unfold Api.g2ToCompressed; rw [h]; rfl
/-- encodings depend on the value only through its affine conversion -/
theorem enc_rep_indep (p p' : G1) (h : p.to_affine = p'.to_affine) :
    Api.g1ToSlice p = Api.g1ToSlice p' ∧ Api.g1ToCompressed p = Api.g1ToCompressed p' := by
  unfold Api.g1ToSlice Api.g1ToCompressed; rw [h]; exact ⟨rfl, rfl⟩

end Sm9.C10
