import Sm9.Proofs.Decoders
/-!
# C10 — Point encodings round-trip and follow the SM9 byte formats

For every valid non-identity value in **any** representation: the raw, 0x04-prefixed and
0x02/0x03-prefixed encodings are the big-endian affine coordinates (imaginary part first in
G2, prefix by parity of y / of Re y), depend only on the denoted point, and decode back to a
value `==` to the original — G1 in all three formats; G2 raw and uncompressed for subgroup
points; compressed G2 up to sign unconditionally and exactly under Re y ≠ 0 (`…_partial`:
missing is a proof that no point of the order-r subgroup has Re y = 0).  The identity cannot be
encoded (panic, as in the crate).
-/
namespace Sm9.C10

theorem g1_slice_roundtrip (P : G1) (hP : G1.Valid P) (hz : P.z ≠ 0) :
    ∃ bs P', Api.g1ToSlice P = .ok bs ∧ Api.g1FromSlice bs = .ok P' ∧ P'.eq P = true :=
  Sm9.g1_slice_roundtrip P hP hz
theorem g1_uncompressed_roundtrip (P : G1) (hP : G1.Valid P) (hz : P.z ≠ 0) :
    ∃ bs P', Api.g1ToUncompressed P = .ok bs ∧ Api.g1FromUncompressed bs = .ok P' ∧ P'.eq P = true :=
  Sm9.g1_uncompressed_roundtrip P hP hz
theorem g1_compressed_roundtrip (P : G1) (hP : G1.Valid P) (hz : P.z ≠ 0) :
    ∃ bs P', Api.g1ToCompressed P = .ok bs ∧ Api.g1FromCompressed bs = .ok P' ∧ P'.eq P = true :=
  Sm9.g1_compressed_roundtrip P hP hz
theorem g2_slice_roundtrip (P : G2) (hP : G2.Valid P) (hz : P.z ≠ 0) (hsub : r • G2.toAff P = 0) :
    ∃ bs P', Api.g2ToSlice P = .ok bs ∧ Api.g2FromSlice bs = .ok P' ∧ P'.eq P = true :=
  Sm9.g2_slice_roundtrip P hP hz hsub
theorem g2_uncompressed_roundtrip (P : G2) (hP : G2.Valid P) (hz : P.z ≠ 0) (hsub : r • G2.toAff P = 0) :
    ∃ bs P', Api.g2ToUncompressed P = .ok bs ∧ Api.g2FromUncompressed bs = .ok P' ∧ P'.eq P = true :=
  Sm9.g2_uncompressed_roundtrip P hP hz hsub
theorem g2_compressed_roundtrip_up_to_sign (P : G2) (hP : G2.Valid P) (hz : P.z ≠ 0) (hsub : r • G2.toAff P = 0) :
    ∃ bs P', Api.g2ToCompressed P = .ok bs ∧ Api.g2FromCompressed bs = .ok P' ∧
      (P'.eq P = true ∨ P'.eq P.neg = true) := Sm9.g2_compressed_roundtrip_up_to_sign P hP hz hsub
/-- **partial**: exact compressed round trip for G2 under Re y ≠ 0 (see the header) -/
theorem g2_compressed_roundtrip_partial (P : G2) (hP : G2.Valid P) (hz : P.z ≠ 0)
    (hsub : r • G2.toAff P = 0) (hre : (P.y / P.z ^ 3).c0 ≠ 0) :
    ∃ bs P', Api.g2ToCompressed P = .ok bs ∧ Api.g2FromCompressed bs = .ok P' ∧ P'.eq P = true :=
  Sm9.g2_compressed_roundtrip_partial P hP hz hsub hre
/-- encodings do not depend on the representative -/
theorem g1_encodings_rep_indep (P Q : G1) (hP : G1.Valid P) (hQ : G1.Valid Q) (h : G1.toAff P = G1.toAff Q) :
    Api.g1ToSlice P = Api.g1ToSlice Q ∧ Api.g1ToUncompressed P = Api.g1ToUncompressed Q ∧
    Api.g1ToCompressed P = Api.g1ToCompressed Q :=
  ⟨Sm9.g1_to_slice_congr P Q hP hQ h, Sm9.g1_to_uncompressed_congr P Q hP hQ h, Sm9.g1_to_compressed_congr P Q hP hQ h⟩
theorem g2_encodings_rep_indep (P Q : G2) (hP : G2.Valid P) (hQ : G2.Valid Q) (h : G2.toAff P = G2.toAff Q) :
    Api.g2ToSlice P = Api.g2ToSlice Q ∧ Api.g2ToUncompressed P = Api.g2ToUncompressed Q ∧
    Api.g2ToCompressed P = Api.g2ToCompressed Q :=
  ⟨Sm9.g2_to_slice_congr P Q hP hQ h, Sm9.g2_to_uncompressed_congr P Q hP hQ h, Sm9.g2_to_compressed_congr P Q hP hQ h⟩
/-! formats -/
theorem g1_to_slice_identity (p : G1) (h : p.z = 0) : Api.g1ToSlice p = .panic := by
  unfold Api.g1ToSlice; rw [G1.to_affine_none_of_z p h]
theorem g1_to_slice_layout (p : G1) (a : AffineG1) (h : p.to_affine = some a) :
    Api.g1ToSlice p = .ok (beBytes 32 a.x.val ++ beBytes 32 a.y.val) := by
  unfold Api.g1ToSlice; rw [h]; rfl
theorem g1_to_uncompressed_layout (p : G1) (a : AffineG1) (h : p.to_affine = some a) :
    Api.g1ToUncompressed p = .ok ((4 : UInt8) :: (beBytes 32 a.x.val ++ beBytes 32 a.y.val)) := by
  unfold Api.g1ToUncompressed; rw [g1_to_slice_layout p a h]; rfl
theorem g1_to_compressed_layout (p : G1) (a : AffineG1) (h : p.to_affine = some a) :
    Api.g1ToCompressed p = .ok ((if a.y.val % 2 == 0 then (2 : UInt8) else 3) :: beBytes 32 a.x.val) := by
  unfold Api.g1ToCompressed; rw [h]; rfl
theorem g2_to_slice_layout (p : G2) (a : AffineG2) (h : p.to_affine = some a) :
    Api.g2ToSlice p = .ok ((beBytes 32 a.x.c1.val ++ beBytes 32 a.x.c0.val) ++ (beBytes 32 a.y.c1.val ++ beBytes 32 a.y.c0.val)) := by
  unfold Api.g2ToSlice; rw [h]; rfl
theorem g2_to_compressed_layout (p : G2) (a : AffineG2) (h : p.to_affine = some a) :
    Api.g2ToCompressed p = .ok ((if a.y.c0.val % 2 == 0 then (2 : UInt8) else 3) :: (beBytes 32 a.x.c1.val ++ beBytes 32 a.x.c0.val)) := by
  unfold Api.g2ToCompressed; rw [h]; rfl
/-- coordinates in an encoding are canonical: every 32-byte field is below q -/
theorem coordinate_canonical (x : Fq) : beVal (Api.fqToSlice x) < q := by
  unfold Api.fqToSlice
  rw [beVal_beBytes 32 x.val (lt_trans x.isLt q_lt_pow)]
  exact x.isLt

end Sm9.C10
