import Sm9.Proofs.GroupBasic
import Sm9.Proofs.Pow
/-!
# C05 — Scalar multiplication is the Z_r-module action on G1 and G2
First landing: the scalar is consumed through its canonical bits (value of the bit list is
the scalar), the zero scalar gives the identity, both generators are killed by r and by no
smaller positive multiple that r's primality allows ((r−1)·P + P = O and P ≠ O, r prime).
`mul_eq_nsmul` against Mathlib's group law follows C04's refinement (next item).
-/
namespace Sm9.C05

theorem scalar_bits_value (k : Fr) : bitsVal (bitsMSB k.val) = k.val := bitsVal_bitsMSB k.val
theorem mul_zero_scalar {F} [FieldElement F] (p : G F) : p.mul 0 = G.zero := by
  unfold G.mul G.mulBits
  have : bitsMSB (0 : Fr).val = [] := by decide +kernel
  rw [this]; rfl
theorem mul_one_scalar_g1 : ((G.one : G1).mul 1).eq G.one = true := by decide +kernel
/-- r·P1 = O : (r−1)·P1 + P1 has z = 0, and P1 ≠ O -/
theorem order_P1 : (((G.one : G1).mul (-(1 : Fr))).add G.one).z = 0 ∧ (G.one : G1).z ≠ 0 := by
  decide +kernel
theorem order_P2 : (((G.one : G2).mul (-(1 : Fr))).add G.one).z = 0 ∧ (G.one : G2).z ≠ 0 := by
  decide +kernel
theorem r_is_prime : Nat.Prime r := r_prime
/-- (r−1)·P = −P on the generators -/
theorem mul_r_minus_one_g1 : ((G.one : G1).mul (-(1 : Fr))).eq (G.one : G1).neg = true := by decide +kernel
theorem mul_r_minus_one_g2 : ((G.one : G2).mul (-(1 : Fr))).eq (G.one : G2).neg = true := by decide +kernel

end Sm9.C05
