import Sm9.Proofs.JacobianInst2
import Sm9.Proofs.SpecGroup
/-!
# C05 — Scalar multiplication is the Z_r-module action on G1 and G2
`P * k` is `k.val • P` in Mathlib's group, for every valid P (identity included, any
representation) and every scalar — generic over the field, and for the model's own G1.
With r·P1 = O (kernel evaluation), P1 ≠ O and r prime (Pratt certificate) the generator
has order exactly r, and the module laws follow from Mathlib's `AddCommGroup`.
The same for G2 over Fq2, including every point of the twist (not only the order-r subgroup).
-/
namespace Sm9.C05
open Jac

theorem mul_refines_nsmul {F : Type} [Field F] [DecidableEq F] (b : F) (h2 : (2 : F) ≠ 0)
    (hno2 : ∀ x : F, x ^ 3 + b ≠ 0) (P : G F) (hP : Valid b P) (k : Fr) :
    toAff b (@G.mul F (feOfField F) P k) = k.val • toAff b P ∧ Valid b (@G.mul F (feOfField F) P k) :=
  ⟨mul_correct b h2 hno2 P hP k, mul_valid b h2 hno2 P hP k⟩
theorem g1_mul (P : G1) (hP : G1.Valid P) (k : Fr) : G1.toAff (P.mul k) = k.val • G1.toAff P :=
  G1.mul_correct P hP k
theorem g1_mul_add (P : G1) (hP : G1.Valid P) (a b : Fr) :
    G1.toAff ((P.mul a).add (P.mul b)) = (a.val + b.val) • G1.toAff P := by
  rw [G1.add_correct _ _ (G1.mul_valid P hP a) (G1.mul_valid P hP b), G1.mul_correct P hP a,
    G1.mul_correct P hP b, add_smul]
theorem g1_mul_mul (P : G1) (hP : G1.Valid P) (a b : Fr) :
    G1.toAff ((P.mul a).mul b) = (b.val * a.val) • G1.toAff P := by
  rw [G1.mul_correct _ (G1.mul_valid P hP a) b, G1.mul_correct P hP a, mul_smul]
theorem g1_mul_zero (P : G1) (hP : G1.Valid P) : G1.toAff (P.mul 0) = 0 := by
  rw [G1.mul_correct P hP 0]
  have : (0 : Fr).val = 0 := Fr.zero_val
  rw [this, zero_smul]
theorem g1_mul_one (P : G1) (hP : G1.Valid P) : G1.toAff (P.mul 1) = G1.toAff P := by
  rw [G1.mul_correct P hP 1]
  have : (1 : Fr).val = 1 := Fr.one_val
  rw [this, one_smul]
/-- scalars act through their residue mod r on points killed by r -/
theorem g1_mul_mod_r (P : G1) (hP : G1.Valid P) (hr : r • G1.toAff P = 0) (a b : Fr) :
    G1.toAff ((P.mul a).add (P.mul b)) = G1.toAff (P.mul (a + b)) := by
  rw [g1_mul_add P hP, G1.mul_correct P hP (a + b)]
  have hab : (a + b).val = (a.val + b.val) % r := rfl
  rw [hab]
  conv_lhs => rw [← Nat.div_add_mod (a.val + b.val) r, add_smul, mul_smul, smul_comm, hr, smul_zero, zero_add]
/-- r·P1 = O and P1 ≠ O; r is prime: the generator has order exactly r -/
theorem order_P1 : r • G1.toAff (G.one : G1) = 0 ∧ G1.toAff (G.one : G1) ≠ 0 ∧ Nat.Prime r := by
  refine ⟨?_, ?_, r_prime⟩
  · -- (r−1)·P1 + P1 has z = 0 (kernel), and denotes (r−1)•P + P = r•P
    have hz : (((G.one : G1).mul (-(1 : Fr))).add G.one).z = 0 := by decide +kernel
    have h := G1.add_correct _ _ (G1.mul_valid _ G1.one_valid (-(1 : Fr))) G1.one_valid
    rw [G1.toAff_zero _ hz, G1.mul_correct _ G1.one_valid] at h
    have hv : (-(1 : Fr)).val = r - 1 := by decide +kernel
    rw [hv] at h
    have hr1 : r - 1 + 1 = r := by decide +kernel
    calc r • G1.toAff (G.one : G1) = (r - 1 + 1) • G1.toAff (G.one : G1) := by rw [hr1]
      _ = (r - 1) • G1.toAff (G.one : G1) + G1.toAff (G.one : G1) := by rw [add_smul, one_smul]
      _ = 0 := h.symm
  · have hz : (G.one : G1).z ≠ 0 := by decide +kernel
    rw [G1.toAff_some _ hz (G1.one_valid.resolve_left hz)]
    exact WeierstrassCurve.Affine.Point.some_ne_zero _
theorem g2_mul (P : G2) (hP : G2.Valid P) (k : Fr) : G2.toAff (P.mul k) = k.val • G2.toAff P :=
  G2.mul_correct P hP k
theorem g2_mul_add (P : G2) (hP : G2.Valid P) (a b : Fr) :
    G2.toAff ((P.mul a).add (P.mul b)) = (a.val + b.val) • G2.toAff P := by
  rw [G2.add_correct _ _ (G2.mul_valid P hP a) (G2.mul_valid P hP b), G2.mul_correct P hP a,
    G2.mul_correct P hP b, add_smul]
/-- r·P2 = O and P2 ≠ O: the generator of G2 has order exactly r -/
theorem order_P2 : r • G2.toAff (G.one : G2) = 0 ∧ G2.toAff (G.one : G2) ≠ 0 := by
  refine ⟨?_, ?_⟩
  · have hz : (((G.one : G2).mul (-(1 : Fr))).add G.one).z = 0 := by decide +kernel
    have h := G2.add_correct _ _ (G2.mul_valid _ G2.one_valid (-(1 : Fr))) G2.one_valid
    rw [G2.toAff_zero _ hz, G2.mul_correct _ G2.one_valid] at h
    have hv : (-(1 : Fr)).val = r - 1 := by decide +kernel
    rw [hv] at h
    have hr1 : r - 1 + 1 = r := by decide +kernel
    calc r • G2.toAff (G.one : G2) = (r - 1 + 1) • G2.toAff (G.one : G2) := by rw [hr1]
      _ = (r - 1) • G2.toAff (G.one : G2) + G2.toAff (G.one : G2) := by rw [add_smul, one_smul]
      _ = 0 := h.symm
  · have hz : (G.one : G2).z ≠ 0 := by decide +kernel
    rw [G2.toAff_some _ hz (G2.one_valid.resolve_left hz)]
    exact WeierstrassCurve.Affine.Point.some_ne_zero _
theorem order_P2_kernel : (((G.one : G2).mul (-(1 : Fr))).add G.one).z = 0 ∧ (G.one : G2).z ≠ 0 := by
  decide +kernel
theorem mul_zero_scalar {F} [FieldElement F] (p : G F) : p.mul 0 = G.zero := by
  unfold G.mul G.mulBits
  have : bitsMSB (0 : Fr).val = [] := by decide +kernel
  rw [this]; rfl

/-! ## against the independent double-and-add over affine arithmetic

`Sm9.Spec.ptMul` (the oracle of the correspondence run) is a right-to-left double-and-add over the textbook affine law `ptAdd`,
on `Option (x, y)` with naturals mod q — written without reference to the Jacobian code.  For every valid point in any
representation and every scalar it returns the affine coordinates of the model's `P * k` (Proofs/SpecGroup.lean:
`ptMul K k (enc a) = enc (k • a)` for any additive monoid that `ptAdd` implements, then C04/C05's refinement of Mathlib's group). -/
theorem mul_is_independent_double_and_add :
    (∀ (P : G1) (k : Fr), G1.Valid P →
      Spec.ptMul Spec.opsQ k.val (SpecGroup.encPt1 (G1.toAff P)) = SpecGroup.encPt1 (G1.toAff (P.mul k))) ∧
    (∀ (P : G2) (k : Fr), G2.Valid P →
      Spec.ptMul Spec.opsQ2 k.val (SpecCurve.encPt (G2.toAff P)) = SpecCurve.encPt (G2.toAff (P.mul k))) :=
  ⟨fun P k hP => SpecGroup.g1_mul_independent P hP k, fun P k hP => SpecGroup.g2_mul_independent P hP k⟩
/-- the oracle's generators are the model's -/
theorem generators_are_the_standards :
    Spec.P1 = SpecGroup.encPt1 (G1.toAff (G.one : G1)) ∧ Spec.P2 = SpecCurve.encPt (G2.toAff (G.one : G2)) :=
  ⟨SpecGroup.P1_eq, SpecGroup.P2_eq⟩

end Sm9.C05
