import Sm9.Proofs.JacobianInst2
import Sm9.Proofs.SpecGroup
import Sm9.Proofs.SpecCurve
/-!
# C04 — G1 and G2 addition, subtraction and negation implement the curve group law

`Jac.*` : generic over any field `F` (char ≠ 2, −b not a cube) the model's Jacobian
`add` / `double` / `neg` / `sub` — the code's four representation cases, the doubling and
opposite-point branches, identity operands in any (x, y, 0) form — refine the group law of
Mathlib's `WeierstrassCurve.Affine.Point`:  `toAff (P + Q) = toAff P + toAff Q` for all
valid P, Q.  Commutativity, associativity and neutrality are then inherited from Mathlib's
`AddCommGroup` instance.  `G1.*` : the same statements about the model's own `G1`
operations (its `FieldElement Fq` instance is shown equal to the field-induced one; 2 ≠ 0
and "−5 is not a cube in Fq" are discharged by kernel evaluation + Fermat).
`G2.*` : likewise for the model's own `G2` operations over the field Fq2 (C17), with
"−5u is not a cube in Fq2" by kernel evaluation of (−5u)^((q²−1)/3) and |Fq2ˣ| = q²−1.
-/
namespace Sm9.C04
open Jac

/-- generic refinement of `add` (any field, any valid operands, any representation) -/
theorem add_refines_group_law {F : Type} [Field F] [DecidableEq F] (b : F) (h2 : (2 : F) ≠ 0)
    (hno2 : ∀ x : F, x ^ 3 + b ≠ 0) (P Q : G F) (hP : Valid b P) (hQ : Valid b Q) :
    toAff b (Jac.add P Q) = toAff b P + toAff b Q ∧ Valid b (Jac.add P Q) :=
  ⟨add_correct b h2 hno2 P Q hP hQ, add_valid b h2 hno2 P Q hP hQ⟩
theorem double_refines_group_law {F : Type} [Field F] [DecidableEq F] (b : F) (h2 : (2 : F) ≠ 0)
    (P : G F) (hP : Valid b P) : toAff b (Jac.dbl P) = toAff b P + toAff b P ∧ Valid b (Jac.dbl P) :=
  ⟨double_correct b h2 P hP, double_valid b h2 P hP⟩
theorem neg_refines_group_law {F : Type} [Field F] [DecidableEq F] (b : F) (P : G F) (hP : Valid b P) :
    toAff b (Jac.neg P) = -toAff b P ∧ Valid b (Jac.neg P) := ⟨neg_correct b P hP, neg_valid b P hP⟩

/-! the model's own G1 operations -/
theorem g1_add (P Q : G1) (hP : G1.Valid P) (hQ : G1.Valid Q) :
    G1.toAff (P.add Q) = G1.toAff P + G1.toAff Q ∧ G1.Valid (P.add Q) :=
  ⟨G1.add_correct P Q hP hQ, G1.add_valid P Q hP hQ⟩
theorem g1_sub (P Q : G1) (hP : G1.Valid P) (hQ : G1.Valid Q) : G1.toAff (P.sub Q) = G1.toAff P - G1.toAff Q :=
  G1.sub_correct P Q hP hQ
theorem g1_neg (P : G1) (hP : G1.Valid P) : G1.toAff P.neg = -G1.toAff P ∧ G1.Valid P.neg :=
  ⟨G1.neg_correct P hP, G1.neg_valid P hP⟩
theorem g1_double (P : G1) (hP : G1.Valid P) : G1.toAff P.double = G1.toAff P + G1.toAff P :=
  G1.double_correct P hP
/-- commutative, associative, identity neutral — as group elements -/
theorem g1_add_comm (P Q : G1) (hP : G1.Valid P) (hQ : G1.Valid Q) : G1.toAff (P.add Q) = G1.toAff (Q.add P) := by
  rw [G1.add_correct P Q hP hQ, G1.add_correct Q P hQ hP, add_comm]
theorem g1_add_assoc (P Q R : G1) (hP : G1.Valid P) (hQ : G1.Valid Q) (hR : G1.Valid R) :
    G1.toAff ((P.add Q).add R) = G1.toAff (P.add (Q.add R)) := by
  rw [G1.add_correct _ R (G1.add_valid P Q hP hQ) hR, G1.add_correct P Q hP hQ,
    G1.add_correct P _ hP (G1.add_valid Q R hQ hR), G1.add_correct Q R hQ hR, add_assoc]
theorem g1_add_identity (P O : G1) (hP : G1.Valid P) (hO : O.z = 0) : G1.toAff (P.add O) = G1.toAff P := by
  rw [G1.add_correct P O hP (Or.inl hO), G1.toAff_zero O hO, add_zero]
theorem g1_no_two_torsion (x : Fq) : x ^ 3 + b1 ≠ 0 := Fq.no_two_torsion x
/-! the model's own G2 operations -/
theorem g2_add (P Q : G2) (hP : G2.Valid P) (hQ : G2.Valid Q) :
    G2.toAff (P.add Q) = G2.toAff P + G2.toAff Q ∧ G2.Valid (P.add Q) :=
  ⟨G2.add_correct P Q hP hQ, G2.add_valid P Q hP hQ⟩
theorem g2_sub (P Q : G2) (hP : G2.Valid P) (hQ : G2.Valid Q) : G2.toAff (P.sub Q) = G2.toAff P - G2.toAff Q :=
  G2.sub_correct P Q hP hQ
theorem g2_neg (P : G2) (hP : G2.Valid P) : G2.toAff P.neg = -G2.toAff P ∧ G2.Valid P.neg :=
  ⟨G2.neg_correct P hP, G2.neg_valid P hP⟩
theorem g2_double (P : G2) (hP : G2.Valid P) : G2.toAff P.double = G2.toAff P + G2.toAff P :=
  G2.double_correct P hP
theorem g2_add_comm (P Q : G2) (hP : G2.Valid P) (hQ : G2.Valid Q) : G2.toAff (P.add Q) = G2.toAff (Q.add P) := by
  rw [G2.add_correct P Q hP hQ, G2.add_correct Q P hQ hP, add_comm]
theorem g2_add_assoc (P Q R : G2) (hP : G2.Valid P) (hQ : G2.Valid Q) (hR : G2.Valid R) :
    G2.toAff ((P.add Q).add R) = G2.toAff (P.add (Q.add R)) := by
  rw [G2.add_correct _ R (G2.add_valid P Q hP hQ) hR, G2.add_correct P Q hP hQ,
    G2.add_correct P _ hP (G2.add_valid Q R hQ hR), G2.add_correct Q R hQ hR, add_assoc]
theorem g2_no_two_torsion (x : Fq2) : x ^ 3 + b2 ≠ 0 := Fq2.no_two_torsion x
/-- representation-level identity handling (both groups) -/
theorem g1_zero_add (a b : G1) (h : a.z = 0) : a.add b = b := G1.add_zero_left a b h
theorem g2_zero_add (a b : G2) (h : a.z = 0) : a.add b = b := G2.add_zero_left a b h
theorem g2_add_zero (a b : G2) (ha : a.z ≠ 0) (h : b.z = 0) : a.add b = a := G2.add_zero_right a b ha h
theorem g2_neg_neg (p : G2) : p.neg.neg = p := G2.neg_neg p
theorem sub_def {F} [FieldElement F] (a b : G F) : a.sub b = a.add b.neg := rfl

/-- non-vacuity: the generator is a valid point, and so are its (non-normalised) multiples -/
example : G1.Valid (G.one : G1) := G1.one_valid
example : G1.Valid ((G.one : G1).add G.one) := G1.add_valid _ _ G1.one_valid G1.one_valid
example : G2.Valid ((G.one : G2).add G.one) := G2.add_valid _ _ G2.one_valid G2.one_valid

/-! ## against the independent textbook chord-and-tangent implementation

`Sm9.Spec.ptAdd` (the oracle of the correspondence run: affine points as `Option (x, y)` over naturals, slope by
`(y₂−y₁)/(x₂−x₁)` or `3x²/2y`, written without reference to Mathlib or to the Jacobian code) computes Mathlib's group law
on the twist (Proofs/SpecCurve.lean), which the model's Jacobian `add` refines (above).  So `A + B` of the model is the
result of the textbook affine law as computed by the independent implementation — for G2, every pair of points. -/
open Sm9.SpecCurve in
theorem g2_add_is_independent_chord_tangent (P Q : G2) (hP : G2.Valid P) (hQ : G2.Valid Q) :
    Spec.ptAdd Spec.opsQ2 (encPt (G2.toAff P)) (encPt (G2.toAff Q)) = encPt (G2.toAff (P.add Q)) := by
  rw [G2.add_correct P Q hP hQ]; exact ptAdd_eq _ _

/-- the same for G1, and negation in both groups: the independent textbook implementation's `ptAdd`/`ptNeg` on the affine
    coordinates of the operands returns the affine coordinates of the model's result (Proofs/SpecGroup.lean) -/
theorem add_neg_are_independent_chord_tangent :
    (∀ (P Q : G1), G1.Valid P → G1.Valid Q →
      Spec.ptAdd Spec.opsQ (SpecGroup.encPt1 (G1.toAff P)) (SpecGroup.encPt1 (G1.toAff Q)) = SpecGroup.encPt1 (G1.toAff (P.add Q))) ∧
    (∀ (P Q : G2), G2.Valid P → G2.Valid Q →
      Spec.ptAdd Spec.opsQ2 (SpecCurve.encPt (G2.toAff P)) (SpecCurve.encPt (G2.toAff Q)) = SpecCurve.encPt (G2.toAff (P.add Q))) :=
  ⟨fun P Q hP hQ => SpecGroup.g1_add_independent P Q hP hQ, fun P Q hP hQ => SpecGroup.g2_add_independent P Q hP hQ⟩

end Sm9.C04
