import Sm9.Proofs.GroupBasic
/-!
# C04 — G1 and G2 addition, subtraction and negation implement the curve group law
First landing: identity handling in every representation, involutive negation,
subtraction as addition of the negation.  The refinement to Mathlib's
`WeierstrassCurve.Affine.Point` group law (DESIGN.md §6 C04) is the next item; until
it lands the non-identity branches are decided by the oracle comparison with the affine
chord-and-tangent law over the representation × relation grid.
-/
namespace Sm9.C04

theorem g1_zero_add (a b : G1) (h : a.z = 0) : a.add b = b := G1.add_zero_left a b h
theorem g1_add_zero (a b : G1) (ha : a.z ≠ 0) (h : b.z = 0) : a.add b = a := G1.add_zero_right a b ha h
theorem g2_zero_add (a b : G2) (h : a.z = 0) : a.add b = b := G2.add_zero_left a b h
theorem g2_add_zero (a b : G2) (ha : a.z ≠ 0) (h : b.z = 0) : a.add b = a := G2.add_zero_right a b ha h
theorem g1_neg_neg (p : G1) : p.neg.neg = p := G1.neg_neg p
theorem g2_neg_neg (p : G2) : p.neg.neg = p := G2.neg_neg p
theorem sub_def {F} [FieldElement F] (a b : G F) : a.sub b = a.add b.neg := rfl
/-- the `(true,false)` arm re-enters `add` with swapped operands and lands in the `(false,true)` arm -/
theorem add_tf_is_swapped_ft (a b : G1) (ha : a.is_zero = false) (hb : b.is_zero = false)
    (h1 : FieldElement.beq a.z 1 = true) (h2 : FieldElement.beq b.z 1 = false) :
    a.add b = b.add a := by
  unfold G.add
  simp [ha, hb, h1, h2]

end Sm9.C04
