import Sm9.Proofs.Decoders
import Sm9.Proofs.DecodersG2
/-!
# C08 — Point decoders are total, strict and build-profile independent

On the model of the six decoders (which have no panic outcome — they return
`Except CurveError _` — and no profile-dependent construct after the D3/D4 repairs):
`Ok(P)` **if and only if** the input has exactly the length and prefix of the format, every
coordinate is below q and the decoded affine point lies on the curve (G2: and r·(x,y) = O);
in that case re-encoding P in the same format gives back the input; every other input is
`Err` (which kind is characterised for the raw G1 format).  Compressed G2: acceptance is
characterised (`g2_from_compressed_sound`), re-encoding under Re y ≠ 0 (`…_partial`).
-/
namespace Sm9.C08

/-! G1 -/
theorem g1_from_slice_iff (bs : List UInt8) (P : G1) :
    Api.g1FromSlice bs = .ok P ↔
      bs.length = 64 ∧ ∃ x y : Fq, beVal (bs.take 32) = x.val ∧ beVal (bs.drop 32) = y.val ∧
        (beVal (bs.take 32) < q) ∧ (beVal (bs.drop 32) < q) ∧
        y * y = x * x * x + b1 ∧ P = { x := x, y := y, z := 1 } := Sm9.g1_from_slice_iff bs P
theorem g1_from_slice_reencode (bs : List UInt8) (P : G1) (h : Api.g1FromSlice bs = .ok P) :
    Api.g1ToSlice P = .ok bs := Sm9.g1_from_slice_reencode bs P h
theorem g1_from_slice_invalid_iff (bs : List UInt8) :
    Api.g1FromSlice bs = .error .InvalidEncoding ↔
      bs.length ≠ 64 ∨ q ≤ beVal (bs.take 32) ∨ q ≤ beVal (bs.drop 32) := Sm9.g1_from_slice_invalid_iff bs
theorem g1_from_slice_not_member_iff (bs : List UInt8) :
    Api.g1FromSlice bs = .error .NotMember ↔
      bs.length = 64 ∧ ∃ x y : Fq, beVal (bs.take 32) = x.val ∧ beVal (bs.drop 32) = y.val ∧
        y * y ≠ x * x * x + b1 := Sm9.g1_from_slice_not_member_iff bs
theorem g1_from_uncompressed_iff (bs : List UInt8) (P : G1) :
    Api.g1FromUncompressed bs = .ok P ↔ ∃ tl, bs = (4 : UInt8) :: tl ∧ Api.g1FromSlice tl = .ok P :=
  Sm9.g1_from_uncompressed_iff bs P
theorem g1_from_uncompressed_reencode (bs : List UInt8) (P : G1) (h : Api.g1FromUncompressed bs = .ok P) :
    Api.g1ToUncompressed P = .ok bs := Sm9.g1_from_uncompressed_reencode bs P h
theorem g1_from_compressed_iff (bs : List UInt8) (P : G1) :
    Api.g1FromCompressed bs = .ok P ↔
      ∃ x y : Fq, y * y = x * x * x + b1 ∧ bs = compByte y.is_even :: Api.fqToSlice x ∧
        P = { x := x, y := y, z := 1 } := Sm9.g1_from_compressed_iff bs P
theorem g1_from_compressed_reencode (bs : List UInt8) (P : G1) (h : Api.g1FromCompressed bs = .ok P) :
    Api.g1ToCompressed P = .ok bs := Sm9.g1_from_compressed_reencode bs P h
/-! G2 -/
theorem g2_from_slice_iff (bs : List UInt8) (P : G2) :
    Api.g2FromSlice bs = .ok P ↔
      bs.length = 128 ∧ ∃ x y : Fq2, Api.fq2FromSlice (bs.take 64) = some x ∧
        Api.fq2FromSlice (bs.drop 64) = some y ∧
        y * y = x * x * x + b2 ∧ r • G2.toAff { x := x, y := y, z := 1 } = 0 ∧
        P = { x := x, y := y, z := 1 } := Sm9.g2_from_slice_iff bs P
theorem g2_from_slice_reencode (bs : List UInt8) (P : G2) (h : Api.g2FromSlice bs = .ok P) :
    Api.g2ToSlice P = .ok bs := Sm9.g2_from_slice_reencode bs P h
theorem g2_from_uncompressed_iff (bs : List UInt8) (P : G2) :
    Api.g2FromUncompressed bs = .ok P ↔ ∃ tl, bs = (4 : UInt8) :: tl ∧ Api.g2FromSlice tl = .ok P :=
  Sm9.g2_from_uncompressed_iff bs P
theorem g2_from_uncompressed_reencode (bs : List UInt8) (P : G2) (h : Api.g2FromUncompressed bs = .ok P) :
    Api.g2ToUncompressed P = .ok bs := Sm9.g2_from_uncompressed_reencode bs P h
theorem g2_from_compressed_sound (bs : List UInt8) (P : G2) (h : Api.g2FromCompressed bs = .ok P) :
    ∃ (b : UInt8) (x y : Fq2), (b.toNat = 2 ∨ b.toNat = 3) ∧ bs = b :: Api.fq2ToSlice x ∧
      y * y = x * x * x + b2 ∧ r • G2.toAff { x := x, y := y, z := 1 } = 0 ∧
      P = { x := x, y := y, z := 1 } ∧
      (y.c0 ≠ 0 → b = compByte (Api.fq2IsEven y)) := Sm9.g2_from_compressed_sound bs P h
/-- re-encoding of an accepted compressed G2 input, **partial**: under Re y ≠ 0.  Missing: a proof that
    no point of the order-r subgroup of the twist has Re y = 0. -/
theorem g2_from_compressed_reencode_partial (bs : List UInt8) (P : G2)
    (h : Api.g2FromCompressed bs = .ok P) (hre : P.y.c0 ≠ 0) : Api.g2ToCompressed P = .ok bs :=
  Sm9.g2_from_compressed_reencode_partial bs P h hre
/-- **which strings `G2::from_compressed` accepts** — no side condition: exactly `b ‖ enc x` with `b ∈ {02, 03}` and
    `x` the abscissa of a point of the twist in the order-r subgroup -/
theorem g2_from_compressed_accepts_iff (bs : List UInt8) :
    (∃ P, Api.g2FromCompressed bs = .ok P) ↔
      ∃ (b : UInt8) (x y : Fq2), (b.toNat = 2 ∨ b.toNat = 3) ∧ bs = b :: Api.fq2ToSlice x ∧
        y * y = x * x * x + b2 ∧ r • G2.toAff { x := x, y := y, z := 1 } = 0 := Sm9.g2_from_compressed_accepts_iff bs
/-- completeness: for a subgroup point `(x, y)` of the twist both prefixes decode, to `(x, ±y)` -/
theorem g2_from_compressed_complete (x y : Fq2) (h : y * y = x * x * x + b2)
    (hsub : r • G2.toAff { x := x, y := y, z := 1 } = 0) (b : UInt8) (hb : b.toNat = 2 ∨ b.toNat = 3) :
    ∃ P : G2, Api.g2FromCompressed (b :: Api.fq2ToSlice x) = .ok P ∧ P.x = x ∧ (P.y = y ∨ P.y = -y) ∧ P.z = 1 :=
  Sm9.g2_from_compressed_complete x y h hsub b hb
/-- the exact characterisation of `Ok(P)` for compressed G2, **partial**: for results with Re y ≠ 0 -/
theorem g2_from_compressed_iff_partial (bs : List UInt8) (P : G2) (hre : P.y.c0 ≠ 0) :
    Api.g2FromCompressed bs = .ok P ↔
      ∃ x y : Fq2, y * y = x * x * x + b2 ∧ r • G2.toAff { x := x, y := y, z := 1 } = 0 ∧
        bs = compByte (Api.fq2IsEven y) :: Api.fq2ToSlice x ∧ P = { x := x, y := y, z := 1 } :=
  Sm9.g2_from_compressed_iff_partial bs P hre
/-- **every G2 decoder is total and funnels**: any byte string gives `Ok` of a point in normal form on the twist and in
    the order-r subgroup, or an `Err` (the result type `Except CurveError G2` has no panic outcome) — C09's decoder clause -/
theorem g2_decoders_total_and_funnel (bs : List UInt8) :
    ((∃ P, Api.g2FromSlice bs = .ok P ∧ P.z = 1 ∧ P.y * P.y = P.x * P.x * P.x + b2 ∧ r • G2.toAff P = 0) ∨
      ∃ e, Api.g2FromSlice bs = .error e) ∧
    ((∃ P, Api.g2FromUncompressed bs = .ok P ∧ P.z = 1 ∧ P.y * P.y = P.x * P.x * P.x + b2 ∧ r • G2.toAff P = 0) ∨
      ∃ e, Api.g2FromUncompressed bs = .error e) ∧
    ((∃ P, Api.g2FromCompressed bs = .ok P ∧ P.z = 1 ∧ P.y * P.y = P.x * P.x * P.x + b2 ∧ r • G2.toAff P = 0) ∨
      ∃ e, Api.g2FromCompressed bs = .error e) := Sm9.g2_decoders_total bs
/-- strict coordinates: the strict field decoder accepts exactly the 32-byte strings below q -/
theorem coordinate_strict (bs : List UInt8) (x : Fq) :
    Api.fqFromSliceStrict bs = some x ↔ bs.length = 32 ∧ beVal bs = x.val := Api.fqFromSliceStrict_iff bs x
theorem coordinate_rejected (bs : List UInt8) :
    Api.fqFromSliceStrict bs = none ↔ bs.length ≠ 32 ∨ q ≤ beVal bs := Api.fqFromSliceStrict_eq_none_iff bs
/-- `Fq2::from_slice` (after D3): an error, never a panic, on an out-of-range half -/
theorem fq2_from_slice_iff (bs : List UInt8) (x : Fq2) :
    Api.fq2FromSlice bs = some x ↔ bs.length = 64 ∧ beVal (bs.take 32) = x.c1.val ∧ beVal (bs.drop 32) = x.c0.val :=
  Api.fq2FromSlice_iff bs x

/-- non-vacuity: the encoding of the generator is accepted -/
example : ∃ P, Api.g1FromSlice (Api.fqToSlice (G.one : G1).x ++ Api.fqToSlice (G.one : G1).y) = .ok P := by
  have h : (G.one : G1).y * (G.one : G1).y = (G.one : G1).x * (G.one : G1).x * (G.one : G1).x + b1 := by
    have := P1_on_curve
    rw [Fq.squared_def, Fq.squared_def] at this
    exact this
  exact ⟨_, Sm9.g1_from_slice_encode _ _ h⟩

end Sm9.C08
