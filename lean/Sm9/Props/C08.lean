import Sm9.Proofs.GroupBasic
/-!
# C08 — Point decoders are total, strict and build-profile independent
The decoders of the model return `Except CurveError _`: they have no panic outcome at all
(the D3/D4 repairs removed the `unwrap` and the `debug_assert!`), and no construct whose
behaviour depends on the build profile.  Acceptance implies exact length, exact prefix and
canonical coordinates.
-/
namespace Sm9.C08

theorem g1_from_slice_length (bs : List UInt8) (p : G1) (h : Api.g1FromSlice bs = .ok p) : bs.length = 64 := by
  unfold Api.g1FromSlice at h
  split at h
  · cases h
  · next hl => simpa using hl
theorem g1_from_uncompressed_shape (bs : List UInt8) (p : G1) (h : Api.g1FromUncompressed bs = .ok p) :
    bs.length = 65 ∧ bs.head? = some 4 := by
  unfold Api.g1FromUncompressed at h
  split at h
  · cases h
  · next hl => simpa using hl
theorem g1_from_compressed_shape (bs : List UInt8) (p : G1) (h : Api.g1FromCompressed bs = .ok p) :
    bs.length = 33 ∧ ((bs.headD 0).toNat = 2 ∨ (bs.headD 0).toNat = 3) := by
  unfold Api.g1FromCompressed at h
  by_cases hl : bs.length ≠ 33
  · simp [hl] at h
  · by_cases hs : (bs.headD 0).toNat ≠ 2 ∧ (bs.headD 0).toNat ≠ 3
    · rw [List.headD_eq_head?_getD] at hs
      simp [hl, hs] at h
    · exact ⟨by omega, by omega⟩
theorem g2_from_slice_length (bs : List UInt8) (p : G2) (h : Api.g2FromSlice bs = .ok p) : bs.length = 128 := by
  unfold Api.g2FromSlice at h
  split at h
  · cases h
  · next hl => simpa using hl
theorem g2_from_uncompressed_shape (bs : List UInt8) (p : G2) (h : Api.g2FromUncompressed bs = .ok p) :
    bs.length = 129 ∧ bs.head? = some 4 := by
  unfold Api.g2FromUncompressed at h
  split at h
  · cases h
  · next hl => simpa using hl
theorem g2_from_compressed_shape (bs : List UInt8) (p : G2) (h : Api.g2FromCompressed bs = .ok p) :
    bs.length = 65 ∧ ((bs.headD 0).toNat = 2 ∨ (bs.headD 0).toNat = 3) := by
  unfold Api.g2FromCompressed at h
  by_cases hl : bs.length ≠ 65
  · simp [hl] at h
  · by_cases hs : (bs.headD 0).toNat ≠ 2 ∧ (bs.headD 0).toNat ≠ 3
    · rw [List.headD_eq_head?_getD] at hs
      simp [hl, hs] at h
    · exact ⟨by omega, by omega⟩
/-- strict coordinates: the strict field decoder rejects every value ≥ q -/
theorem coordinate_strict (bs : List UInt8) (x : Fq) (h : Api.fqFromSliceStrict bs = some x) :
    bs.length = 32 ∧ beVal bs < q ∧ x.val = beVal bs := by
  unfold Api.fqFromSliceStrict at h
  split at h
  · next hl =>
    unfold Fq.new at h
    split at h
    · next hlt => cases h; exact ⟨hl, hlt, rfl⟩
    · cases h
  · cases h
/-- `Fq2::from_slice` (after D3): an error, never a panic, on an out-of-range half -/
theorem fq2_from_slice_strict (bs : List UInt8) (x : Fq2) (h : Api.fq2FromSlice bs = some x) :
    bs.length = 64 ∧ beVal (bs.take 32) < q ∧ beVal (bs.drop 32) < q := by
  unfold Api.fq2FromSlice at h
  split at h
  · next hl =>
    split at h
    · next c1 c0 h1 h0 =>
      exact ⟨hl, (coordinate_strict _ _ h1).2.1, (coordinate_strict _ _ h0).2.1⟩
    · cases h
  · cases h

end Sm9.C08
