import Sm9.Proofs.Tower
import Sm9.Proofs.SpecField
import Sm9.Proofs.TowerField
import Sm9.Proofs.MontSop
import Sm9.Model.Api
/-!
# C12 — Fq2 arithmetic is arithmetic in Fq[u]/(u²+2)

The ring structure is put on the model's own `add_inplace / sub_inplace / neg_inplace /
mul_inplace` (the two interleaved sums of products), so each law below is a statement
about the multiplication algorithm as coded, for all x, y, z.  At limb level the interleaved
sum-of-products (Longa's Algorithm 2 as coded: four accumulate/reduce rounds, `add_carry` folded
u4 times, one final conditional subtraction) terminates and returns the canonical
representative of Σ aᵢ·bᵢ·R⁻¹ mod q, for up to four pairs of arbitrary reduced operands.
-/
namespace Sm9.C12

/-- multiplication is the product in Fq[u]/(u²+2): (a0+a1u)(b0+b1u) = (a0b0 − 2a1b1) + (a0b1+a1b0)u -/
theorem mul_formula (x y : Fq2) :
    x * y = { c0 := x.c0 * y.c0 - 2 * (x.c1 * y.c1), c1 := x.c0 * y.c1 + x.c1 * y.c0 } := by
  ext <;> simp <;> ring
theorem add_formula (x y : Fq2) : x + y = { c0 := x.c0 + y.c0, c1 := x.c1 + y.c1 } := rfl
theorem sub_formula (x y : Fq2) : x - y = { c0 := x.c0 - y.c0, c1 := x.c1 - y.c1 } := rfl
theorem neg_formula (x : Fq2) : -x = { c0 := -x.c0, c1 := -x.c1 } := rfl
theorem u_squared : (Fq2.i * Fq2.i : Fq2) = -2 := by
  rw [Fq2.i_sq]; ring
theorem mul_comm_law (x y : Fq2) : x * y = y * x := mul_comm x y
theorem mul_assoc_law (x y z : Fq2) : x * y * z = x * (y * z) := mul_assoc x y z
theorem left_distrib_law (x y z : Fq2) : x * (y + z) = x * y + x * z := mul_add x y z
theorem one_mul_law (x : Fq2) : 1 * x = x := one_mul x
/-- the squaring used inside point and pairing arithmetic agrees with the product -/
theorem squared_eq_mul (x : Fq2) : x.squared = x * x := Fq2.squared_eq_mul x
theorem mul_by_nonresidue_eq (x : Fq2) : x.mul_by_nonresidue = x * Fq2.i := Fq2.mul_by_nonresidue_eq x
theorem scale_eq (x : Fq2) (k : Fq) : x.scale k = x * Fq2.new k 0 := Fq2.scale_eq x k
/-- real / imaginary parts, parity and the byte layout (imaginary part first) -/
theorem parts (a b : Fq) : (Fq2.new a b).real = a ∧ (Fq2.new a b).imaginary = b := ⟨rfl, rfl⟩
theorem to_slice_layout (x : Fq2) : Api.fq2ToSlice x = beBytes 32 x.c1.val ++ beBytes 32 x.c0.val := rfl
theorem is_even_real (x : Fq2) : Api.fq2IsEven x = (x.c0.val % 2 == 0) := rfl

/-- limb level: `Fq::sum_of_products` refines Σ aᵢ bᵢ (Montgomery form), result canonical -/
theorem sum_of_products_refines (as bs : List Nat) (hlen : as.length = bs.length) (h4 : as.length ≤ 4)
    (ha : ∀ a ∈ as, a < Consts.FQ) (hb : ∀ b ∈ bs, b < Consts.FQ) :
    ∃ res, FqL.sum_of_products as bs = some res ∧ res < Consts.FQ ∧
      (res * W256) % Consts.FQ = ((List.zipWith (· * ·) as bs).sum) % Consts.FQ :=
  FqL.sum_of_products_refines as bs hlen h4 ha hb
/-- … and agrees exactly with the separate multiply-then-add path -/
theorem sum_of_products_eq_mul_add (a0 a1 b0 b1 : Nat) (h0 : a0 < Consts.FQ) (h1 : a1 < Consts.FQ)
    (h2 : b0 < Consts.FQ) (h3 : b1 < Consts.FQ) :
    FqL.sum_of_products [a0, a1] [b0, b1] =
      some (Fp.add FqL.P (Fp.mul FqL.P a0 b0) (Fp.mul FqL.P a1 b1)) :=
  FqL.sum_of_products_eq_mul_add a0 a1 b0 b1 h0 h1 h2 h3
/-- Fq2 is a field; `inverse` is `None` exactly for zero -/
theorem inverse_correct (x : Fq2) (h : x ≠ 0) : ∃ y, x.inverse = some y ∧ y * x = 1 := Fq2.inverse_correct x h
theorem inverse_zero : (0 : Fq2).inverse = none := Fq2.inverse_zero

/-- non-vacuity: a concrete product with all four coefficients non-trivial -/
example : (Fq2.new (Fq.ofNat 3) (Fq.ofNat 5)) * (Fq2.new (Fq.ofNat 7) (Fq.ofNat 11))
    = Fq2.new (Fq.ofNat (q - 89)) (Fq.ofNat 68) := by decide +kernel

/-! ## against the independent implementation of `F_q[u]/(u²+2)`

`Sm9.Spec.Q2` (the oracle of the correspondence run) implements the quadratic extension on pairs of naturals (real, imaginary)
with `u² = −2` written out; `toQ2 x = (x.c0, x.c1)`.  Its operations are the model's (Proofs/SpecField.lean). -/
open Sm9.SpecField in
theorem agrees_with_independent_quadratic_extension (x y : Fq2) :
    Spec.Q2.add (toQ2 x) (toQ2 y) = toQ2 (x + y) ∧ Spec.Q2.sub (toQ2 x) (toQ2 y) = toQ2 (x - y) ∧
    Spec.Q2.mul (toQ2 x) (toQ2 y) = toQ2 (x * y) ∧ Spec.Q2.neg (toQ2 x) = toQ2 (-x) ∧ Spec.Q2.inv (toQ2 x) = toQ2 x⁻¹ :=
  ⟨toQ2_add x y, toQ2_sub x y, toQ2_mul x y, toQ2_neg x, toQ2_inv x⟩

end Sm9.C12
