import Sm9.Proofs.Identity
import Sm9.Proofs.Pow
import Sm9.Proofs.GtOrder
import Sm9.Proofs.MillerNeg
import Sm9.Proofs.MillerFrobEquivariant
/-!
# C01 — Pairing is bilinear, non-degenerate and trivial on the identity

What is a theorem here: identity inputs (in *any* representation x, y, 0) give one in all
three entry points; `Gt::pow` is exponentiation.  **Not proved: bilinearity in general** — it is a
theorem about the Tate/ate pairing that needs divisor theory absent from Mathlib (see
DESIGN.md §6 C01); the check decides it on sampled inputs (`law.bilin`, `law.additive`, `law.additive2`),
labelled as tests in the evidence.  **Proved fragments of bilinearity** (for all valid `P ≠ O`, all `Q ≠ O` of
`⟨P2⟩`, any representatives, all three entry points): the scalars `−1` on either side
(`e(−P,Q) = e(P,−Q) = e(P,Q)⁻¹`, `e(−P,−Q) = e(P,Q)`: the Miller function of the negated argument is the
`q⁶`-conjugate up to sign, and conjugation inverts after the final exponentiation) and the scalar `q` on the
right (`e(P,[q]Q) = e(P,Q)^q`: the Miller function is equivariant under the `q`-Frobenius, which acts on `⟨P2⟩`
as multiplication by `q`), and every pairing value has order dividing `r`.  The pairing of the generators is not one (kernel
evaluation of the model) and every pairing value g satisfies g^(r−1)·g = 1 (C17's
final-exponentiation theorem).
-/
namespace Sm9.C01

theorem pairing_identity_left (p : G1) (qv : G2) (h : p.z = 0) : Api.pairing p qv = .ok Fq12.one :=
  pairing_left_identity p qv h
theorem pairing_identity_right (p : G1) (qv : G2) (h : qv.z = Fq2.zero) : Api.pairing p qv = .ok Fq12.one :=
  pairing_right_identity p qv h
theorem fast_pairing_identity_left (p : G1) (qv : G2) (h : p.z = 0) : Api.fast_pairing p qv = .ok Fq12.one :=
  fast_pairing_left_identity p qv h
theorem fast_pairing_identity_right (p : G1) (qv : G2) (h : qv.z = Fq2.zero) :
    Api.fast_pairing p qv = .ok Fq12.one := fast_pairing_right_identity p qv h
theorem prepared_pairing_identity_left (p : G1) (qv : G2) (h : p.z = 0) :
    (do let pr ← Api.prepare qv; Api.preparedPairing pr p) = .ok Fq12.one :=
  prepared_pairing_left_identity p qv h
theorem prepared_pairing_identity_right (p : G1) (qv : G2) (h : qv.z = Fq2.zero) :
    (do let pr ← Api.prepare qv; Api.preparedPairing pr p) = .ok Fq12.one :=
  prepared_pairing_right_identity p qv h
/-- e(P,Q)^(ab) on the right-hand side of bilinearity is the integer power -/
theorem gt_pow_is_power (g : Fq12) (a : Fr) : Api.gtPow g a = g ^ a.val := Fq12.pow_eq g a.val

/-- every value produced by a final exponentiation — hence every pairing value of every entry
    point — satisfies g^(r−1)·g = 1 -/
theorem pairing_value_order (f g : Fq12) (h : f.final_exp = .ok (some g)) : g ^ (r - 1) * g = 1 :=
  (Sm9.gt_order f g h).2
theorem pairing_value_order_fe (f g : Fq12) (h : f.final_exponentiation = .ok (some g)) : g ^ r = 1 :=
  Sm9.gt_order_fe f g h
/-- the pairing of the two generators is not one (both Miller loops, kernel evaluation) -/
theorem generators_nondegenerate :
    Api.pairing G.one G.one ≠ .ok Fq12.one ∧ Api.fast_pairing G.one G.one ≠ .ok Fq12.one := by
  decide +kernel

/-! ## proved fragments of bilinearity: the scalars −1 (either side) and q (right) -/
section fragments
variable (P : G1) (Q : G2) (hPz : P.z ≠ 0) (hPv : G1.Valid P) (hQz : Q.z ≠ 0) (hQv : G2.Valid Q)
  (k : Nat) (hk : G2.toAff Q = k • G2.toAff (G.one : G2))
include hPz hPv hQz hQv hk

/-- `e(−P, Q) · e(P, Q) = 1` — bilinearity with `a = r−1` on the left, `fast_pairing` -/
theorem fast_pairing_neg_left :
    ∃ g g', Api.fast_pairing P Q = .ok g ∧ Api.fast_pairing P.neg Q = .ok g' ∧ g' * g = 1 :=
  Miller.fast_pairing_neg_left P Q hPz hPv hQz hQv k hk
/-- `e(P, −Q) · e(P, Q) = 1` — bilinearity with `b = r−1` on the right, `fast_pairing` -/
theorem fast_pairing_neg_right :
    ∃ g g', Api.fast_pairing P Q = .ok g ∧ Api.fast_pairing P Q.neg = .ok g' ∧ g' * g = 1 :=
  Miller.fast_pairing_neg_right P Q hPz hPv hQz hQv k hk
theorem fast_pairing_neg_neg : Api.fast_pairing P.neg Q.neg = Api.fast_pairing P Q :=
  Miller.fast_pairing_neg_neg P Q hPz hPv hQz hQv k hk
/-- the same for `pairing()` (the signed-digit numerator/denominator loop) -/
theorem pairing_neg_left : ∃ g g', Api.pairing P Q = .ok g ∧ Api.pairing P.neg Q = .ok g' ∧ g' * g = 1 :=
  Miller.pairing_neg_left P Q hPz hPv hQz hQv k hk
theorem pairing_neg_right : ∃ g g', Api.pairing P Q = .ok g ∧ Api.pairing P Q.neg = .ok g' ∧ g' * g = 1 :=
  Miller.pairing_neg_right P Q hPz hPv hQz hQv k hk
theorem pairing_neg_neg : Api.pairing P.neg Q.neg = Api.pairing P Q :=
  Miller.pairing_neg_neg P Q hPz hPv hQz hQv k hk
/-- the same for the prepared API -/
theorem prepared_pairing_neg_left :
    ∃ g g', (do let pr ← Api.prepare Q; Api.preparedPairing pr P) = .ok g ∧
      (do let pr ← Api.prepare Q; Api.preparedPairing pr P.neg) = .ok g' ∧ g' * g = 1 :=
  Miller.prepared_pairing_neg_left P Q hPz hPv hQz hQv k hk
theorem prepared_pairing_neg_right :
    ∃ g g', (do let pr ← Api.prepare Q; Api.preparedPairing pr P) = .ok g ∧
      (do let pr ← Api.prepare Q.neg; Api.preparedPairing pr P) = .ok g' ∧ g' * g = 1 :=
  Miller.prepared_pairing_neg_right P Q hPz hPv hQz hQv k hk

/-- `e(P, [q]Q) = e(P, Q)^q` — bilinearity with the scalar `b = q mod r` on the right (`Q.mul qFr` is the model's
    own scalar multiplication), all three entry points; `g^q = g^(q mod r)` because `g^r = 1` -/
theorem fast_pairing_mul_q :
    ∃ g, Api.fast_pairing P Q = .ok g ∧ g ^ r = 1 ∧ Api.fast_pairing P (Q.mul Miller.qFr) = .ok (g ^ Miller.qFr.val) :=
  Miller.api_fast_pairing_mul_qFr P Q hPz hPv hQz hQv k hk
theorem pairing_mul_q :
    ∃ g, Api.pairing P Q = .ok g ∧ g ^ r = 1 ∧ Api.pairing P (Q.mul Miller.qFr) = .ok (g ^ Miller.qFr.val) :=
  Miller.api_pairing_mul_qFr P Q hPz hPv hQz hQv k hk
theorem prepared_pairing_mul_q :
    ∃ g, (do let pr ← Api.prepare Q; Api.preparedPairing pr P) = .ok g ∧ g ^ r = 1 ∧
      (do let pr ← Api.prepare (Q.mul Miller.qFr); Api.preparedPairing pr P) = .ok (g ^ Miller.qFr.val) :=
  Miller.api_prepared_pairing_mul_qFr P Q hPz hPv hQz hQv k hk
/-- the twist Frobenius the code itself computes (`q_power_frobenius`) raises every entry point to the `q`-th power -/
theorem pairings_q_power_frobenius :
    ∃ Q', G2m.q_power_frobenius Q (Fq2.new pi1 0) = some Q' ∧
      (∃ g, Api.fast_pairing P Q = .ok g ∧ Api.fast_pairing P Q' = .ok (g ^ q)) ∧
      (∃ g, (do let pr ← Api.prepare Q; Api.preparedPairing pr P) = .ok g ∧
        (do let pr ← Api.prepare Q'; Api.preparedPairing pr P) = .ok (g ^ q)) ∧
      (∃ g, Api.pairing P Q = .ok g ∧ Api.pairing P Q' = .ok (g ^ q)) :=
  Miller.api_pairings_q_power_frobenius P Q hPz hPv hQz hQv k hk
/-- every value of `fast_pairing` / `pairing` on this domain has order dividing `r` -/
theorem fast_pairing_order (g : Fq12) (hg : Api.fast_pairing P Q = .ok g) : g ^ r = 1 :=
  Miller.api_fast_pairing_order P Q hPz hPv hQz hQv k hk g hg
theorem pairing_order (g : Fq12) (hg : Api.pairing P Q = .ok g) : g ^ r = 1 :=
  Miller.api_pairing_order P Q hPz hPv hQz hQv k hk g hg
end fragments

/-- non-vacuity: a non-canonical identity, as left behind by P − P -/
example : ({ x := Fq.ofNat 4, y := Fq.ofNat (q - 8), z := 0 } : G1).z = 0 := rfl

end Sm9.C01
