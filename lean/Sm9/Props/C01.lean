import Sm9.Proofs.Identity
import Sm9.Proofs.Pow
import Sm9.Proofs.GtOrder
import Sm9.Proofs.MillerNeg
import Sm9.Proofs.MillerFrobEquivariant
import Sm9.Proofs.Bilinear
import Sm9.Proofs.Prime
import Mathlib.GroupTheory.OrderOfElement
/-!
# C01 — Pairing is bilinear, non-degenerate and trivial on the identity

**Every clause is a theorem** (for all valid `P`, `P'` of `E(Fq)` and all `Q`, `Q'` of `⟨P2⟩`, in any Jacobian
representation, identities and zero scalars included, all three entry points):

* `bilinear` / `fast_bilinear` / `prepared_bilinear`: `e(aP, bQ) = e(P,Q)^(ab)` (as integer power and as `Gt::pow` of the
  product in `Fr`);
* `additive_left…`, `additive_right…`: `e(P+P', Q) = e(P,Q)·e(P',Q)`, `e(P, Q+Q') = e(P,Q)·e(P,Q')`;
* identity inputs in *any* representation `(x, y, 0)` give one; the pairing of the generators is not one (kernel evaluation);
  every pairing value `g` satisfies `g^(r−1)·g = 1`.

How bilinearity is proved without a theory of divisors (Proofs/BilinLeftLines.lean, BilinLeft.lean, BilinRightAlg.lean,
BilinRight.lean, Bilinear.lean; each entry point is first proved equal to the textbook Miller function `specMiller`, C02):
*additivity in P* — reciprocity of two lines (`∏ G(Aᵢ) = −∏ L(Bⱼ)` over the three points of each line, an identity that says
the lines meet in one point) turns `L(P₁)L(P₂)/L(P₁+P₂)` for each line `L` of the chain into values `h = G∘ψ` of the line `G`
through `P₁, P₂` at the chain points; they telescope along the chain to `h(Q)^(6t+2)·h(πQ)·h(π²Q)⁻¹·h(π³Q) =
h(Q)^(6t+2+q−q²+q³) = h(Q)^(m·r)` (Frobenius: `h∘π = h^q` because `G` has coefficients in `Fq`), which the final
exponentiation kills; *additivity in Q* — in Mathlib's coordinate ring of the twist the three Miller functions generate ideals
that differ by the lines `l_{sQ₁,sQ₂}`, `s ∈ {1, π, −π², −π³}` and verticals, so `F_{Q₁}F_{Q₂} = c·F_{Q₁+Q₂}·l^(6t+2)·l_π·l_{−π²}/l_{−π³}`
up to verticals, and evaluated at `P` the correction is `l(P)^(6t+2+q−q²+q³)`, killed again; *scalars* by induction from
additivity and representative independence.  The older fragments (scalars `−1`, `q`; order) are kept below.
-/
namespace Sm9.C01

theorem pairing_identity_left (p : G1) (qv : G2) (h : p.z = 0) : Api.pairing p qv = .ok Fq12.one :=
  pairing_left_identity p qv h
theorem pairing_identity_right (p : G1) (qv : G2) (h : qv.z = Fq2.zero) : Api.pairing p qv = .ok Fq12.one :=
  pairing_right_identity p qv h
theorem fast_pairing_identity_left (p : G1) (qv : G2) (h : p.z = 0) : Api.fast_pairing p qv = .ok Fq12.one :=
  fast_pairing_left_identity p qv h
theorem fast_pairing_identity_right (p : G1) (qv : G2) (h : qv.z = Fq2.zero) :
    Api.fast_pairing p qv = .ok Fq12.one := fast_pairing_right_identity p qv h
theorem prepared_pairing_identity_left (p : G1) (qv : G2) (h : p.z = 0) :
    (do let pr ← Api.prepare qv; Api.preparedPairing pr p) = .ok Fq12.one :=
  prepared_pairing_left_identity p qv h
theorem prepared_pairing_identity_right (p : G1) (qv : G2) (h : qv.z = Fq2.zero) :
    (do let pr ← Api.prepare qv; Api.preparedPairing pr p) = .ok Fq12.one :=
  prepared_pairing_right_identity p qv h
/-- e(P,Q)^(ab) on the right-hand side of bilinearity is the integer power -/
theorem gt_pow_is_power (g : Fq12) (a : Fr) : Api.gtPow g a = g ^ a.val := Fq12.pow_eq g a.val

/-- every value produced by a final exponentiation — hence every pairing value of every entry
    point — satisfies g^(r−1)·g = 1 -/
theorem pairing_value_order (f g : Fq12) (h : f.final_exp = .ok (some g)) : g ^ (r - 1) * g = 1 :=
  (Sm9.gt_order f g h).2
theorem pairing_value_order_fe (f g : Fq12) (h : f.final_exponentiation = .ok (some g)) : g ^ r = 1 :=
  Sm9.gt_order_fe f g h
/-- the pairing of the two generators is not one (both Miller loops, kernel evaluation) -/
theorem generators_nondegenerate :
    Api.pairing G.one G.one ≠ .ok Fq12.one ∧ Api.fast_pairing G.one G.one ≠ .ok Fq12.one := by
  decide +kernel

/-! ## proved fragments of bilinearity: the scalars −1 (either side) and q (right) -/
section fragments
variable (P : G1) (Q : G2) (hPz : P.z ≠ 0) (hPv : G1.Valid P) (hQz : Q.z ≠ 0) (hQv : G2.Valid Q)
  (k : Nat) (hk : G2.toAff Q = k • G2.toAff (G.one : G2))
include hPz hPv hQz hQv hk

/-- `e(−P, Q) · e(P, Q) = 1` — bilinearity with `a = r−1` on the left, `fast_pairing` -/
theorem fast_pairing_neg_left :
    ∃ g g', Api.fast_pairing P Q = .ok g ∧ Api.fast_pairing P.neg Q = .ok g' ∧ g' * g = 1 :=
  Miller.fast_pairing_neg_left P Q hPz hPv hQz hQv k hk
/-- `e(P, −Q) · e(P, Q) = 1` — bilinearity with `b = r−1` on the right, `fast_pairing` -/
theorem fast_pairing_neg_right :
    ∃ g g', Api.fast_pairing P Q = .ok g ∧ Api.fast_pairing P Q.neg = .ok g' ∧ g' * g = 1 :=
  Miller.fast_pairing_neg_right P Q hPz hPv hQz hQv k hk
theorem fast_pairing_neg_neg : Api.fast_pairing P.neg Q.neg = Api.fast_pairing P Q :=
  Miller.fast_pairing_neg_neg P Q hPz hPv hQz hQv k hk
/-- the same for `pairing()` (the signed-digit numerator/denominator loop) -/
theorem pairing_neg_left : ∃ g g', Api.pairing P Q = .ok g ∧ Api.pairing P.neg Q = .ok g' ∧ g' * g = 1 :=
  Miller.pairing_neg_left P Q hPz hPv hQz hQv k hk
theorem pairing_neg_right : ∃ g g', Api.pairing P Q = .ok g ∧ Api.pairing P Q.neg = .ok g' ∧ g' * g = 1 :=
  Miller.pairing_neg_right P Q hPz hPv hQz hQv k hk
theorem pairing_neg_neg : Api.pairing P.neg Q.neg = Api.pairing P Q :=
  Miller.pairing_neg_neg P Q hPz hPv hQz hQv k hk
/-- the same for the prepared API -/
theorem prepared_pairing_neg_left :
    ∃ g g', (do let pr ← Api.prepare Q; Api.preparedPairing pr P) = .ok g ∧
      (do let pr ← Api.prepare Q; Api.preparedPairing pr P.neg) = .ok g' ∧ g' * g = 1 :=
  Miller.prepared_pairing_neg_left P Q hPz hPv hQz hQv k hk
theorem prepared_pairing_neg_right :
    ∃ g g', (do let pr ← Api.prepare Q; Api.preparedPairing pr P) = .ok g ∧
      (do let pr ← Api.prepare Q.neg; Api.preparedPairing pr P) = .ok g' ∧ g' * g = 1 :=
  Miller.prepared_pairing_neg_right P Q hPz hPv hQz hQv k hk

/-- `e(P, [q]Q) = e(P, Q)^q` — bilinearity with the scalar `b = q mod r` on the right (`Q.mul qFr` is the model's
    own scalar multiplication), all three entry points; `g^q = g^(q mod r)` because `g^r = 1` -/
theorem fast_pairing_mul_q :
    ∃ g, Api.fast_pairing P Q = .ok g ∧ g ^ r = 1 ∧ Api.fast_pairing P (Q.mul Miller.qFr) = .ok (g ^ Miller.qFr.val) :=
  Miller.api_fast_pairing_mul_qFr P Q hPz hPv hQz hQv k hk
theorem pairing_mul_q :
    ∃ g, Api.pairing P Q = .ok g ∧ g ^ r = 1 ∧ Api.pairing P (Q.mul Miller.qFr) = .ok (g ^ Miller.qFr.val) :=
  Miller.api_pairing_mul_qFr P Q hPz hPv hQz hQv k hk
theorem prepared_pairing_mul_q :
    ∃ g, (do let pr ← Api.prepare Q; Api.preparedPairing pr P) = .ok g ∧ g ^ r = 1 ∧
      (do let pr ← Api.prepare (Q.mul Miller.qFr); Api.preparedPairing pr P) = .ok (g ^ Miller.qFr.val) :=
  Miller.api_prepared_pairing_mul_qFr P Q hPz hPv hQz hQv k hk
/-- the twist Frobenius the code itself computes (`q_power_frobenius`) raises every entry point to the `q`-th power -/
theorem pairings_q_power_frobenius :
    ∃ Q', G2m.q_power_frobenius Q (Fq2.new pi1 0) = some Q' ∧
      (∃ g, Api.fast_pairing P Q = .ok g ∧ Api.fast_pairing P Q' = .ok (g ^ q)) ∧
      (∃ g, (do let pr ← Api.prepare Q; Api.preparedPairing pr P) = .ok g ∧
        (do let pr ← Api.prepare Q'; Api.preparedPairing pr P) = .ok (g ^ q)) ∧
      (∃ g, Api.pairing P Q = .ok g ∧ Api.pairing P Q' = .ok (g ^ q)) :=
  Miller.api_pairings_q_power_frobenius P Q hPz hPv hQz hQv k hk
/-- every value of `fast_pairing` / `pairing` on this domain has order dividing `r` -/
theorem fast_pairing_order (g : Fq12) (hg : Api.fast_pairing P Q = .ok g) : g ^ r = 1 :=
  Miller.api_fast_pairing_order P Q hPz hPv hQz hQv k hk g hg
theorem pairing_order (g : Fq12) (hg : Api.pairing P Q = .ok g) : g ^ r = 1 :=
  Miller.api_pairing_order P Q hPz hPv hQz hQv k hk g hg
end fragments

/-- non-vacuity: a non-canonical identity, as left behind by P − P -/
example : ({ x := Fq.ofNat 4, y := Fq.ofNat (q - 8), z := 0 } : G1).z = 0 := rfl

/-! ## bilinearity (full) -/
section bilinear
variable (P : G1) (Q : G2) (hP : G1.Valid P) (hQ : G2.Valid Q) (k : Nat) (hk : G2.toAff Q = k • G2.toAff (G.one : G2))
include hP hQ hk

/-- **`e(aP, bQ) = e(P, Q)^(ab)`** for `pairing()`: as an integer power and as `Gt::pow` with the product in `Fr` -/
theorem bilinear (a b : Fr) :
    ∃ g, Api.pairing P Q = .ok g ∧ Api.pairing (P.mul a) (Q.mul b) = .ok (g ^ (a.val * b.val)) ∧
      Api.pairing (P.mul a) (Q.mul b) = .ok (Api.gtPow g (a * b)) :=
  Miller.api_pairing_bilinear P Q hP hQ k hk a b
/-- the same for `fast_pairing()` -/
theorem fast_bilinear (a b : Fr) :
    ∃ g, Api.fast_pairing P Q = .ok g ∧ Api.fast_pairing (P.mul a) (Q.mul b) = .ok (g ^ (a.val * b.val)) ∧
      Api.fast_pairing (P.mul a) (Q.mul b) = .ok (Api.gtPow g (a * b)) :=
  Miller.api_fast_pairing_bilinear P Q hP hQ k hk a b
/-- the same for `G2Prepared::from(Q).pairing(&P)` -/
theorem prepared_bilinear (a b : Fr) :
    ∃ g, (do let pr ← Api.prepare Q; Api.preparedPairing pr P) = .ok g ∧
      (do let pr ← Api.prepare (Q.mul b); Api.preparedPairing pr (P.mul a)) = .ok (g ^ (a.val * b.val)) ∧
      (do let pr ← Api.prepare (Q.mul b); Api.preparedPairing pr (P.mul a)) = .ok (Api.gtPow g (a * b)) :=
  Miller.api_prepared_pairing_bilinear P Q hP hQ k hk a b
/-- **`e(P + P', Q) = e(P, Q)·e(P', Q)`**, all three entry points -/
theorem additive_left (P' : G1) (hP' : G1.Valid P') :
    (∃ g g', Api.pairing P Q = .ok g ∧ Api.pairing P' Q = .ok g' ∧ Api.pairing (P.add P') Q = .ok (g * g')) ∧
    (∃ g g', Api.fast_pairing P Q = .ok g ∧ Api.fast_pairing P' Q = .ok g' ∧
      Api.fast_pairing (P.add P') Q = .ok (g * g')) ∧
    (∃ g g', (do let pr ← Api.prepare Q; Api.preparedPairing pr P) = .ok g ∧
      (do let pr ← Api.prepare Q; Api.preparedPairing pr P') = .ok g' ∧
      (do let pr ← Api.prepare Q; Api.preparedPairing pr (P.add P')) = .ok (g * g')) :=
  ⟨Miller.api_pairing_add_left P P' Q hP hP' hQ k hk, Miller.api_fast_pairing_add_left P P' Q hP hP' hQ k hk,
   Miller.api_prepared_pairing_add_left P P' Q hP hP' hQ k hk⟩
/-- **`e(P, Q + Q') = e(P, Q)·e(P, Q')`**, all three entry points -/
theorem additive_right (Q' : G2) (hQ' : G2.Valid Q') (k' : Nat) (hk' : G2.toAff Q' = k' • G2.toAff (G.one : G2)) :
    (∃ g g', Api.pairing P Q = .ok g ∧ Api.pairing P Q' = .ok g' ∧ Api.pairing P (Q.add Q') = .ok (g * g')) ∧
    (∃ g g', Api.fast_pairing P Q = .ok g ∧ Api.fast_pairing P Q' = .ok g' ∧
      Api.fast_pairing P (Q.add Q') = .ok (g * g')) ∧
    (∃ g g', (do let pr ← Api.prepare Q; Api.preparedPairing pr P) = .ok g ∧
      (do let pr ← Api.prepare Q'; Api.preparedPairing pr P) = .ok g' ∧
      (do let pr ← Api.prepare (Q.add Q'); Api.preparedPairing pr P) = .ok (g * g')) :=
  ⟨Miller.api_pairing_add_right P Q Q' hP hQ hQ' k k' hk hk', Miller.api_fast_pairing_add_right P Q hP hQ k hk Q' hQ' k' hk',
   Miller.api_prepared_pairing_add_right P Q hP hQ k hk Q' hQ' k' hk'⟩
/-- no entry point panics on valid inputs, and every value (identities included) has order dividing `r` -/
theorem pairing_total_and_order : ∃ g, Api.pairing P Q = .ok g ∧ g ^ r = 1 := by
  obtain ⟨g, hg⟩ := Miller.api_pairing_total P Q hP hQ k hk
  exact ⟨g, hg, Miller.api_pairing_pow_r P Q hP hQ k hk g hg⟩
end bilinear

/-- non-vacuity of the bilinearity hypotheses: the generators (`k = 1`), scalars `2` and `r − 1` -/
example : ∃ g, Api.pairing (G.one : G1) (G.one : G2) = .ok g ∧
    Api.pairing ((G.one : G1).mul 2) ((G.one : G2).mul (-1)) = .ok (g ^ ((2 : Fr).val * (-1 : Fr).val)) := by
  obtain ⟨g, h1, h2, _⟩ := bilinear _ _ G1.one_valid G2.one_valid 1 (one_nsmul _).symm 2 (-1)
  exact ⟨g, h1, h2⟩

/-! ## non-degeneracy on all of `⟨P1⟩ × ⟨P2⟩`

With `g₀ = e(P1, P2) ≠ 1` (kernel evaluation), `g₀^r = 1` and `r` prime, bilinearity gives: `e([a]P1, [b]P2) = g₀^(ab)` is one
exactly when `a = 0` or `b = 0` in `Z_r`. -/
theorem nondegenerate (P : G1) (Q : G2) (hP : G1.Valid P) (hQ : G2.Valid Q) (a b : Fr)
    (ha : G1.toAff P = a.val • G1.toAff (G.one : G1)) (hb : G2.toAff Q = b.val • G2.toAff (G.one : G2)) :
    Api.pairing P Q = .ok Fq12.one ↔ (a = 0 ∨ b = 0) := by
  have h1 : G2.toAff (G.one : G2) = 1 • G2.toAff (G.one : G2) := (one_nsmul _).symm
  obtain ⟨g0, hg0, hgb⟩ := Miller.api_pairing_nsmul_right (G.one : G1) (G.one : G2) G1.one_valid G2.one_valid 1 h1
    b.val Q hQ hb
  obtain ⟨g1, hg1, hga⟩ := Miller.api_pairing_nsmul_left (G.one : G1) Q G1.one_valid hQ b.val hb a.val P hP ha
  have e : g1 = g0 ^ b.val := by
    have := hg1.symm.trans hgb; injection this
  subst e
  rw [← pow_mul] at hga
  have hr : g0 ^ r = 1 := Miller.api_pairing_pow_r (G.one : G1) (G.one : G2) G1.one_valid G2.one_valid 1 h1 g0 hg0
  have hne : g0 ≠ 1 := by
    intro h
    apply generators_nondegenerate.1
    rw [hg0, h]; rfl
  have hord : orderOf g0 = r := by
    have hd := orderOf_dvd_of_pow_eq_one hr
    rcases (Nat.dvd_prime r_prime).1 hd with h | h
    · exact absurd (orderOf_eq_one_iff.1 h) hne
    · exact h
  rw [hga]
  constructor
  · intro h
    have h' : g0 ^ (b.val * a.val) = 1 := by
      have := Outcome.ok.inj h; exact this
    have hd : r ∣ b.val * a.val := by rw [← hord]; exact orderOf_dvd_of_pow_eq_one h'
    rcases (Nat.Prime.dvd_mul r_prime).1 hd with h | h
    · right; exact Fin.ext (Nat.eq_zero_of_dvd_of_lt h b.isLt)
    · left; exact Fin.ext (Nat.eq_zero_of_dvd_of_lt h a.isLt)
  · rintro (h | h)
    · subst h; show Outcome.ok (g0 ^ (b.val * (0 : Fr).val)) = _
      rw [show ((0 : Fr).val) = 0 from rfl, Nat.mul_zero, pow_zero]; rfl
    · subst h; show Outcome.ok (g0 ^ ((0 : Fr).val * a.val)) = _
      rw [show ((0 : Fr).val) = 0 from rfl, Nat.zero_mul, pow_zero]; rfl

end Sm9.C01
