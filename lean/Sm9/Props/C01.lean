import Sm9.Proofs.Identity
import Sm9.Proofs.Pow
import Sm9.Proofs.GtOrder
/-!
# C01 — Pairing is bilinear, non-degenerate and trivial on the identity

What is a theorem here: identity inputs (in *any* representation x, y, 0) give one in all
three entry points; `Gt::pow` is exponentiation.  **Not proved: bilinearity** — it is a
theorem about the Tate/ate pairing that needs divisor theory absent from Mathlib (see
DESIGN.md §6 C01); the check decides it on sampled inputs (`law.bilin`, `law.additive`),
labelled as tests in the evidence.  The pairing of the generators is not one (kernel
evaluation of the model) and every pairing value g satisfies g^(r−1)·g = 1 (C17's
final-exponentiation theorem).
-/
namespace Sm9.C01

theorem pairing_identity_left (p : G1) (qv : G2) (h : p.z = 0) : Api.pairing p qv = .ok Fq12.one :=
  pairing_left_identity p qv h
theorem pairing_identity_right (p : G1) (qv : G2) (h : qv.z = Fq2.zero) : Api.pairing p qv = .ok Fq12.one :=
  pairing_right_identity p qv h
theorem fast_pairing_identity_left (p : G1) (qv : G2) (h : p.z = 0) : Api.fast_pairing p qv = .ok Fq12.one :=
  fast_pairing_left_identity p qv h
theorem fast_pairing_identity_right (p : G1) (qv : G2) (h : qv.z = Fq2.zero) :
    Api.fast_pairing p qv = .ok Fq12.one := fast_pairing_right_identity p qv h
theorem prepared_pairing_identity_left (p : G1) (qv : G2) (h : p.z = 0) :
    (do let pr ← Api.prepare qv; Api.preparedPairing pr p) = .ok Fq12.one :=
  prepared_pairing_left_identity p qv h
theorem prepared_pairing_identity_right (p : G1) (qv : G2) (h : qv.z = Fq2.zero) :
    (do let pr ← Api.prepare qv; Api.preparedPairing pr p) = .ok Fq12.one :=
  prepared_pairing_right_identity p qv h
/-- e(P,Q)^(ab) on the right-hand side of bilinearity is the integer power -/
theorem gt_pow_is_power (g : Fq12) (a : Fr) : Api.gtPow g a = g ^ a.val := Fq12.pow_eq g a.val

/-- every value produced by a final exponentiation — hence every pairing value of every entry
    point — satisfies g^(r−1)·g = 1 -/
theorem pairing_value_order (f g : Fq12) (h : f.final_exp = .ok (some g)) : g ^ (r - 1) * g = 1 :=
  (Sm9.gt_order f g h).2
theorem pairing_value_order_fe (f g : Fq12) (h : f.final_exponentiation = .ok (some g)) : g ^ r = 1 :=
  Sm9.gt_order_fe f g h
/-- the pairing of the two generators is not one (both Miller loops, kernel evaluation) -/
theorem generators_nondegenerate :
    Api.pairing G.one G.one ≠ .ok Fq12.one ∧ Api.fast_pairing G.one G.one ≠ .ok Fq12.one := by
  decide +kernel

/-- non-vacuity: a non-canonical identity, as left behind by P − P -/
example : ({ x := Fq.ofNat 4, y := Fq.ofNat (q - 8), z := 0 } : G1).z = 0 := rfl

end Sm9.C01
