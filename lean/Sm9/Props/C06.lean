import Sm9.Proofs.MontBasic
import Sm9.Proofs.Consts
import Sm9.Proofs.Pow
/-!
# C06 — Fq and Fr arithmetic is exact integer arithmetic modulo q and r

Limb level (`Sm9.U256.*`, the model of u256.rs tied to the code by fingerprint +
correspondence) refines arithmetic mod p for *every* modulus in the SM9 range and all
operands below it; the two parameter sets satisfy the side conditions by kernel
evaluation of the constants extracted from the source.
-/
set_option maxRecDepth 100000
set_option exponentiation.threshold 1024
namespace Sm9.C06

/-- side conditions of all refinement theorems hold for the extracted moduli -/
theorem moduli_in_range : (paramsQ.modulus < W256 ∧ W256 < 2 * paramsQ.modulus) ∧
    (paramsR.modulus < W256 ∧ W256 < 2 * paramsR.modulus) := by decide +kernel
/-- Montgomery constants: −p⁻¹ mod 2⁶⁴, R mod p, R² mod p -/
theorem montgomery_constants :
    (Consts.FQ * Consts.FQ_INV) % 2^64 = 2^64 - 1 ∧ (Consts.FR * Consts.FR_INV) % 2^64 = 2^64 - 1 ∧
    Consts.FQ_ONE = 2^256 % Consts.FQ ∧ Consts.FR_ONE = 2^256 % Consts.FR ∧
    Consts.FQ_SQUARED = 2^512 % Consts.FQ ∧ Consts.FR_SQUARED = 2^512 % Consts.FR :=
  ⟨fq_inv_ok, fr_inv_ok, fq_one_ok, fr_one_ok, fq_squared_ok, fr_squared_ok⟩
theorem add_refines (a b m : Nat) (hm : m < W256) (hm2 : W256 < 2 * m) (ha : a < m) (hb : b < m) :
    U256.add a b m < m ∧ U256.add a b m = (a + b) % m := U256.add_refines a b m hm hm2 ha hb
theorem sub_refines (a b m : Nat) (hm : m < W256) (ha : a < m) (hb : b < m) :
    U256.sub a b m < m ∧ (U256.sub a b m + b) % m = a := U256.sub_refines a b m hm ha hb
theorem neg_refines (a m : Nat) (hm : m < W256) (ha : a < m) :
    U256.neg a m < m ∧ (U256.neg a m + a) % m = 0 := U256.neg_refines a m hm ha
theorem double_refines (a m : Nat) (hm : m < W256) (hm2 : W256 < 2 * m) (ha : a < m) :
    U256.mul2 a m < m ∧ U256.mul2 a m = (2 * a) % m := U256.mul2_refines a m hm hm2 ha
/-- square-and-multiply exponentiation is exponentiation, for every exponent -/
theorem fq_pow_eq (x : Fq) (e : Nat) : x.pow e = x ^ e := Fq.pow_eq x e
theorem fr_pow_eq (x : Fr) (e : Nat) : x.pow e = x ^ e := Fr.pow_eq x e
/-- value level: inverse is `None` exactly for zero, and is the inverse otherwise -/
theorem fq_inverse_none_iff (x : Fq) : x.inverse = none ↔ x = 0 := by
  unfold Fq.inverse
  rw [← Fq.is_zero_iff]
  cases x.is_zero <;> simp
theorem fq_inverse_mul (x y : Fq) (h : x.inverse = some y) : y * x = 1 := by
  unfold Fq.inverse at h
  split at h
  · cases h
  · next hz =>
    rw [Option.some.injEq] at h
    subst h
    rw [Fq.pow_eq]
    apply Fq.pow_sub_two_mul
    intro h0; exact hz ((Fq.is_zero_iff x).2 h0)

/-- non-vacuity: the boundary a + b = q with both operands canonical -/
example : U256.add (q - 1) 1 q = 0 ∧ U256.sub 0 1 q = q - 1 ∧ U256.mul2 (q - 1) q = q - 2 := by
  decide +kernel

end Sm9.C06
