import Sm9.Proofs.MontBasic
import Sm9.Proofs.MontMul
import Sm9.Proofs.MontInvert
import Sm9.Proofs.Consts
import Sm9.Proofs.Pow
/-!
# C06 — Fq and Fr arithmetic is exact integer arithmetic modulo q and r

Limb level (`Sm9.U256.*`, `Sm9.Fp.*`: the model of u256.rs / fp.rs, tied to the code by
source fingerprints + raw-limb correspondence) refines arithmetic mod p for **every**
modulus in the SM9 range and **all** operands below it: add, sub, negate, double,
Montgomery multiplication (operand-scanning product + four REDC rows + final carry), the
dedicated squaring schedule (= mul, unconditionally), entering / leaving Montgomery form.
The two parameter sets satisfy the side conditions by kernel evaluation of the constants
extracted from the source; halving (with its top-bit path) and the binary extended Euclid
`invert` — termination within the fuel **and** x·a ≡ R² — for every prime modulus in range.
-/
set_option maxRecDepth 100000
set_option exponentiation.threshold 1024
namespace Sm9.C06

/-- side conditions of all refinement theorems hold for the extracted parameter sets:
    2²⁵⁵ < p < 2²⁵⁶, p odd, inv = −p⁻¹ mod 2⁶⁴, R² mod p, R mod p -/
theorem params_ok : paramsQ.Ok ∧ paramsR.Ok := ⟨paramsQ_ok, paramsR_ok⟩
theorem add_refines (a b m : Nat) (hm : m < W256) (hm2 : W256 < 2 * m) (ha : a < m) (hb : b < m) :
    U256.add a b m < m ∧ U256.add a b m = (a + b) % m := U256.add_refines a b m hm hm2 ha hb
theorem sub_refines (a b m : Nat) (hm : m < W256) (ha : a < m) (hb : b < m) :
    U256.sub a b m < m ∧ (U256.sub a b m + b) % m = a := U256.sub_refines a b m hm ha hb
theorem neg_refines (a m : Nat) (hm : m < W256) (ha : a < m) :
    U256.neg a m < m ∧ (U256.neg a m + a) % m = 0 := U256.neg_refines a m hm ha
theorem double_refines (a m : Nat) (hm : m < W256) (hm2 : W256 < 2 * m) (ha : a < m) :
    U256.mul2 a m < m ∧ U256.mul2 a m = (2 * a) % m := U256.mul2_refines a m hm hm2 ha
/-- Montgomery multiplication: the canonical representative of a·b·R⁻¹ mod m -/
theorem mul_refines (a b m inv : Nat) (hm : m < W256) (hm2 : W256 < 2 * m)
    (hinv : (m * inv) % 2 ^ 64 = 2 ^ 64 - 1) (ha : a < m) (hb : b < m) :
    U256.mul a b m inv < m ∧ (U256.mul a b m inv * W256) % m = (a * b) % m :=
  U256.mul_refines a b m inv hm hm2 hinv ha hb
/-- the dedicated squaring (off-diagonal / doubling / diagonal schedule) equals `mul a a`
    for all inputs -/
theorem square_eq_mul (a m inv : Nat) : U256.square a m inv = U256.mul a a m inv :=
  U256.square_eq_mul a m inv
/-- the operand-scanning product is the integer product (any base, any length) -/
theorem schoolbook_product (B : Nat) (d e : List Nat) :
    Limb.value B (Limb.mulLimbs B d e) = Limb.value B d * Limb.value B e := Limb.mulLimbs_spec B d e
/-- entering Montgomery form is ·R, leaving it is ·R⁻¹; the two are inverse on [0, p) -/
theorem new_mul_factor_eq {P : MontParams} (hP : P.Ok) (x : Nat) (hx : x < P.modulus) :
    Fp.new_mul_factor P x = (x * W256) % P.modulus := Fp.new_mul_factor_eq hP x hx
theorem into_u256_refines {P : MontParams} (hP : P.Ok) (x : Nat) (hx : x < P.modulus) :
    Fp.into_u256 P x < P.modulus ∧ (Fp.into_u256 P x * W256) % P.modulus = x := Fp.into_u256_refines hP x hx
theorem into_new {P : MontParams} (hP : P.Ok) (x : Nat) (hx : x < P.modulus) :
    Fp.into_u256 P (Fp.new_mul_factor P x) = x := Fp.into_u256_new_mul_factor hP x hx
/-- multiplication observed through the canonical value is multiplication mod p -/
theorem into_mul {P : MontParams} (hP : P.Ok) (a b : Nat) (ha : a < P.modulus) (hb : b < P.modulus) :
    Fp.into_u256 P (Fp.mul P a b) = Fp.into_u256 P a * Fp.into_u256 P b % P.modulus :=
  Fp.into_u256_mul hP a b ha hb
/-- halving modulo m (the `set_bit(255)` carry path included) -/
theorem div2_refines (b m : Nat) (hm : m < W256) (hm2 : W256 < 2 * m) (hodd : m % 2 = 1) (hb : b < m) :
    U256.div2 b m < m ∧ (2 * U256.div2 b m) % m = b := U256.div2_refines b m hm hm2 hodd hb
/-- binary extended Euclid seeded with R²: terminates and returns R²·a⁻¹ -/
theorem invert_refines (a m r2 : Nat) (hp : Nat.Prime m) (hm : m < W256) (hm2 : W256 < 2 * m) (ha0 : 0 < a)
    (ha : a < m) (hr : r2 < m) : ∃ x, U256.invert a m r2 = some x ∧ x < m ∧ (x * a) % m = r2 % m :=
  U256.invert_refines a m r2 hp hm hm2 ha0 ha hr
/-- `inverse`: `None` exactly for zero; otherwise terminates with y such that y·x = one (Montgomery form) -/
theorem inverse_refines_q (x : Nat) (hx : x < Consts.FQ) :
    (x = 0 → Fp.inverse paramsQ x = some none) ∧
    (x ≠ 0 → ∃ y, Fp.inverse paramsQ x = some (some y) ∧ y < Consts.FQ ∧ Fp.mul paramsQ y x = Consts.FQ_ONE) :=
  Fp.inverse_refines_q x hx
theorem inverse_refines_r (x : Nat) (hx : x < Consts.FR) :
    (x = 0 → Fp.inverse paramsR x = some none) ∧
    (x ≠ 0 → ∃ y, Fp.inverse paramsR x = some (some y) ∧ y < Consts.FR ∧ Fp.mul paramsR y x = Consts.FR_ONE) :=
  Fp.inverse_refines_r x hx
/-- square-and-multiply exponentiation is exponentiation, for every exponent -/
theorem fq_pow_eq (x : Fq) (e : Nat) : x.pow e = x ^ e := Fq.pow_eq x e
theorem fr_pow_eq (x : Fr) (e : Nat) : x.pow e = x ^ e := Fr.pow_eq x e
/-- value level: inverse is `None` exactly for zero, and is the inverse otherwise -/
theorem fq_inverse_none_iff (x : Fq) : x.inverse = none ↔ x = 0 := by
  unfold Fq.inverse
  rw [← Fq.is_zero_iff]
  cases x.is_zero <;> simp
theorem fq_inverse_mul (x y : Fq) (h : x.inverse = some y) : y * x = 1 := by
  unfold Fq.inverse at h
  split at h
  · cases h
  · next hz =>
    rw [Option.some.injEq] at h
    subst h
    rw [Fq.pow_eq]
    apply Fq.pow_sub_two_mul
    intro h0; exact hz ((Fq.is_zero_iff x).2 h0)

/-- non-vacuity: the boundary a + b = q with both operands canonical, and a product -/
example : U256.add (q - 1) 1 q = 0 ∧ U256.sub 0 1 q = q - 1 ∧ U256.mul2 (q - 1) q = q - 2 ∧
    Fp.mul paramsQ paramsQ.one paramsQ.one = paramsQ.one := by
  decide +kernel

end Sm9.C06
