import Sm9.Proofs.Program
import Sm9.Proofs.Program2
import Sm9.Proofs.RepIndep
import Sm9.Proofs.Bilinear
/-!
# C16 — Any history of group operations behaves like arithmetic in Z_r

## The mixed machine (what the differential driver runs)

`Sm9/Model/Prog.lean` defines the register machine `mstep`/`mrun` over a mixed register file
(`Reg := p1 G1 | p2 G2`) with the instructions `one1 one2 zero1 zero2 add sub neg mul normalize
affine encdec` (`encdec i fmt`: encode register i in the raw / 0x04-prefixed / compressed format
and decode it again; the identity is passed through).  `Sm9/Driver/Prog.lean` only parses the
text of a `prog.group` line into `MInstr` and calls `mrun`; its observations are `Reg.eqObs`,
`Reg.isZero`, the affine coordinates and the three pairings of `lastOf`.  The abstract machine
`astep2`/`arun2` tracks (group tag, discrete logarithm in Z_r) and fails only on a bad index
or on operands of different groups.

Proved for **every** program `prog : List MInstr` (any length, any order, both groups):

* `mrun_fails_iff` (no hypothesis): `mrun prog = none ↔ arun2 prog = none` — the machines fail on
  exactly the same programs; in particular no encoder panics and no decoder rejects along a run.
* `mrun_valid` (no hypothesis): if the abstract machine runs, so does the concrete one, and every
  register is a valid point of the order-r subgroup of the group given by the abstract tag.
* `mrun_refines`: moreover register k denotes `d_k • P1` resp. `d_k • P2`, `d_k` the abstract
  register (`RegRel`), **under the hypothesis `G2CompressedSafe prog`**: whenever the *compressed*
  encode/decode round trip is applied to a *G2* register with abstract log `d`, the point `d • P2`
  has `Re y ≠ 0` (`ReYNonzero d`; holds for `d = 0`, for `d = 1`, and is decided for any concrete
  `d` by one kernel evaluation, `reYNonzero_of_compute`).  The decidable condition
  `NoG2Compressed prog` (no compressed round trip of a non-identity G2 value) implies it
  (`mrun_refines_noG2Compressed`).  G1 in all three formats, G2 raw and uncompressed, and every
  other instruction need no hypothesis.
  **What remains**: a proof that no point of the order-r subgroup of the twist has `Re y = 0`.
  For such a point both roots ±y carry the same sign bit and `G2::from_compressed` returns
  whichever root `Fq2::sqrt` produces, so the round trip yields P or −P (C10
  `g2_compressed_roundtrip_up_to_sign`; here `encDec2_compressed_up_to_sign`); the register is
  still a valid subgroup point (`mrun_valid`) but its log may be `−d`.
* observations are functions of (tag, log): `observe_reg_eq` (`==` ⇔ equal logs; registers of
  different groups are not comparable, `observe_reg_eq_mixed`), `observe_reg_is_zero`
  (`is_zero` ⇔ log = 0: P1, P2 have order exactly r), `observe_affine1/2` (equal affine
  coordinates and equal encodings in all three formats), `observe_pairings` (the three pairing
  entry points), `lastOf_rel` (the operands the driver pairs are those of the abstract machine);
  `regRel_fresh`: `[d]P1`, `[d]P2` computed from scratch are related to (tag, d), so every
  register is observationally identical to the freshly computed value of the same group element.

## The one-group machine (kept)

`run_refines`: for every program over `one zero add sub neg mul normalize affine` on a register
file of G1 values, register k of `grun` denotes `d_k • P1` with `d_k` register k of `arun`.
-/
namespace Sm9.C16

theorem run_refines (prog : List GInstr) : List.Forall₂ Rel (grun prog : List G1) (arun prog) :=
  Sm9.run_refines prog
/-- a register equals another exactly when the discrete logs agree -/
theorem observe_eq {P Q : G1} {a b : Fr} (hP : Rel P a) (hQ : Rel Q b) : P.eq Q = true ↔ a = b :=
  Sm9.observe_eq hP hQ
theorem observe_is_zero {P : G1} {a : Fr} (hP : Rel P a) : P.is_zero = true ↔ a = 0 := Sm9.observe_is_zero hP
/-- a value and a freshly computed value of the same group element are indistinguishable by the
    pairing entry points -/
theorem observe_pairing (p p' : G1) (qv : G2) (a : Fr) (hp : Rel p a) (hp' : Rel p' a) (hq : G2.Valid qv) :
    Api.pairing p qv = Api.pairing p' qv ∧ Api.fast_pairing p qv = Api.fast_pairing p' qv := by
  have h : G1.toAff p = G1.toAff p' := by rw [hp.2, hp'.2]
  have e1 := G1.to_affine_congr p p' hp.1 hp'.1 h
  exact ⟨pairing_congr p p' qv qv e1 rfl, fast_pairing_congr p p' qv qv e1 rfl⟩
theorem generator_order : addOrderOf gen1 = r := gen1_addOrderOf
theorem step_sub {F} [FieldElement F] (a b : G F) : a.sub b = a.add b.neg := rfl

/-- non-vacuity: P − P followed by a scalar multiplication and an addition -/
example : List.Forall₂ Rel (grun [.one, .sub 0 0, .mul 1 (Fr.ofNat 7), .add 2 0] : List G1)
    (arun [.one, .sub 0 0, .mul 1 (Fr.ofNat 7), .add 2 0]) := Sm9.run_refines _

/-! ## the mixed machine -/

theorem mrun_fails_iff (prog : List MInstr) : mrun prog = none ↔ arun2 prog = none :=
  Sm9.mrun_fails_iff prog

theorem mrun_valid (prog : List MInstr) (ds : List (Bool × Fr)) (h : arun2 prog = some ds) :
    ∃ regs ds', mrun prog = some regs ∧ List.Forall₂ RegRel regs ds' ∧ ds'.map Prod.fst = ds.map Prod.fst :=
  Sm9.mrun_valid prog ds h

/-- main theorem; the hypothesis `G2CompressedSafe prog` is discussed in the header -/
theorem mrun_refines (prog : List MInstr) (hsafe : G2CompressedSafe prog) (ds : List (Bool × Fr))
    (h : arun2 prog = some ds) : ∃ regs, mrun prog = some regs ∧ List.Forall₂ RegRel regs ds :=
  Sm9.mrun_refines prog hsafe ds h

theorem mrun_refines_noG2Compressed (prog : List MInstr) (h : NoG2Compressed prog) (ds : List (Bool × Fr))
    (ha : arun2 prog = some ds) : ∃ regs, mrun prog = some regs ∧ List.Forall₂ RegRel regs ds :=
  Sm9.mrun_refines_noG2Compressed prog h ds ha

/-- what the relation says -/
theorem regRel_p1 (P : G1) (d : Fr) : RegRel (.p1 P) (true, d) ↔ (G1.Valid P ∧ G1.toAff P = d.val • gen1) := Iff.rfl
theorem regRel_p2 (Q : G2) (d : Fr) : RegRel (.p2 Q) (false, d) ↔ (G2.Valid Q ∧ G2.toAff Q = d.val • gen2) := Iff.rfl
theorem generator2_order : addOrderOf gen2 = r := gen2_addOrderOf

/-- the encode/decode step itself -/
theorem encdec_g1 (fmt : Fmt) (P : G1) (hP : G1.Valid P) : encDec1 fmt P = some (Api.normalize P) :=
  encDec1_eq fmt P hP
theorem encdec_g2 (fmt : Fmt) (P : G2) (hP : G2.Valid P) (hsub : r • G2.toAff P = 0)
    (hre : fmt = .compressed → P.z ≠ 0 → (P.y / P.z ^ 3).c0 ≠ 0) : encDec2 fmt P = some (Api.normalize P) :=
  encDec2_eq fmt P hP hsub hre
theorem encdec_g2_compressed_up_to_sign (P : G2) (hP : G2.Valid P) (hsub : r • G2.toAff P = 0) :
    encDec2 .compressed P = some (Api.normalize P) ∨ encDec2 .compressed P = some (Api.normalize P).neg :=
  encDec2_compressed_up_to_sign P hP hsub

/-- observations -/
theorem observe_reg_eq {A B : Reg} {t : Bool} {a b : Fr} (hA : RegRel A (t, a)) (hB : RegRel B (t, b)) :
    ∃ v, A.eqObs B = some v ∧ (v = true ↔ a = b) := Sm9.observe_reg_eq hA hB
theorem observe_reg_eq_mixed {A B : Reg} {t u : Bool} {a b : Fr} (hA : RegRel A (t, a)) (hB : RegRel B (u, b))
    (htu : t ≠ u) : A.eqObs B = none := Sm9.observe_reg_eq_mixed hA hB htu
theorem observe_reg_is_zero {A : Reg} {t : Bool} {a : Fr} (hA : RegRel A (t, a)) :
    A.isZero = true ↔ a = 0 := Sm9.observe_reg_is_zero hA
theorem observe_affine1 {P P' : G1} {d : Fr} (h : Rel1 P d) (h' : Rel1 P' d) :
    P.to_affine = P'.to_affine ∧ Api.g1ToSlice P = Api.g1ToSlice P' ∧
    Api.g1ToUncompressed P = Api.g1ToUncompressed P' ∧ Api.g1ToCompressed P = Api.g1ToCompressed P' :=
  Sm9.observe_affine1 h h'
theorem observe_affine2 {Q Q' : G2} {d : Fr} (h : Rel2 Q d) (h' : Rel2 Q' d) :
    Q.to_affine = Q'.to_affine ∧ Api.g2ToSlice Q = Api.g2ToSlice Q' ∧
    Api.g2ToUncompressed Q = Api.g2ToUncompressed Q' ∧ Api.g2ToCompressed Q = Api.g2ToCompressed Q' :=
  Sm9.observe_affine2 h h'
theorem observe_pairings {p p' : G1} {qv qv' : G2} {a b : Fr} (hp : Rel1 p a) (hp' : Rel1 p' a)
    (hq : Rel2 qv b) (hq' : Rel2 qv' b) :
    Api.pairing p qv = Api.pairing p' qv' ∧ Api.fast_pairing p qv = Api.fast_pairing p' qv' ∧
    (do let pr ← Api.prepare qv; Api.preparedPairing pr p) = (do let pr ← Api.prepare qv'; Api.preparedPairing pr p') :=
  Sm9.observe_pairings hp hp' hq hq'
/-- **the pairing of two registers is the one predicted from their discrete logarithms**: with `g₀ = e(P1, P2)`, a G1
    register with log `a` and a G2 register with log `b` pair to `g₀^(a·b)` — in all three entry points (bilinearity, C01) -/
theorem observe_pairing_from_logs {p : G1} {qv : G2} {a b : Fr} (hp : Rel1 p a) (hq : Rel2 qv b) :
    ∃ g0, Api.pairing (G.one : G1) (G.one : G2) = .ok g0 ∧
      Api.pairing p qv = .ok (g0 ^ (b.val * a.val)) ∧ Api.fast_pairing p qv = .ok (g0 ^ (b.val * a.val)) ∧
      (do let pr ← Api.prepare qv; Api.preparedPairing pr p) = .ok (g0 ^ (b.val * a.val)) := by
  have h1 : G2.toAff (G.one : G2) = 1 • G2.toAff (G.one : G2) := (one_nsmul _).symm
  obtain ⟨g0, hg0, hb⟩ := Miller.api_pairing_nsmul_right (G.one : G1) (G.one : G2) G1.one_valid G2.one_valid 1 h1
    b.val qv hq.1 hq.2
  obtain ⟨g1, hg1, ha⟩ := Miller.api_pairing_nsmul_left (G.one : G1) qv G1.one_valid hq.1 b.val hq.2 a.val p hp.1 hp.2
  have e : g1 = g0 ^ b.val := by
    have := hg1.symm.trans hb; injection this
  subst e
  rw [← pow_mul] at ha
  refine ⟨g0, hg0, ha, ?_, ?_⟩
  · rw [← Miller.api_pairing_eq_fast_pairing p qv hp.1 hq.1 b.val hq.2]; exact ha
  · rw [Miller.api_prepared_eq_fast, ← Miller.api_pairing_eq_fast_pairing p qv hp.1 hq.1 b.val hq.2]; exact ha
theorem fresh_related (e : Bool × Fr) : RegRel (fresh e) e := regRel_fresh e
theorem last_operands {regs : List Reg} {ds : List (Bool × Fr)} (h : List.Forall₂ RegRel regs ds) :
    OptRel1 (lastOf regs).1 (alastOf ds).1 ∧ OptRel2 (lastOf regs).2 (alastOf ds).2 := lastOf_rel h

/-- non-vacuity: both groups, a failing-free run with all three formats, the compressed round trip
    of P2 (side condition `ReYNonzero 1` proved) and of the G2 identity -/
example : ∃ regs, mrun [.one1, .one2, .zero2, .encdec 1 .compressed, .encdec 2 .compressed,
      .encdec 0 .compressed, .add 1 3, .encdec 6 .slice, .encdec 6 .uncompressed, .sub 0 5] = some regs ∧
    List.Forall₂ RegRel regs [(true, 1), (false, 1), (false, 0), (false, 1), (false, 0), (true, 1),
      (false, 2), (false, 2), (false, 2), (true, 0)] := by
  refine Sm9.mrun_refines _ ?_ _ (by decide +kernel)
  refine ⟨trivial, fun _ h => ?_⟩
  obtain rfl := Option.some.inj h
  refine ⟨trivial, fun _ h => ?_⟩
  obtain rfl := Option.some.inj h
  refine ⟨trivial, fun _ h => ?_⟩
  obtain rfl := Option.some.inj h
  refine ⟨fun d hd => ?_, fun _ h => ?_⟩
  · rw [show d = 1 from (Prod.mk.inj (Option.some.inj hd)).2.symm]; exact reYNonzero_one
  obtain rfl := Option.some.inj h
  refine ⟨fun d hd => ?_, fun _ h => ?_⟩
  · rw [show d = 0 from (Prod.mk.inj (Option.some.inj hd)).2.symm]; exact reYNonzero_zero
  obtain rfl := Option.some.inj h
  refine ⟨fun d hd => (nomatch hd), fun _ h => ?_⟩
  obtain rfl := Option.some.inj h
  refine ⟨trivial, fun _ h => ?_⟩
  obtain rfl := Option.some.inj h
  refine ⟨trivial, fun _ h => ?_⟩
  obtain rfl := Option.some.inj h
  refine ⟨trivial, fun _ h => ?_⟩
  obtain rfl := Option.some.inj h
  exact ⟨trivial, fun _ _ => trivial⟩

/-- the machines fail together: operands of different groups -/
example : mrun [.one1, .one2, .add 0 1] = none := (Sm9.mrun_fails_iff _).2 (by decide +kernel)

end Sm9.C16
