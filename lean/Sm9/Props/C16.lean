import Sm9.Proofs.GroupBasic
import Sm9.Proofs.Pow
/-!
# C16 — Any history of group operations behaves like arithmetic in Z_r
First landing: the observation functions and the representation-changing operations are
history-independent where a theorem is already available — identity handling in any
(x, y, 0) form, reflexivity of `==`, normalisation of the identity, subtraction as
addition of the negation.  The refinement `run_refines` (every register equals its
discrete log times the generator, by induction over the program) needs C04/C05's group-law
refinement and is the next item; until then programs are decided by the correspondence
check: exhaustive depth 2 over {0, 1, 2, r−1}, random beyond.
-/
namespace Sm9.C16

theorem step_sub {F} [FieldElement F] (a b : G F) : a.sub b = a.add b.neg := rfl
theorem step_add_identity_any_form (o b : G1) (h : o.z = 0) : o.add b = b := G1.add_zero_left o b h
theorem step_add_identity_any_form_g2 (o b : G2) (h : o.z = 0) : o.add b = b := G2.add_zero_left o b h
theorem observe_eq_refl (p : G1) : p.eq p = true := G1.eq_refl p
theorem observe_identity (p o : G1) (ho : o.z = 0) : p.eq o = true ↔ p.z = 0 := G1.eq_zero_iff p o ho
theorem step_normalize_identity (p : G1) (h : p.z = 0) : Api.normalize p = p :=
  normalize_of_none p (G1.to_affine_none_of_z p h)
theorem step_mul_zero {F} [FieldElement F] (p : G F) : p.mul 0 = G.zero := by
  unfold G.mul G.mulBits
  have : bitsMSB (0 : Fr).val = [] := by decide +kernel
  rw [this]; rfl
/-- the generators have order dividing r: the scalar alphabet {0, 1, 2, r−1} stays in ⟨P⟩ -/
theorem generators_killed_by_r :
    (((G.one : G1).mul (-(1 : Fr))).add G.one).z = 0 ∧ (((G.one : G2).mul (-(1 : Fr))).add G.one).z = 0 := by
  decide +kernel

end Sm9.C16
