import Sm9.Proofs.Program
import Sm9.Proofs.RepIndep
/-!
# C16 — Any history of group operations behaves like arithmetic in Z_r

`run_refines`: for **every** program (any length, any order of `one zero add sub neg mul
normalize affine` over a register file of G1 values), register k of the concrete machine
is a valid point denoting `d_k • P1`, where `d_k` is register k of the abstract machine
that tracks only discrete logarithms in Z_r.  Equality tests and identity tests of results
are exactly those of the discrete logs (P1 has order exactly r).  Encodings and pairings
are functions of the denoted point (C10, C03).  The same induction applies to G2 registers
with `G2.*` (C04/C05); the encode/decode step needs C08's decoder theorem and is decided
by the correspondence check (exhaustive depth 2 over {0, 1, 2, r−1}, random beyond).
-/
namespace Sm9.C16

theorem run_refines (prog : List GInstr) : List.Forall₂ Rel (grun prog : List G1) (arun prog) :=
  Sm9.run_refines prog
/-- a register equals another exactly when the discrete logs agree -/
theorem observe_eq {P Q : G1} {a b : Fr} (hP : Rel P a) (hQ : Rel Q b) : P.eq Q = true ↔ a = b :=
  Sm9.observe_eq hP hQ
theorem observe_is_zero {P : G1} {a : Fr} (hP : Rel P a) : P.is_zero = true ↔ a = 0 := Sm9.observe_is_zero hP
/-- a value and a freshly computed value of the same group element are indistinguishable by the
    pairing entry points -/
theorem observe_pairing (p p' : G1) (qv : G2) (a : Fr) (hp : Rel p a) (hp' : Rel p' a) (hq : G2.Valid qv) :
    Api.pairing p qv = Api.pairing p' qv ∧ Api.fast_pairing p qv = Api.fast_pairing p' qv := by
  have h : G1.toAff p = G1.toAff p' := by rw [hp.2, hp'.2]
  have e1 := G1.to_affine_congr p p' hp.1 hp'.1 h
  exact ⟨pairing_congr p p' qv qv e1 rfl, fast_pairing_congr p p' qv qv e1 rfl⟩
theorem generator_order : addOrderOf gen1 = r := gen1_addOrderOf
theorem step_sub {F} [FieldElement F] (a b : G F) : a.sub b = a.add b.neg := rfl

/-- non-vacuity: P − P followed by a scalar multiplication and an addition -/
example : List.Forall₂ Rel (grun [.one, .sub 0 0, .mul 1 (Fr.ofNat 7), .add 2 0] : List G1)
    (arun [.one, .sub 0 0, .mul 1 (Fr.ofNat 7), .add 2 0]) := Sm9.run_refines _

end Sm9.C16
