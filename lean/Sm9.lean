import Sm9.Model.Prim
import Sm9.Model.Tower
import Sm9.Model.Groups
import Sm9.Model.Pairings
import Sm9.Model.Limbs
import Sm9.Model.Mont
import Sm9.Model.Api
import Sm9.Spec.Spec
