import Sm9.Driver.Ops
/-! Line-protocol driver: one operation per input line, one `model<TAB>spec` line out. -/
open Sm9.Driver

partial def loop (h : IO.FS.Stream) (out : IO.FS.Stream) : IO Unit := do
  let line ← h.getLine
  if line.isEmpty then return ()
  let l := line.trimAscii.toString
  if l.isEmpty || l.startsWith "#" then
    out.putStrLn "#"
  else
    let (m, s) := runLine l
    out.putStrLn (m ++ "\t" ++ s)
  loop h out

def main : IO Unit := do
  let stdin ← IO.getStdin
  let stdout ← IO.getStdout
  loop stdin stdout
