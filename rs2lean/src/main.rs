//! rs2lean — translate the straight-line functions of sm9_core's tower / group / pairing layers
//! into Lean 4 definitions over the model's types (`Sm9.Gen.*`), plus one equivalence theorem per
//! function against the hand-written model (`Sm9/Gen/Equiv.lean`).  Run by `./check` on every run.
//!
//! usage: rs2lean <repo/src> <out dir (lean/Sm9/Gen)>
//!
//! Supported subset (anything else: the function is skipped and reported, never mistranslated):
//! `let`, `let mut`, shadowing, assignment, `op=`, field assignment, tuple destructuring, early
//! `return` under `if`, `if/else`, `match` on tuples of bools and on integer literals, method / associated
//! calls, operators, struct literals, `?` and `.map(|t| ..)` on `Option`, `.unwrap()` / `.expect()`
//! (as `Outcome` binds), `&mut self` methods (return the new value too), `for` loops over a constant table
//! or a bit iterator (as `List.foldl` over the tuple of assigned variables).
//! Closures: `.map(|t| e)`, `.and_then(|w| { .. })` (as `Option.bind` of a lambda whose body is translated as a function
//! returning `Option`, with its own `?`), `let m = opt.map(|t| { y = t; });` (a closure that only assigns captured
//! variables: a `match` on `opt` rebinding the assigned variables next to `m : Option Unit`).  Any other closure that
//! assigns / mutably borrows a captured variable is refused.  `?` nested in an expression of a `let` (`let z = if c { a? }
//! else { b * d? };`) or in a statement `if` (`if c { y = e?; }`): `Option.bind (<Option-valued expression>) (fun z => rest)`.
//! `return match ..`, struct-variant errors (`Error::InvalidLength { .. }`), `.ok()`, `.ok_or(E)`, `Ok(N(e?))` on the same
//! error type, `*self.0.x_mut() = v` (record update).
//! Trait plumbing: a target `Type@Trait<Args>` selects one trait impl (also for `&Type`); a method the impl inherits is taken from
//! the trait's default body; `Self::Output` is resolved from the impl.  Source constants: `Fq::from_slice(&CONST).unwrap()` and
//! `Fq::from_str("5").expect(..)` are `Fq.ofNat` of the constant (side condition `CONST < q` emitted as a theorem by gen_equiv.py).
//! `fn random<R: Rng>(rng: &mut R)`: the generator is a script of `u64` draws threaded through the function; each
//! `X::random(rng)` is hoisted in front of its statement in evaluation order (`let (rng, r0) := Sm9.X.randomS rng`).
//! The operator macros of fields/utils.rs are translated by `ops.rs`.
use std::collections::{BTreeMap, BTreeSet};
use std::fmt::Write as _;
use syn::*;

mod inline;
mod rename;
mod desugar;
mod limb;
mod ops;

type R<T> = std::result::Result<T, String>;

const LEAN_KEYWORDS: &[&str] = &["by", "at", "from", "end", "fun", "do", "then", "else", "in", "have", "show", "with", "open", "def", "where", "variable", "instance", "class", "structure", "theorem", "match", "if", "let", "mut", "for", "return", "deriving", "namespace", "section", "local", "prefix", "infix", "notation", "macro", "syntax", "universe", "import", "export", "private", "protected", "abbrev", "example", "axiom", "opaque", "set_option", "using", "calc", "Type", "Prop", "Sort"];

fn ident(s: &str) -> String {
    if LEAN_KEYWORDS.contains(&s) { format!("{}_", s) } else { s.to_string() }
}

#[derive(Clone)]
struct Ctx {
    self_ty: String,          // Lean name of Self
    mono: Option<String>,     // for generic G<P>: the base field ("Fq" / "Fq2")
    ret_option: bool,         // function returns Option (for `?`)
    outcome: bool,            // function contains unwrap/expect: body is a `do` block in Outcome
    mut_self: bool,
    fresh: std::cell::Cell<usize>,
    binds: std::cell::RefCell<Vec<(String, String)>>, // pending Outcome binds (name, expr)
    uninit: std::cell::RefCell<BTreeSet<String>>,     // `let x;` declared without initialiser
    ret_result: bool,         // function returns Result<_, Error>
    err_ty: String,           // Lean name of the module's `Error` enum
    group_vars: std::cell::RefCell<BTreeSet<String>>, // variables known to hold a `G<P>` (for `==`, `*` on group elements)
    ns: String,               // Lean namespace of the function being translated
    lib: bool,                // lib.rs: newtype wrappers (`Fq(..)`, `.0`) are the identity, byte slices are `List UInt8`
    elem: String,             // lib.rs `impl G1` / `impl G2`: the coordinate field ("Fq" / "Fq2")
    unit_ret: bool,           // `&mut self` method without a return value: returns the new `self`
    try_scope: std::cell::Cell<bool>,                  // inside an expression whose nested `?` are hoisted (see `opt_expr`)
    tries: std::cell::RefCell<Vec<(String, String)>>,  // pending hoisted `?` (name, Option-valued expr)
    some_tail: bool,          // the block being translated is an `Option`-valued expression: its tail value `v` is `some v`
    ind: std::cell::Cell<usize>,                       // indentation of the statement being translated
    assoc_err: String,        // trait impls: the Lean name of `Self::Error`
    ret_err: String,          // the error type named in the function's `Result<_, E>` return type (source spelling)
    tail_call: std::cell::Cell<bool>,                  // the expression being translated is the value of the enclosing function / closure
    top_last: std::cell::Cell<*const Stmt>,            // the last statement of the body of the function / closure being translated
    fn_tail: std::cell::Cell<bool>,                    // the `match` being translated is in tail position of the function (an arm `return X` has the value X)
    assoc_out: String,        // trait impls: the Lean type of `Self::Output`
    rng: String,              // `fn random<R: Rng>(rng: &mut R)`: the name of the generator parameter (a script of `u64` draws, threaded)
    rng_ty: String,           // .. and of its type parameter
}

fn ty_name(t: &Type, cx: &Ctx) -> R<String> {
    match t {
        Type::Reference(r) => ty_name(&r.elem, cx),
        Type::Paren(p) => ty_name(&p.elem, cx),
        Type::Path(p) => {
            let segs: Vec<String> = p.path.segments.iter().map(|s| s.ident.to_string()).collect();
            let last = p.path.segments.last().ok_or("empty path")?;
            let name = last.ident.to_string();
            match name.as_str() {
                "Self" => Ok(cx.self_ty.clone()),
                "Fq" | "Fq2" | "Fq4" | "Fq12" | "Fr" | "G1" | "G2" | "G2Prepared" => Ok(name),
                "Gt" => Ok("Fq12".into()),
                "AffineG1" if cx.lib => Ok("AffineG Fq".into()),
                "AffineG2" if cx.lib => Ok("AffineG Fq2".into()),
                "bool" => Ok("Bool".into()),
                "str" => Ok("String".into()),
                "FieldError" if cx.lib => Ok("FieldError".into()),
                "U256" | "U512" => Err(format!("type {} (limb level: `U512::new` / `From<Fq> for U256` are covered by Gen/LimbEquiv.lean; this value-level wrapper is not translated)", name)),
                "Output" if segs.len() == 2 && segs[0] == "Self" && !cx.assoc_out.is_empty() => Ok(cx.assoc_out.clone()),
                n if !cx.rng_ty.is_empty() && segs.len() == 1 && n == cx.rng_ty => Ok("List Nat".into()),
                "usize" | "u128" | "u64" | "u32" | "u8" => Ok("Nat".into()),
                "Base" => cx.mono.clone().ok_or_else(|| "P::Base outside a monomorphised impl".to_string()),
                "G" => Ok(format!("G {}", cx.mono.clone().ok_or("generic G without instantiation")?)),
                "AffineG" => Ok(format!("AffineG {}", cx.mono.clone().ok_or("generic AffineG without instantiation")?)),
                "Result" => {
                    if let PathArguments::AngleBracketed(a) = &last.arguments {
                        if let Some(GenericArgument::Type(t)) = a.args.first() {
                            let et = match a.args.iter().nth(1) { Some(GenericArgument::Type(Type::Path(ep))) => { let n = path_str(&ep.path); if n == "Error" { cx.err_ty.clone() } else if n == "Self::Error" { if cx.assoc_err.is_empty() { return Err("Self::Error without `type Error = ..` in the impl".into()); } cx.assoc_err.clone() } else { n } } _ => cx.err_ty.clone() };
                            return Ok(format!("Except {} ({})", et, ty_name(t, cx)?));
                        }
                    }
                    Err("Result without argument".into())
                }
                "Vec" => {
                    if let PathArguments::AngleBracketed(a) = &last.arguments {
                        if let Some(GenericArgument::Type(t)) = a.args.first() {
                            return Ok(format!("List ({})", ty_name(t, cx)?));
                        }
                    }
                    Err("Vec without argument".into())
                }
                "Option" => {
                    if let PathArguments::AngleBracketed(a) = &last.arguments {
                        if let Some(GenericArgument::Type(t)) = a.args.first() {
                            return Ok(format!("Option ({})", ty_name(t, cx)?));
                        }
                    }
                    Err("Option without argument".into())
                }
                _ => Err(format!("type {}", segs.join("::"))),
            }
        }
        Type::Slice(sl) if quote::quote!(#sl).to_string().replace(' ', "") == "[u8]" => Ok("List UInt8".into()),
        Type::Array(a) if { let e = &a.elem; quote::quote!(#e).to_string() == "u8" } => Ok("List UInt8".into()),
        Type::Tuple(t) => {
            let v: R<Vec<String>> = t.elems.iter().map(|e| ty_name(e, cx)).collect();
            Ok(format!("({})", v?.join(" × ")))
        }
        _ => Err("unsupported type".into()),
    }
}

fn lit_int(e: &Expr) -> Option<String> {
    if let Expr::Lit(l) = e { if let Lit::Int(i) = &l.lit { return Some(i.base10_digits().to_string()); } }
    None
}

fn path_str(p: &Path) -> String {
    p.segments.iter().map(|s| s.ident.to_string()).collect::<Vec<_>>().join("::")
}

/// methods whose model counterpart is `Outcome`-valued (they contain a panic site or call one that does)
const OUTCOME_METHODS: &[&str] = &["final_exponentiation_last_chunk", "final_exp_last_chunk", "final_exponentiation", "final_exp"];

/// is this expression known to be a group element `G<P>`?  (drives `==`/`!=` → `G.eq`, `*` → `G.mul`)
fn is_group(cx: &Ctx, e: &Expr) -> bool {
    match e {
        Expr::Paren(p) => is_group(cx, &p.expr),
        Expr::Group(g) => is_group(cx, &g.expr),
        Expr::Reference(r) => is_group(cx, &r.expr),
        Expr::Unary(u) => is_group(cx, &u.expr),
        Expr::Path(p) => cx.group_vars.borrow().contains(&path_str(&p.path)),
        Expr::Field(f) if cx.lib && matches!(&f.member, Member::Unnamed(i) if i.index == 0) => is_group(cx, &f.base),
        Expr::Binary(b) => matches!(b.op, BinOp::Add(_) | BinOp::Sub(_) | BinOp::Mul(_)) && is_group(cx, &b.left),
        Expr::Call(c) => matches!(&*c.func, Expr::Path(p) if { let s = path_str(&p.path); s == "G::zero" || s == "G::one" || s == "P::one" }),
        Expr::Struct(s) => path_str(&s.path) == "G",
        _ => false,
    }
}

const NEWTYPES: &[&str] = &["Fq", "Fq2", "Fr", "G1", "G2", "Gt", "AffineG1", "AffineG2"];

fn hoist(cx: &Ctx, rhs: String) -> R<String> {
    if !cx.outcome { return Err("Outcome call outside an Outcome function".into()); }
    let k = cx.fresh.get(); cx.fresh.set(k + 1);
    let v = format!("u{}", k);
    cx.binds.borrow_mut().push((v.clone(), rhs));
    Ok(v)
}

/// is this expression a machine integer (`u8`, `usize`)?  Their `+ - *` can wrap or panic: never translated.
fn is_num(cx: &Ctx, e: &Expr) -> bool {
    match e {
        Expr::Lit(l) => matches!(&l.lit, Lit::Int(_)),
        Expr::Paren(p) => is_num(cx, &p.expr),
        Expr::Group(g) => is_num(cx, &g.expr),
        Expr::Reference(r) => is_num(cx, &r.expr),
        Expr::Unary(u) => is_num(cx, &u.expr),
        Expr::Cast(_) => true,
        Expr::Index(ix) => !matches!(&*ix.index, Expr::Range(_)),
        Expr::MethodCall(m) => m.method == "len",
        Expr::Path(p) => cx.group_vars.borrow().contains(&format!("num:{}", path_str(&p.path))),
        Expr::Binary(b) => is_num(cx, &b.left) || is_num(cx, &b.right),
        _ => false,
    }
}

/// does the expression contain a `?` token?  (an over-approximation — a `?` inside a nested closure counts — which is harmless:
/// it only selects the `Option.bind` form of a statement)
fn has_try<T: quote::ToTokens>(e: &T) -> bool {
    fn go(ts: proc_macro2::TokenStream) -> bool {
        ts.into_iter().any(|t| match t { proc_macro2::TokenTree::Punct(p) => p.as_char() == '?', proc_macro2::TokenTree::Group(g) => go(g.stream()), _ => false })
    }
    go(quote::quote!(#e))
}

/// Names assigned inside a token stream (`x = ..`, `x op= ..`, `x.f = ..`, `x[i] = ..`, `*x.m() = ..`, `(x, y) = ..`) at a point
/// where no `let` statement of an enclosing scope (inside the stream) has declared them.  Token-level and conservative:
/// false positives (type ascriptions, `if let` bindings, closure parameters) only make a function be skipped.
fn assigned_names(toks: &[proc_macro2::TokenTree], declared: &mut BTreeSet<String>, out: &mut BTreeSet<String>) {
    use proc_macro2::{Delimiter, Spacing, TokenTree as TT};
    fn idents(ts: proc_macro2::TokenStream, acc: &mut Vec<String>) {
        for t in ts { match t { TT::Ident(i) => { let s = i.to_string(); if s != "mut" && s != "ref" { acc.push(s); } } TT::Group(g) => idents(g.stream(), acc), _ => {} } }
    }
    let mut i = 0;
    while i < toks.len() {
        match &toks[i] {
            TT::Ident(id) if id == "let" && (i == 0 || matches!(&toks[i - 1], TT::Punct(p) if p.as_char() == ';') || matches!(&toks[i - 1], TT::Group(g) if g.delimiter() == Delimiter::Brace)) => {
                // `let PAT [: TY] = INIT;` in statement position: INIT is scanned first, then the names of PAT are declared
                let mut j = i + 1;
                let mut names = vec![];
                let mut in_ty = false;
                while j < toks.len() {
                    match &toks[j] {
                        TT::Punct(p) if p.as_char() == ';' => break,
                        TT::Punct(p) if p.as_char() == '=' && p.spacing() == Spacing::Alone && !matches!(&toks[j - 1], TT::Punct(q) if q.spacing() == Spacing::Joint) => break,
                        TT::Punct(p) if p.as_char() == ':' => in_ty = true,
                        TT::Ident(n) if !in_ty => { let s = n.to_string(); if s != "mut" && s != "ref" { names.push(s); } }
                        TT::Group(g) if !in_ty => idents(g.stream(), &mut names),
                        _ => {}
                    }
                    j += 1;
                }
                let mut k = j;
                while k < toks.len() && !matches!(&toks[k], TT::Punct(p) if p.as_char() == ';') { k += 1; }
                if j < k { assigned_names(&toks[j + 1..k], declared, out); }
                for n in names { declared.insert(n); }
                i = k + 1;
                continue;
            }
            TT::Group(g) => {
                let inner: Vec<TT> = g.stream().into_iter().collect();
                let mut d2 = declared.clone();
                assigned_names(&inner, &mut d2, out);
            }
            TT::Punct(p) if p.as_char() == '=' && p.spacing() == Spacing::Alone && i > 0 => {
                // which kind of `=` is it?  `==` `!=` `<=` `>=` `..=` are not assignments; `op=` / `<<=` / `>>=` are
                let mut end: Option<usize> = Some(i - 1);       // index of the last token of the assigned place
                if let TT::Punct(q) = &toks[i - 1] {
                    if q.spacing() == Spacing::Joint {
                        let c = q.as_char();
                        let shift = (c == '<' || c == '>') && i >= 2 && matches!(&toks[i - 2], TT::Punct(r) if r.as_char() == c && r.spacing() == Spacing::Joint);
                        end = if shift { i.checked_sub(3) } else if "+-*/%^&|".contains(c) { i.checked_sub(2) } else { None };
                    }
                }
                if let Some(mut t) = end {
                    loop {
                        match &toks[t] {
                            TT::Group(g) if g.delimiter() == Delimiter::Bracket && t > 0 => { t -= 1; }
                            TT::Group(g) if g.delimiter() == Delimiter::Parenthesis => {
                                if t > 0 && matches!(&toks[t - 1], TT::Ident(_)) { t -= 1; }     // `place.method()`
                                else { let mut v = vec![]; idents(g.stream(), &mut v); for n in v { if !declared.contains(&n) { out.insert(n); } } break; }
                            }
                            TT::Ident(_) | TT::Literal(_) => {
                                if t >= 2 && matches!(&toks[t - 1], TT::Punct(q) if q.as_char() == '.') { t -= 2; }
                                else { if let TT::Ident(n) = &toks[t] { let n = n.to_string(); if !declared.contains(&n) { out.insert(n); } } break; }
                            }
                            _ => { out.insert("<unknown place>".into()); break; }
                        }
                    }
                }
            }
            _ => {}
        }
        i += 1;
    }
}

/// methods that mutate their receiver (`&mut self`) in the translated sources
fn is_mutating_method(n: &str) -> bool {
    matches!(n, "push" | "normalize" | "copy_from_slice" | "g_tangent" | "g_line" | "set_bit" | "insert" | "clear" | "extend" | "pop" | "truncate" | "swap" | "reverse" | "fill")
        || n.ends_with("_assign") || n.ends_with("_mut") || n.starts_with("set_")
}

/// the captured variables a closure assigns; `Err` when it may mutate a captured variable in a way that is not tracked
/// (`&mut x`, a `&mut self` method)
fn captured_assigns(c: &ExprClosure) -> R<BTreeSet<String>> {
    use proc_macro2::TokenTree as TT;
    fn hazard(ts: proc_macro2::TokenStream) -> R<()> {
        let toks: Vec<TT> = ts.into_iter().collect();
        for (i, t) in toks.iter().enumerate() {
            match t {
                TT::Ident(id) if id == "mut" && i > 0 && matches!(&toks[i - 1], TT::Punct(p) if p.as_char() == '&') => return Err("closure takes a `&mut` borrow".into()),
                TT::Ident(id) if i > 0 && matches!(&toks[i - 1], TT::Punct(p) if p.as_char() == '.') && matches!(toks.get(i + 1), Some(TT::Group(_))) && is_mutating_method(&id.to_string()) =>
                    return Err(format!("closure calls the mutating method `{}`", id)),
                TT::Group(g) => hazard(g.stream())?,
                _ => {}
            }
        }
        Ok(())
    }
    let body = &c.body;
    hazard(quote::quote!(#body))?;
    let mut declared: BTreeSet<String> = BTreeSet::new();
    for p in &c.inputs { if let Ok(s) = pat_str(p) { for v in s.replace(['(', ')', ','], " ").split_whitespace() { declared.insert(v.to_string()); } } }
    let mut out = BTreeSet::new();
    let toks: Vec<TT> = quote::quote!(#body).into_iter().collect();
    assigned_names(&toks, &mut declared, &mut out);
    Ok(out)
}

/// a closure translated as a plain lambda must not assign captured variables (the assignment would be lost)
fn closure_guard(c: &ExprClosure) -> R<()> {
    let a = captured_assigns(c)?;
    if a.is_empty() { Ok(()) } else { Err(format!("closure assigns captured variable(s) {}", a.into_iter().collect::<Vec<_>>().join(", "))) }
}

/// the single parameter of a closure
fn closure_param(c: &ExprClosure) -> R<String> {
    if c.inputs.len() != 1 { return Err("closure arity".into()); }
    match &c.inputs[0] { Pat::Ident(_) | Pat::Type(_) | Pat::Wild(_) => pat_str(&c.inputs[0]), _ => Err("closure pattern".into()) }
}

/// An expression that may contain `?`, as an `Option`-valued Lean term (`none` = the `?` returned early).  `e?` itself is `e`;
/// an `if`/block is translated branch by branch; in any other expression the nested `?` are hoisted in front
/// (`match e1 with | none => none | some q0 => some (.. q0 ..)`), which is exact for pure operands whose only effect is `None`.
fn opt_expr(cx: &Ctx, e: &Expr, ind: usize) -> R<String> {
    if cx.outcome { return Err("`?` nested in an expression of an Outcome function".into()); }
    if !cx.ret_option { return Err("`?` in a function not returning Option".into()); }
    match e {
        Expr::Paren(p) => opt_expr(cx, &p.expr, ind),
        Expr::Group(g) => opt_expr(cx, &g.expr, ind),
        Expr::Try(t) if !has_try(&t.expr) => Ok(paren(&expr(cx, &t.expr)?)),
        Expr::If(i) => {
            if has_try(&i.cond) { return Err("`?` in a condition".into()); }
            let c = expr(cx, &i.cond)?;
            let t = opt_block(cx, &i.then_branch, ind)?;
            let el = match &i.else_branch { Some((_, e)) => opt_expr(cx, e, ind)?, None => return Err("if without else in expression position".into()) };
            Ok(format!("(if {} then {} else {})", c, t, el))
        }
        Expr::Block(b) => opt_block(cx, &b.block, ind),
        Expr::Match(_) | Expr::Closure(_) | Expr::Return(_) => Err("`?` under a match / closure / return inside an expression".into()),
        _ => {
            let saved_scope = cx.try_scope.replace(true);
            let saved: Vec<(String, String)> = cx.tries.borrow_mut().drain(..).collect();
            let v = expr(cx, e);
            cx.try_scope.set(saved_scope);
            let mine: Vec<(String, String)> = cx.tries.borrow_mut().drain(..).collect();
            cx.tries.borrow_mut().extend(saved);
            let v = v?;
            let mut s = format!("(some {})", paren(&v));
            for (q, inner) in mine.iter().rev() { s = format!("(match {} with | none => none | some {} => {})", inner, q, s); }
            Ok(s)
        }
    }
}

fn opt_block(cx: &Ctx, b: &Block, ind: usize) -> R<String> {
    if let [Stmt::Expr(e, None)] = &b.stmts[..] { return opt_expr(cx, e, ind); }
    if contains_return(b) { return Err("`return` inside an Option-valued block".into()); }
    let sub = Ctx { some_tail: true, ..cx.clone() };
    let body = stmts(&sub, &b.stmts, ind + 4, None)?;
    Ok(format!("(\n{})", body))
}

/// lib.rs idioms; `None` = not one of them, fall through to the general translation
fn lib_expr(cx: &Ctx, e: &Expr) -> R<Option<String>> {
    if let Expr::Binary(b) = e {
        if matches!(b.op, BinOp::Add(_) | BinOp::Sub(_) | BinOp::Mul(_) | BinOp::Div(_) | BinOp::Rem(_) | BinOp::Shl(_) | BinOp::Shr(_)) && (is_num(cx, &b.left) || is_num(cx, &b.right)) {
            return Err("machine-integer arithmetic (may wrap or panic)".into());
        }
    }
    Ok(Some(match e {
        // newtype projection
        Expr::Field(f) if matches!(&f.member, Member::Unnamed(i) if i.index == 0) => expr(cx, &f.base)?,
        Expr::Call(c) => {
            let f = match &*c.func { Expr::Path(p) => path_str(&p.path), _ => return Ok(None) };
            let args: R<Vec<String>> = if f == "Ok" { Ok(vec![String::new(); c.args.len()]) } else { c.args.iter().map(|a| expr(cx, a)).collect() };
            let args = args?;
            match (f.as_str(), args.len()) {
                (n, 1) if NEWTYPES.contains(&n) => args[0].clone(),
                ("Self::b", 0) => if cx.elem == "Fq" { "Sm9.Api.g1B".into() } else { "Sm9.Api.g2B".into() },
                ("fields::Fq::from_slice", 1) => format!("(Sm9.Api.fqFromSliceStrict {})", paren(&args[0])),
                ("Fq2::from_slice", 1) => format!("(Sm9.Api.fq2FromSlice {})", paren(&args[0])),
                ("AffineG1::new", 2) | ("groups::AffineG1::new", 2) => format!("(Sm9.AffineG.new (F := Fq) {} {})", paren(&args[0]), paren(&args[1])),
                ("AffineG2::new", 2) | ("groups::AffineG2::new", 2) => format!("(Sm9.AffineG.new (F := Fq2) {} {})", paren(&args[0]), paren(&args[1])),
                // `Ok(N(e?))` where `e : Result<_, E>` and the function returns `Result<_, E>` with the same `E` (`?` converts the
                // error with the identity `From`): the whole expression is `e`
                ("Ok", 1) if cx.ret_result && { let mut a = &c.args[0]; loop { match a { Expr::Paren(p) => a = &p.expr, Expr::Call(w) if w.args.len() == 1 && matches!(&*w.func, Expr::Path(p) if NEWTYPES.contains(&path_str(&p.path).as_str())) => a = &w.args[0], _ => break } } matches!(a, Expr::Try(_)) } => {
                    let mut a = &c.args[0];
                    loop { match a { Expr::Paren(p) => a = &p.expr, Expr::Call(w) if w.args.len() == 1 && matches!(&*w.func, Expr::Path(p) if NEWTYPES.contains(&path_str(&p.path).as_str())) => a = &w.args[0], _ => break } }
                    let Expr::Try(t) = a else { unreachable!() };
                    let mut inner = &*t.expr;
                    while let Expr::Paren(p) = inner { inner = &p.expr; }
                    let callee = match inner { Expr::Call(ic) => match &*ic.func { Expr::Path(p) => path_str(&p.path), _ => String::new() }, _ => String::new() };
                    let callee_err = match callee.as_str() { "groups::AffineG1::new" | "groups::AffineG2::new" => "GroupError", _ => return Err(format!("`Ok(..?)`: error type of `{}` unknown", callee)) };
                    if cx.ret_err != callee_err { return Err(format!("`Ok(..?)` converts the error type {} into {}", callee_err, cx.ret_err)); }
                    expr(cx, &t.expr)?
                }
                ("fields::Fq2::one", 0) => "Sm9.Fq2.one".into(),
                ("fields::Fq2::zero", 0) => "Sm9.Fq2.zero".into(),
                ("fields::Fq2::new", 2) => format!("(Sm9.Fq2.new {} {})", paren(&args[0]), paren(&args[1])),
                ("fields::Fq2::from_slice", 1) => format!("(Sm9.fq2FromSliceE {})", paren(&args[0])),
                // inside fields/fq2.rs `Fq` is `fields::Fq` (strict 32-byte decoder); in lib.rs it is the lenient wrapper
                ("Fq::from_slice", 1) if !cx.ns.starts_with("Lib") => format!("(Sm9.Api.fqFromSliceStrict {})", paren(&args[0])),
                ("G1Params::coeff_b", 0) => "(GroupParams.coeff_b : Fq)".into(),
                ("G2Params::coeff_b", 0) => "(GroupParams.coeff_b : Fq2)".into(),
                ("AffineG1::from_jacobian", 1) | ("AffineG2::from_jacobian", 1) => format!("{}.to_affine", paren(&args[0])),
                ("Self::from_slice", 1) => if cx.elem == "Fq" { format!("(Sm9.Api.g1FromSlice {})", paren(&args[0])) } else { format!("(Sm9.Api.g2FromSlice {})", paren(&args[0])) },
                ("groups::G1::zero", 0) | ("groups::G2::zero", 0) => "Sm9.G.zero".into(),
                ("groups::G1::one", 0) | ("groups::G2::one", 0) => "Sm9.G.one".into(),
                ("groups::G1::new", 3) | ("groups::G2::new", 3) => format!("(Sm9.G.new {} {} {})", paren(&args[0]), paren(&args[1]), paren(&args[2])),
                ("fields::Fq12::one", 0) => "Sm9.Fq12.one".into(),
                ("pairings::pairing", 2) => hoist(cx, format!("Sm9.Pairings.pairing {} {}", paren(&args[0]), paren(&args[1])))?,
                ("pairings::fast_pairing", 2) => hoist(cx, format!("Sm9.Pairings.fast_pairing {} {}", paren(&args[0]), paren(&args[1])))?,
                _ => return Ok(None),
            }
        }
        Expr::Index(ix) => {
            let base = expr(cx, &ix.expr)?;
            match &*ix.index {
                Expr::Range(r) => match (&r.start, &r.end) {
                    (Some(a), None) => format!("({}.drop {})", paren(&base), expr(cx, a)?),
                    (None, Some(b)) if matches!(r.limits, RangeLimits::HalfOpen(_)) => format!("({}.take {})", paren(&base), expr(cx, b)?),
                    _ => return Err("slice range".into()),
                },
                i => format!("(({}.getD {} 0).toNat)", paren(&base), expr(cx, i)?),    // a `u8` read as a number
            }
        }
        Expr::Repeat(r) => {
            let v = match &*r.expr { Expr::Lit(l) => match &l.lit { Lit::Int(i) => i.base10_digits().to_string(), _ => return Err("array literal".into()) }, _ => return Err("array literal".into()) };
            format!("(List.replicate {} ({} : UInt8))", expr(cx, &r.len)?, v)
        }
        Expr::MethodCall(m) => {
            let name = m.method.to_string();
            match (name.as_str(), m.args.len()) {
                ("len", 0) => format!("{}.length", paren(&expr(cx, &m.receiver)?)),
                ("as_ref", 0) => expr(cx, &m.receiver)?,
                ("map", 1) if matches!(&m.args[0], Expr::Path(p) if NEWTYPES.contains(&path_str(&p.path).as_str())) => expr(cx, &m.receiver)?,
                ("map", 1) if matches!(&m.args[0], Expr::Path(p) if path_str(&p.path) == "Into::into") =>
                    format!("(Except.map (fun a => Sm9.AffineG.to_jacobian a) {})", paren(&expr(cx, &m.receiver)?)),
                ("map_err", 1) => {
                    if let Expr::Closure(c) = &m.args[0] { if matches!(c.inputs.first(), Some(Pat::Wild(_))) {
                        closure_guard(c)?;
                        return Ok(Some(format!("(Except.mapError (fun _ => {}) {})", expr(cx, &c.body)?, paren(&expr(cx, &m.receiver)?))));
                    } }
                    return Err("map_err closure".into());
                }
                ("ok", 0) => format!("(Except.toOption {})", paren(&expr(cx, &m.receiver)?)),
                // `a.into()`: the only conversion whose source is an affine point is `From<AffineG1> for G1` / `From<AffineG2> for G2`
                // (translated and proved equal to `AffineG.to_jacobian` on every run: LibG1_from / LibG2_from); Lean's type checker
                // rejects the rendering for a receiver of any other type (the function is then left out and reported)
                ("into", 0) => format!("(Sm9.AffineG.to_jacobian {})", paren(&expr(cx, &m.receiver)?)),
                ("ok_or", 1) if cx.ret_result => { let r = expr(cx, &m.receiver)?; format!("(match {} with | some v => Except.ok v | none => Except.error {})", r, paren(&expr(cx, &m.args[0])?)) }
                // `x.into_u256().is_even()` on a lib.rs `Fq`: parity of the canonical value
                ("is_even", 0) if matches!(&*m.receiver, Expr::MethodCall(i) if i.method == "into_u256" && i.args.is_empty()) => {
                    let Expr::MethodCall(i) = &*m.receiver else { unreachable!() };
                    format!("(Sm9.Fq.is_even {})", paren(&expr(cx, &i.receiver)?))
                }
                ("to_slice", 0) if cx.ns == "LibFq2" => format!("(Sm9.Api.fq2ToSlice {})", paren(&expr(cx, &m.receiver)?)),
                ("is_even", 0) => { let r = expr(cx, &m.receiver)?; if cx.elem == "Fq" { format!("{}.is_even", paren(&r)) } else { format!("(Sm9.Api.fq2IsEven {})", paren(&r)) } }
                ("sqrt", 0) => format!("{}.sqrt", paren(&expr(cx, &m.receiver)?)),
                ("pow", 1) if cx.self_ty == "Fq12" => format!("(Sm9.Api.gtPow {} {})", paren(&expr(cx, &m.receiver)?), paren(&expr(cx, &m.args[0])?)),
                ("to_slice", 0) if cx.self_ty == "Fq12" && cx.ns == "LibGt" => format!("(Sm9.Api.fq12ToSlice {})", paren(&expr(cx, &m.receiver)?)),
                ("to_affine", 0) | ("to_jacobian", 0) | ("is_zero", 0) | ("inverse", 0) => format!("{}.{}", paren(&expr(cx, &m.receiver)?), name),
                ("to_slice", 0) => {
                    let r = expr(cx, &m.receiver)?;
                    if matches!(&*m.receiver, Expr::Path(p) if path_str(&p.path) == "self") {
                        hoist(cx, format!("{} {}", if cx.elem == "Fq" { "Sm9.Api.g1ToSlice" } else { "Sm9.Api.g2ToSlice" }, paren(&r)))?
                    } else { match cx.elem.as_str() { "Fq" => format!("(Sm9.Api.fqToSlice {})", paren(&r)), "Fq2" => format!("(Sm9.Api.fq2ToSlice {})", paren(&r)), "Fq4" => format!("(Sm9.Api.fq4ToSlice {})", paren(&r)), _ => return Err("to_slice on an unknown component type".into()) } }
                }
                _ => return Ok(None),
            }
        }
        Expr::Binary(b) if matches!(b.op, BinOp::BitAnd(_)) => format!("({} &&& {})", expr(cx, &b.left)?, expr(cx, &b.right)?),
        // order comparisons: in the translated part of lib.rs only lengths and bytes (numbers) are compared
        Expr::Binary(b) if matches!(b.op, BinOp::Lt(_)) => format!("(decide ({} < {}))", expr(cx, &b.left)?, expr(cx, &b.right)?),
        Expr::Binary(b) if matches!(b.op, BinOp::Le(_)) => format!("(decide ({} ≤ {}))", expr(cx, &b.left)?, expr(cx, &b.right)?),
        Expr::Binary(b) if matches!(b.op, BinOp::Gt(_)) => format!("(decide ({} > {}))", expr(cx, &b.left)?, expr(cx, &b.right)?),
        Expr::Binary(b) if matches!(b.op, BinOp::Ge(_)) => format!("(decide ({} ≥ {}))", expr(cx, &b.left)?, expr(cx, &b.right)?),
        _ => return Ok(None),
    }))
}

fn uses_ident(t: &proc_macro2::TokenTree, name: &str) -> bool {
    match t { proc_macro2::TokenTree::Ident(i) => i == name, proc_macro2::TokenTree::Group(g) => g.stream().into_iter().any(|x| uses_ident(&x, name)), _ => false }
}

/// translate a closure body with `?`-hoisting switched off (a `?` inside a closure belongs to the closure)
fn in_closure<T>(cx: &Ctx, f: impl FnOnce() -> R<T>) -> R<T> {
    let s = cx.try_scope.replace(false);
    let r = f();
    cx.try_scope.set(s);
    r
}

fn expr(cx: &Ctx, e: &Expr) -> R<String> {
    // hoisting a `?` out of a conditionally evaluated sub-expression would change the meaning
    if cx.try_scope.get() && has_try(e) {
        let cond = match e { Expr::If(_) | Expr::Block(_) | Expr::Match(_) | Expr::While(_) | Expr::ForLoop(_) | Expr::Loop(_) => true, Expr::Binary(b) => matches!(b.op, BinOp::And(_) | BinOp::Or(_)), _ => false };
        if cond { return Err("`?` under a conditional inside an expression".into()); }
    }
    // a draw from the generator under a conditional / closure cannot be hoisted in front of the statement
    if !cx.rng.is_empty() {
        let cond = match e { Expr::If(_) | Expr::Block(_) | Expr::Match(_) | Expr::While(_) | Expr::ForLoop(_) | Expr::Loop(_) | Expr::Closure(_) => true, Expr::Binary(b) => matches!(b.op, BinOp::And(_) | BinOp::Or(_)), _ => false };
        if cond && quote::quote!(#e).into_iter().any(|t| uses_ident(&t, &cx.rng)) { return Err("use of the random generator under a conditional / closure".into()); }
    }
    if cx.lib { if let Some(s) = lib_expr(cx, e)? { return Ok(s); } }
    Ok(match e {
        Expr::Paren(p) => format!("({})", expr(cx, &p.expr)?),
        Expr::Group(g) => expr(cx, &g.expr)?,
        Expr::Reference(r) => expr(cx, &r.expr)?,
        Expr::Unary(u) => match u.op {
            UnOp::Deref(_) => expr(cx, &u.expr)?,
            UnOp::Neg(_) => format!("(-{})", expr(cx, &u.expr)?),
            UnOp::Not(_) => format!("(!{})", expr(cx, &u.expr)?),
            _ => return Err("unary op".into()),
        },
        Expr::Binary(b) => {
            let mut l = expr(cx, &b.left)?;
            let mut r = expr(cx, &b.right)?;
            let grp = is_group(cx, &b.left) || is_group(cx, &b.right);
            // `CONST == x` is `x == CONST`: a constant-like left operand of `==` / `!=` (a literal, `T::one()`, `G::zero()`,
            // a source constant) is moved to the right — the canonical spelling the model uses
            if matches!(b.op, BinOp::Eq(_) | BinOp::Ne(_)) && const_like(&b.left) && !const_like(&b.right) { std::mem::swap(&mut l, &mut r); }
            match b.op {
                BinOp::Mul(_) if grp => format!("(Sm9.G.mul {} {})", paren(&l), paren(&r)),
                BinOp::Eq(_) if grp => format!("(Sm9.G.eq {} {})", paren(&l), paren(&r)),
                BinOp::Ne(_) if grp => format!("(!Sm9.G.eq {} {})", paren(&l), paren(&r)),
                BinOp::BitAnd(_) => format!("({} &&& {})", l, r),    // integers only (u128 loop constants)
                // bitwise or / xor of unsigned integers (bytes, loop constants): total, no overflow; Lean rejects any other operand type
                BinOp::BitOr(_) => format!("({} ||| {})", l, r),
                BinOp::BitXor(_) => format!("({} ^^^ {})", l, r),
                BinOp::Shl(_) => format!("({} <<< {})", l, r),
                BinOp::Gt(_) => format!("(decide ({} > {}))", l, r),      // integers only (loop counters)
                BinOp::Lt(_) => format!("(decide ({} < {}))", l, r),
                BinOp::Add(_) => format!("({} + {})", l, r),
                BinOp::Sub(_) => format!("({} - {})", l, r),
                BinOp::Mul(_) => format!("({} * {})", l, r),
                BinOp::And(_) => format!("({} && {})", l, r),
                BinOp::Or(_) => format!("({} || {})", l, r),
                BinOp::Eq(_) => format!("(decide ({} = {}))", l, r),
                BinOp::Ne(_) => format!("(!decide ({} = {}))", l, r),
                _ => return Err(format!("binary op {:?}", b.op)),
            }
        }
        Expr::Path(p) => {
            let s = path_str(&p.path);
            match s.as_str() {
                "self" => "self".into(),
                "None" => "none".into(),
                "u128::BITS" => "128".into(),
                _ if s.starts_with("Error::") => format!("{}.{}", cx.err_ty, &s[7..]),
                _ if s.starts_with("CurveError::") || s.starts_with("GroupError::") || s.starts_with("FieldError::") => s.replace("::", "."),
                _ => {
                    if s.chars().all(|c| c.is_ascii_uppercase() || c.is_ascii_digit() || c == '_') {
                        format!("Consts.{}", s)     // SM9_A3 etc.
                    } else if p.path.segments.len() == 1 {
                        ident(&s)
                    } else {
                        return Err(format!("path {}", s));
                    }
                }
            }
        }
        Expr::Field(f) => {
            let m = match &f.member { Member::Named(i) => i.to_string(), Member::Unnamed(i) => format!("{}", i.index + 1) };
            // tuple of 3: c.0 c.1 c.2 -> .1, .2.1, .2.2
            if let Member::Unnamed(i) = &f.member {
                let b = expr(cx, &f.base)?;
                return Ok(match i.index { 0 => format!("{}.1", b), 1 => format!("{}.2.1", b), 2 => format!("{}.2.2", b), _ => return Err("tuple index".into()) });
            }
            format!("{}.{}", expr(cx, &f.base)?, m)
        }
        Expr::MethodCall(m) => method_call(cx, m)?,
        Expr::Call(c) => call(cx, c)?,
        Expr::Struct(s) => {
            if s.rest.is_some() { return Err("struct update syntax".into()); }
            let fields: R<Vec<String>> = s.fields.iter().map(|fv| {
                let n = match &fv.member { Member::Named(i) => i.to_string(), _ => "?".into() };
                Ok(format!("{} := {}", n, expr(cx, &fv.expr)?))
            }).collect();
            let tn = path_str(&s.path);
            if let Some(variant) = tn.strip_prefix("Error::") {
                // struct-variant error `Error::InvalidLength { expected: 64, actual: n }`: constructor with named arguments
                let args: R<Vec<String>> = s.fields.iter().map(|fv| {
                    let n = match &fv.member { Member::Named(i) => i.to_string(), _ => return Err("tuple field in a struct variant".to_string()) };
                    Ok(format!("({} := {})", n, expr(cx, &fv.expr)?))
                }).collect();
                return Ok(format!("({}.{} {})", cx.err_ty, variant, args?.join(" ")));
            }
            let tn = match tn.as_str() { "Self" => cx.self_ty.clone(), "G" => format!("G {}", cx.mono.clone().ok_or("G")?), "AffineG" => format!("AffineG {}", cx.mono.clone().ok_or("AffineG")?), o => o.to_string() };
            format!("({{ {} }} : {})", fields?.join(", "), tn)
        }
        Expr::Tuple(t) => {
            let v: R<Vec<String>> = t.elems.iter().map(|x| expr(cx, x)).collect();
            format!("({})", v?.join(", "))
        }
        Expr::Array(a) => {
            let xs: R<Vec<String>> = a.elems.iter().map(|x| expr(cx, x)).collect();
            format!("[{}]", xs?.join(", "))
        }
        Expr::Lit(l) => match &l.lit { Lit::Int(i) => i.base10_digits().to_string(), Lit::Bool(b) => b.value.to_string(), Lit::Str(st) if st.value().chars().all(|c| c.is_ascii_alphanumeric() || c == ' ' || c == '_') => format!("\"{}\"", st.value()), _ => return Err("literal".into()) },
        Expr::Try(t) => {
            // `let x = e?;` is handled at statement level; a nested `?` is hoisted by `opt_expr`
            if cx.try_scope.get() && cx.ret_option && !cx.outcome {
                let inner = expr(cx, &t.expr)?;
                let k = cx.fresh.get(); cx.fresh.set(k + 1);
                let q = format!("q{}", k);
                cx.tries.borrow_mut().push((q.clone(), inner));
                return Ok(q);
            }
            return Err(format!("nested `?`: {}", quote::quote!(#t)));
        }
        Expr::If(i) => {
            let c = expr(cx, &i.cond)?;
            let t = block(cx, &i.then_branch, 0, None)?;
            let el = match &i.else_branch { Some((_, e)) => expr(cx, e)?, None => return Err("if without else in expression position".into()) };
            format!("(if {} then {} else {})", c, t, el)
        }
        Expr::Block(b) => format!("({})", block(cx, &b.block, 0, None)?),
        Expr::Index(ix) => {
            if !cx.outcome { return Err("indexing outside an Outcome function".into()); }
            let base = expr(cx, &ix.expr)?;
            let i = expr(cx, &ix.index)?;
            let k = cx.fresh.get(); cx.fresh.set(k + 1);
            let v = format!("u{}", k);
            cx.binds.borrow_mut().push((v.clone(), format!("Sm9.G2Prepared.idx {} {}", paren(&base), paren(&i))));
            v
        }
        other => return Err(format!("unsupported expr: {}", quote::quote!(#other).to_string().chars().take(80).collect::<String>())),
    })
}

fn const_like(e: &Expr) -> bool {
    match e {
        Expr::Lit(_) => true,
        Expr::Paren(p) => const_like(&p.expr),
        Expr::Group(g) => const_like(&g.expr),
        Expr::Reference(r) => const_like(&r.expr),
        Expr::Unary(u) => matches!(u.op, UnOp::Neg(_) | UnOp::Deref(_)) && const_like(&u.expr),
        Expr::Call(c) => c.args.is_empty() && matches!(&*c.func, Expr::Path(_)),
        Expr::Path(p) => { let s = path_str(&p.path); !s.is_empty() && s.chars().all(|ch| ch.is_ascii_uppercase() || ch.is_ascii_digit() || ch == '_') }
        _ => false,
    }
}

fn call(cx: &Ctx, c: &ExprCall) -> R<String> {
    let f = match &*c.func { Expr::Path(p) => path_str(&p.path), _ => return Err("call of non-path".into()) };
    let args: R<Vec<String>> = c.args.iter().map(|a| expr(cx, a)).collect();
    let args = args?;
    let f2 = f.replace("Self::", &format!("{}::", cx.self_ty)).replace("P::Base::", &format!("{}::", cx.mono.clone().unwrap_or_default()));
    Ok(match (f2.as_str(), args.len()) {
        ("Some", 1) => format!("(some {})", args[0]),
        ("Ok", 1) if cx.ret_result => format!("(Except.ok {})", args[0]),
        ("Err", 1) if cx.ret_result => format!("(Except.error {})", args[0]),
        ("Fr::one", 0) => "(1 : Fr)".into(),
        // `U256::from(x)` for a field element `x`: its canonical integer value (`From<Fr|Fq> for U256` is `into_u256`, limb level: Fp_into_u256_refines)
        ("U256::from", 1) if !cx.lib => format!("{}.val", paren(&args[0])),
        ("P::coeff_b", 0) => format!("(GroupParams.coeff_b : {})", cx.mono.clone().ok_or("P::coeff_b outside a monomorphised impl")?),
        ("P::check_order", 0) => format!("(GroupParams.check_order {})", cx.mono.clone().ok_or("P::check_order outside a monomorphised impl")?),
        ("Vec::new", 0) => "[]".into(),
        ("bit", 2) => format!("(Sm9.bit {} {})", paren(&args[0]), paren(&args[1])),
        ("G2Prepared::from", 1) => {
            // `From<G2> for G2Prepared` has panic sites: Outcome-valued in the model
            if !cx.outcome { return Err("Outcome call outside an Outcome function".into()); }
            let k = cx.fresh.get(); cx.fresh.set(k + 1);
            let v = format!("u{}", k);
            cx.binds.borrow_mut().push((v.clone(), format!("Sm9.G2Prepared.from_ {}", paren(&args[0]))));
            v
        }
        ("P::one", 0) => format!("(Sm9.G.one : G {})", cx.mono.clone().ok_or("P::one outside a monomorphised impl")?),
        ("Fq2::i", 0) => "Sm9.Fq2.i".into(),
        // `X::random(rng)`: a draw from the script — the model function returns the remaining script and the element
        ("Fq::random", 1) | ("Fr::random", 1) | ("Fq2::random", 1) | ("Fq4::random", 1) | ("Fq12::random", 1)
            if !cx.rng.is_empty() && matches!(&c.args[0], Expr::Path(p) if path_str(&p.path) == cx.rng) => {
            let k = cx.fresh.get(); cx.fresh.set(k + 1);
            let v = format!("r{}", k);
            let r = ident(&cx.rng);
            cx.binds.borrow_mut().push((format!("({}, {})", r, v), format!("\u{2}Sm9.{}S {}", f2.replace("::", "."), r)));
            v
        }
        (n, _) if n.starts_with("CurveError::") => return Err(format!("the model's CurveError has no variant for `{}` (it keeps only InvalidEncoding / NotMember)", n)),
        ("Fq::zero", 0) => "(0 : Fq)".into(),
        ("Fq::one", 0) => "(1 : Fq)".into(),
        ("Fq2::zero", 0) => "Sm9.Fq2.zero".into(),
        ("Fq2::one", 0) => "Sm9.Fq2.one".into(),
        ("Fq4::zero", 0) => "Sm9.Fq4.zero".into(),
        ("Fq4::one", 0) => "Sm9.Fq4.one".into(),
        ("Fq12::zero", 0) => "Sm9.Fq12.zero".into(),
        ("Fq12::one", 0) => "Sm9.Fq12.one".into(),
        ("Fq::sum_of_products", 2) => format!("(Sm9.Fq.sum_of_products {} {})", args[0], args[1]),
        (n, _) if n.ends_with("::new") => {
            let t = n.trim_end_matches("::new");
            let t = match t { "G2" => "G".to_string(), "G1" => "G".to_string(), o => o.to_string() };
            format!("(Sm9.{}.new {})", t, args.join(" "))
        }
        (n, 0) if n.starts_with("G ") && n.ends_with("::zero") => "Sm9.G.zero".into(),
        ("G::zero", 0) => "Sm9.G.zero".into(),
        ("Fq::new", 1) => format!("(Sm9.Fq.new {})", args[0]),
        _ => return Err(format!("call {}", f2)),
    })
}

fn method_call(cx: &Ctx, m: &ExprMethodCall) -> R<String> {
    let name = m.method.to_string();
    let tail = cx.tail_call.replace(false);     // only this call itself (not its receiver / arguments) is in tail position
    // Fq::new(*CONST).unwrap()  — a source constant: resolved to the literal (Proofs/Consts.lean: all < q)
    if name == "unwrap" || name == "expect" {
        if let Expr::Call(c) = &*m.receiver {
            if let Expr::Path(p) = &*c.func {
                if path_str(&p.path) == "Fq::new" && c.args.len() == 1 {
                    if let Expr::Unary(u) = &c.args[0] {
                        if let Expr::Path(cp) = &*u.expr {
                            return Ok(format!("(Sm9.Fq.ofNat Consts.{})", path_str(&cp.path)));
                        }
                    }
                }
                // `Fq::from_slice(&CONST).unwrap()` in groups.rs (`fields::Fq`: the strict 32-byte decoder) on a 32-byte source
                // constant below q (Proofs/Consts.lean `consts_lt_q`): the element with that value
                if path_str(&p.path) == "Fq::from_slice" && c.args.len() == 1 && !cx.lib {
                    if let Expr::Reference(r) = &c.args[0] {
                        if let Expr::Path(cp) = &*r.expr {
                            let n = path_str(&cp.path);
                            if cp.path.segments.len() == 1 && n.chars().all(|ch| ch.is_ascii_uppercase() || ch.is_ascii_digit() || ch == '_') {
                                return Ok(format!("(Sm9.Fq.ofNat Consts.{})", n));
                            }
                        }
                    }
                }
                // `Fq::from_str("5").expect(..)`: a decimal literal — `from_str` reduces modulo q and cannot fail on digits
                if path_str(&p.path) == "Fq::from_str" && c.args.len() == 1 {
                    if let Expr::Lit(ExprLit { lit: Lit::Str(st), .. }) = &c.args[0] {
                        let d = st.value();
                        if !d.is_empty() && d.len() <= 70 && d.chars().all(|ch| ch.is_ascii_digit()) {
                            return Ok(format!("(Sm9.Fq.ofNat {})", d));
                        }
                    }
                }
            }
        }
        if !cx.outcome { return Err("unwrap outside an Outcome function".into()); }
        let inner = expr(cx, &m.receiver)?;
        let k = cx.fresh.get(); cx.fresh.set(k + 1);
        let v = format!("u{}", k);
        cx.binds.borrow_mut().push((v.clone(), format!("Outcome.unwrap {}", paren(&inner))));
        return Ok(v);
    }
    let recv = expr(cx, &m.receiver)?;
    if name == "and_then" && m.args.len() == 1 {
        // `opt.and_then(|w| { .. })`: `Option.bind opt (fun w => ..)`; the closure body is a function body returning `Option`
        // (its own `?` / `return`).  A closure that assigns captured variables is accepted only in tail position, where the
        // assignment cannot be observed after the call (see `stmts`).
        let Expr::Closure(c) = &m.args[0] else { return Err("and_then of non-closure".into()) };
        if cx.outcome { return Err("and_then in an Outcome function".into()); }
        let assigned = captured_assigns(c)?;
        if !assigned.is_empty() && !(tail && !cx.mut_self && !cx.unit_ret) {
            return Err(format!("closure assigns captured variable(s) {} and is not in tail position", assigned.into_iter().collect::<Vec<_>>().join(", ")));
        }
        let p = closure_param(c)?;
        let ind = cx.ind.get();
        let sub = Ctx { ret_option: true, ret_result: false, mut_self: false, unit_ret: false, some_tail: false, binds: Default::default(), tries: Default::default(), try_scope: std::cell::Cell::new(false), ..cx.clone() };
        sub.top_last.set(match &*c.body { Expr::Block(b) => b.block.stmts.last().map_or(std::ptr::null(), |x| x as *const Stmt), _ => std::ptr::null() });
        let body = match &*c.body {
            Expr::Block(b) => stmts(&sub, &b.block.stmts, ind + 2, None)?,
            o => format!("{}{}", " ".repeat(ind + 2), expr(&sub, o)?),
        };
        cx.fresh.set(sub.fresh.get());
        return Ok(format!("(Option.bind {} (fun {} =>\n{}))", paren(&recv), p, body));
    }
    if name == "map" && m.args.len() == 1 {
        if let Expr::Closure(c) = &m.args[0] {
            closure_guard(c)?;
            // `.map(|a| a.f())` with an Outcome-valued `f`: a panic inside the closure propagates
            if let Expr::MethodCall(inner) = &*c.body {
                if OUTCOME_METHODS.contains(&inner.method.to_string().as_str()) && inner.args.is_empty() {
                    if !cx.outcome { return Err("Outcome closure outside an Outcome function".into()); }
                    let a = match c.inputs.first() { Some(Pat::Ident(i)) => ident(&i.ident.to_string()), _ => return Err("closure pattern".into()) };
                    let sub = Ctx { outcome: false, binds: Default::default(), ..cx.clone() };
                    let callee = expr(&sub, &inner.receiver)?;
                    let k = cx.fresh.get(); cx.fresh.set(k + 1);
                    let v = format!("u{}", k);
                    cx.binds.borrow_mut().push((v.clone(), format!("(match {} with | none => pure none | some {} => do let v ← {}.{}; pure (some v))", recv, a, paren(&callee), inner.method)));
                    return Ok(v);
                }
            }
            let ps: Vec<String> = c.inputs.iter().map(|p| match p { Pat::Ident(i) => ident(&i.ident.to_string()), _ => "_".into() }).collect();
            if has_try(&c.body) { return Err("`?` inside a `map` closure".into()); }
            return Ok(format!("(Option.map (fun {} => {}) {})", ps.join(" "), in_closure(cx, || expr(cx, &c.body))?, paren(&recv)));
        }
        return Err("map of non-closure".into());
    }
    let args: R<Vec<String>> = m.args.iter().map(|a| expr(cx, a)).collect();
    let args = args?;
    Ok(match (name.as_str(), args.len()) {
        ("neg", 0) => format!("(-{})", recv),
        ("mul", 1) => format!("({} * {})", recv, args[0]),
        ("x", 0) | ("y", 0) | ("z", 0) => format!("{}.{}", recv, name),
        ("map", 1) => {
            if let Expr::Closure(c) = &m.args[0] {
                let ps: Vec<String> = c.inputs.iter().map(|p| match p { Pat::Ident(i) => ident(&i.ident.to_string()), _ => "_".into() }).collect();
                format!("(Option.map (fun {} => {}) {})", ps.join(" "), expr(cx, &c.body)?, recv)
            } else { return Err("map of non-closure".into()) }
        }
        ("frobenius_map", 1) => {
            match lit_int(&m.args[0]) {
                Some(k) => format!("{}.frob{}", recv, k),
                None => return Err("frobenius_map with non-literal power".into()),
            }
        }
        ("pow", 1) if !matches!(&*m.receiver, Expr::Path(_)) || true => {
            // Fq12::pow(u128) of pairings.rs
            format!("({}.pow_u128 {})", recv, args[0])
        }
        ("point_pi1", 0) | ("point_pi2", 0) | ("g_tangent", 0) => format!("(Sm9.G2m.{} {})", name, paren(&recv)),
        ("eval_g_tangent", 1) | ("eval_g_line", 2) | ("q_power_frobenius", 1) | ("g_line", 1) =>
            format!("(Sm9.G2m.{} {} {})", name, paren(&recv), args.iter().map(|a| paren(a)).collect::<Vec<_>>().join(" ")),
        ("is_none", 0) => format!("{}.isNone", paren(&recv)),
        ("is_some", 0) => format!("{}.isSome", paren(&recv)),
        ("iter", 0) => recv,
        ("clone", 0) => recv,
        ("is_empty", 0) => format!("{}.isEmpty", paren(&recv)),
        ("leading_zeros", 0) => format!("(128 - Sm9.bitLen {})", paren(&recv)),     // on a `u128`
        ("get_fq12", 3) => format!("(Sm9.G2Prepared.get_fq12 {})", args.iter().map(|a| paren(a)).collect::<Vec<_>>().join(" ")),
        (n, _) if OUTCOME_METHODS.contains(&n) || n == "miller_loop" => {
            if !cx.outcome { return Err("Outcome call outside an Outcome function".into()); }
            let k = cx.fresh.get(); cx.fresh.set(k + 1);
            let v = format!("u{}", k);
            let callee = if n == "miller_loop" { if is_prepared(cx, &m.receiver) { "Sm9.G2Prepared.miller_loop".to_string() } else { "Sm9.G2m.miller_loop".to_string() } } else { format!("Sm9.Fq12.{}", n) };
            cx.binds.borrow_mut().push((v.clone(), format!("{} {} {}", callee, paren(&recv), args.iter().map(|a| paren(a)).collect::<Vec<_>>().join(" ")).trim_end().to_string()));
            v
        }
        ("unitary_inverse", 0) | ("squared", 0) | ("double", 0) | ("triple", 0) | ("inverse", 0) | ("is_zero", 0)
        | ("div2", 0) | ("mul_by_nonresidue", 0) | ("to_affine", 0) | ("to_jacobian", 0) | ("real", 0) | ("imaginary", 0)
        | ("final_exponentiation_first_chunk", 0) => format!("{}.{}", paren(&recv), name),
        (_, n) if n > 0 => format!("({}.{} {})", paren(&recv), ident(&name), args.join(" ")),
        _ => format!("{}.{}", paren(&recv), ident(&name)),
    })
}

/// receiver of `.miller_loop(..)`: a `G2Prepared` (variable bound from `G2Prepared::from`, or `self` inside `impl G2Prepared`)
fn is_prepared(cx: &Ctx, e: &Expr) -> bool {
    match e {
        Expr::Path(p) => { let s = path_str(&p.path); (s == "self" && cx.self_ty == "G2Prepared") || cx.group_vars.borrow().contains(&format!("prepared:{}", s)) }
        Expr::Paren(p) => is_prepared(cx, &p.expr),
        Expr::Reference(r) => is_prepared(cx, &r.expr),
        _ => false,
    }
}

fn paren(s: &str) -> String {
    if s.chars().all(|c| c.is_alphanumeric() || c == '_' || c == '.') { s.to_string() } else { format!("({})", s) }
}

fn pat_str(p: &Pat) -> R<String> {
    Ok(match p {
        Pat::Ident(i) => ident(&i.ident.to_string()),
        Pat::Tuple(t) => { let v: R<Vec<String>> = t.elems.iter().map(pat_str).collect(); format!("({})", v?.join(", ")) }
        Pat::Wild(_) => "_".into(),
        Pat::Type(t) => pat_str(&t.pat)?,
        Pat::Reference(r) => pat_str(&r.pat)?,          // `for &d in xs.iter()`: references are transparent (value semantics)
        Pat::Paren(p) => pat_str(&p.pat)?,
        _ => return Err("pattern".into()),
    })
}

fn lhs_str(cx: &Ctx, e: &Expr) -> R<String> {
    Ok(match e {
        Expr::Path(p) => ident(&path_str(&p.path)),
        Expr::Unary(u) if matches!(u.op, UnOp::Deref(_)) => lhs_str(cx, &u.expr)?,
        Expr::Tuple(t) => { let v: R<Vec<String>> = t.elems.iter().map(|x| lhs_str(cx, x)).collect(); format!("({})", v?.join(", ")) }
        _ => return Err("assignment target".into()),
    })
}

/// emit pending Outcome binds in front of `line`
fn flush(cx: &Ctx, pad: &str, out: &mut String) {
    for (v, e) in cx.binds.borrow_mut().drain(..) {
        // `\u{2}`: a pure (non-Outcome) hoisted binding — the draws of `fn random(rng)`
        if let Some(pure) = e.strip_prefix('\u{2}') { writeln!(out, "{}let {} := {}", pad, v, pure).unwrap(); }
        else { writeln!(out, "{}let {} ← {}", pad, v, e).unwrap(); }
    }
}

fn assigned_vars(b: &Block, acc: &mut BTreeSet<String>, declared: &mut BTreeSet<String>) {
    for st in &b.stmts {
        match st {
            Stmt::Local(l) => {
                if let Some(init) = &l.init { if let Some(r) = mut_self_call(&init.expr) { if !declared.contains(&r) { acc.insert(r); } } }
                if let Ok(p) = pat_str(&l.pat) { for v in p.replace(['(', ')', ','], " ").split_whitespace() { declared.insert(v.to_string()); } }
            }
            Stmt::Expr(e, _) => assigned_in_expr(e, acc, declared),
            _ => {}
        }
    }
}
/// `p.g_tangent()` / `p.g_line(&q)` on a plain variable: `&mut self` methods of pairings.rs — the call also rebinds `p`
fn mut_self_call(e: &Expr) -> Option<String> {
    if let Expr::MethodCall(m) = e {
        let n = m.method.to_string();
        if n == "g_tangent" || n == "g_line" {
            if let Expr::Path(p) = &*m.receiver { return Some(ident(&path_str(&p.path))); }
        }
    }
    None
}

fn assigned_in_expr(e: &Expr, acc: &mut BTreeSet<String>, declared: &mut BTreeSet<String>) {
    match e {
        Expr::MethodCall(m) if m.method == "push" || m.method == "normalize" || m.method == "copy_from_slice" => collect_lhs(&m.receiver, acc, declared),
        Expr::Binary(b) if matches!(b.op, BinOp::BitOrAssign(_)) => collect_lhs(&b.left, acc, declared),
        Expr::Assign(a) => { collect_lhs(&a.left, acc, declared); }
        Expr::Binary(b) if matches!(b.op, BinOp::AddAssign(_) | BinOp::SubAssign(_) | BinOp::MulAssign(_) | BinOp::ShrAssign(_)) => collect_lhs(&b.left, acc, declared),
        Expr::If(i) => {
            let mut d2 = declared.clone();
            assigned_vars(&i.then_branch, acc, &mut d2);
            if let Some((_, el)) = &i.else_branch { assigned_in_expr(el, acc, declared) }
        }
        Expr::Block(b) => { let mut d2 = declared.clone(); assigned_vars(&b.block, acc, &mut d2) }
        _ => {}
    }
}
fn collect_lhs(e: &Expr, acc: &mut BTreeSet<String>, declared: &BTreeSet<String>) {
    match e {
        Expr::Path(p) => { let n = ident(&path_str(&p.path)); if !declared.contains(&n) { acc.insert(n); } }
        Expr::Unary(u) => collect_lhs(&u.expr, acc, declared),
        Expr::Tuple(t) => for x in &t.elems { collect_lhs(x, acc, declared) },
        Expr::Field(f) => collect_lhs(&f.base, acc, declared),
        Expr::Index(ix) => collect_lhs(&ix.expr, acc, declared),
        _ => {}
    }
}

/// translate a block; `tail`: what to append after the last statement when the block does not end in an expression
fn block(cx: &Ctx, b: &Block, ind: usize, tail: Option<&str>) -> R<String> {
    stmts(cx, &b.stmts, ind, tail)
}

fn wrap_result(cx: &Ctx, e: String) -> String {
    let e = if cx.mut_self { format!("(self, {})", e) } else { e };
    let e = if !cx.rng.is_empty() { format!("({}, {})", ident(&cx.rng), e) } else { e };
    if cx.outcome { format!("pure {}", paren(&e)) } else { e }
}

fn stmts(cx: &Ctx, ss: &[Stmt], ind: usize, tail: Option<&str>) -> R<String> {
    let pad = " ".repeat(ind);
    let mut out = String::new();
    if ss.is_empty() {
        return Ok(format!("{}{}", pad, tail.ok_or("empty block without tail")?));
    }
    let (st, rest) = (&ss[0], &ss[1..]);
    let last = rest.is_empty();
    cx.ind.set(ind);
    cx.tail_call.set(false);
    match st {
        Stmt::Local(l) => {
            let name = pat_str(&l.pat)?;
            if let Some(init) = &l.init {
                if init.diverge.is_some() { return Err("let-else".into()); }
                // `let m = opt.map(|t| { y = t; });`
                if let Some(text) = assigning_map(cx, &init.expr, &name, ind)? {
                    flush(cx, &pad, &mut out);
                    out.push_str(&text);
                    out.push_str(&stmts(cx, rest, ind, tail)?);
                    return Ok(out);
                }
                // `let z = <expression with nested ?>;`
                if !matches!(&*init.expr, Expr::Try(t) if !has_try(&t.expr)) && has_try(&init.expr) && cx.ret_option && !cx.outcome {
                    let v = opt_expr(cx, &init.expr, ind)?;
                    cx.group_vars.borrow_mut().remove(&name);
                    writeln!(out, "{}Option.bind {} (fun {} =>", pad, v, name).unwrap();
                    out.push_str(&stmts(cx, rest, ind, tail)?);
                    out.push(')');
                    return Ok(out);
                }
            }
            match &l.init {
                None => { /* `let x;` declared, assigned later */ cx.uninit.borrow_mut().insert(name.clone()); out.push_str(&stmts(cx, rest, ind, tail)?); return Ok(out); }
                Some(init) => {
                    // `let b = e?;`
                    if let Expr::Try(t) = &*init.expr {
                        // `let x = e.ok_or(ERR)?;` in a function returning Result
                        if let Expr::MethodCall(mc) = &*t.expr {
                            if mc.method == "ok_or" && mc.args.len() == 1 && cx.ret_result {
                                let inner = expr(cx, &mc.receiver)?;
                                let err = expr(cx, &mc.args[0])?;
                                flush(cx, &pad, &mut out);
                                writeln!(out, "{}match {} with", pad, inner).unwrap();
                                writeln!(out, "{}| none => Except.error {}", pad, err).unwrap();
                                writeln!(out, "{}| some {} =>", pad, name).unwrap();
                                out.push_str(&stmts(cx, rest, ind + 2, tail)?);
                                return Ok(out);
                            }
                        }
                        let inner = expr(cx, &t.expr)?;
                        flush(cx, &pad, &mut out);
                        if !cx.ret_option { return Err("`?` in a function not returning Option".into()); }
                        writeln!(out, "{}match {} with", pad, inner).unwrap();
                        writeln!(out, "{}| none => {}", pad, if cx.outcome { "pure none" } else { "none" }).unwrap();
                        writeln!(out, "{}| some {} =>", pad, name).unwrap();
                        out.push_str(&stmts(cx, rest, ind + 2, tail)?);
                        return Ok(out);
                    }
                    if let Expr::Match(mm) = &*init.expr {
                        // `let v = match e { Some(a) => a, None => return };`
                        if mm.arms.len() == 2 && cx.unit_ret && mm.arms.iter().all(|a| a.guard.is_none()) {
                            let some_arm = mm.arms.iter().find(|a| matches!(&a.pat, Pat::TupleStruct(ts) if path_str(&ts.path) == "Some"));
                            let none_arm = mm.arms.iter().find(|a| matches!(&a.pat, Pat::Ident(i) if i.ident == "None") || matches!(&a.pat, Pat::Path(pp) if path_str(&pp.path) == "None"));
                            if let (Some(sa), Some(na)) = (some_arm, none_arm) {
                                if matches!(&*na.body, Expr::Return(r) if r.expr.is_none()) {
                                    let Pat::TupleStruct(ts) = &sa.pat else { return Err("let-match pattern".into()) };
                                    let bound = pat_str(&ts.elems[0])?;
                                    let scrut = expr(cx, &mm.expr)?;
                                    let val = expr(cx, &sa.body)?;
                                    flush(cx, &pad, &mut out);
                                    writeln!(out, "{}match {} with", pad, scrut).unwrap();
                                    writeln!(out, "{}| none => self", pad).unwrap();
                                    writeln!(out, "{}| some {} =>", pad, bound).unwrap();
                                    writeln!(out, "{}  let {} := {}", pad, name, val).unwrap();
                                    out.push_str(&stmts(cx, rest, ind + 2, tail)?);
                                    return Ok(out);
                                }
                            }
                        }
                    }
                    let e = expr(cx, &init.expr)?;
                    flush(cx, &pad, &mut out);
                    if let Expr::Call(c) = &*init.expr { if let Expr::Path(p) = &*c.func { if path_str(&p.path) == "G2Prepared::from" { cx.group_vars.borrow_mut().insert(format!("prepared:{}", name)); } } }
                    let declared_group = match &l.pat { Pat::Type(t) => { let ts = quote::quote!(#t).to_string(); ts.contains(": G <") || ts.ends_with(": G1") || ts.ends_with(": G2") } _ => false };
                    if declared_group || is_group(cx, &init.expr) { cx.group_vars.borrow_mut().insert(name.clone()); } else { cx.group_vars.borrow_mut().remove(&name); }
                    if cx.lib { if is_num(cx, &init.expr) { cx.group_vars.borrow_mut().insert(format!("num:{}", name)); } else { cx.group_vars.borrow_mut().remove(&format!("num:{}", name)); } }
                    match mut_self_call(&init.expr) {
                        Some(r) => writeln!(out, "{}let ({}, {}) := {}", pad, r, name, e).unwrap(),
                        None => writeln!(out, "{}let {} := {}", pad, name, e).unwrap(),
                    }
                }
            }
        }
        Stmt::Expr(e, semi) => {
            match e {
                Expr::Return(r) if r.expr.is_none() && cx.unit_ret => {
                    flush(cx, &pad, &mut out);
                    write!(out, "{}self", pad).unwrap();
                    return Ok(out);
                }
                Expr::Return(_) if cx.some_tail => return Err("`return` inside an Option-valued block".into()),
                Expr::Return(r) if matches!(r.expr.as_deref(), Some(Expr::Match(_))) => {
                    // `return match .. { .. };`
                    let Some(Expr::Match(mm)) = r.expr.as_deref() else { unreachable!() };
                    let saved_tail = cx.fn_tail.replace(true);
                    let v = match_expr(cx, mm, ind);
                    cx.fn_tail.set(saved_tail);
                    let v = v?;
                    flush(cx, &pad, &mut out);
                    write!(out, "{}({})", pad, v.trim_start()).unwrap();
                    return Ok(out);
                }
                Expr::Return(r) => {
                    cx.tail_call.set(matches!(r.expr.as_deref(), Some(Expr::MethodCall(mc)) if mc.method == "and_then"));
                    let v = expr(cx, r.expr.as_ref().ok_or("bare return")?)?;
                    flush(cx, &pad, &mut out);
                    write!(out, "{}{}", pad, wrap_result(cx, v)).unwrap();
                    return Ok(out);
                }
                Expr::Assign(a) if cx.lib && matches!(&*a.left, Expr::Index(_)) => {
                    let Expr::Index(ix) = &*a.left else { unreachable!() };
                    let base = lhs_str(cx, &ix.expr)?;
                    let i = expr(cx, &ix.index)?;
                    let v = expr(cx, &a.right)?;
                    flush(cx, &pad, &mut out);
                    writeln!(out, "{}let {} := {}.set {} (UInt8.ofNat {})", pad, base, base, i, paren(&v)).unwrap();
                }
                Expr::Assign(a) if cx.lib && matches!(&*a.left, Expr::Field(f) if matches!(&f.member, Member::Unnamed(i) if i.index == 0)) => {
                    let Expr::Field(f) = &*a.left else { unreachable!() };
                    let base = lhs_str(cx, &f.base)?;
                    let v = expr(cx, &a.right)?;
                    flush(cx, &pad, &mut out);
                    writeln!(out, "{}let {} := {}", pad, base, v).unwrap();
                }
                Expr::Binary(b) if cx.lib && matches!(b.op, BinOp::BitOrAssign(_)) && matches!(&*b.left, Expr::Index(_)) => {
                    let Expr::Index(ix) = &*b.left else { unreachable!() };
                    let base = lhs_str(cx, &ix.expr)?;
                    let i = expr(cx, &ix.index)?;
                    let v = expr(cx, &b.right)?;
                    flush(cx, &pad, &mut out);
                    writeln!(out, "{}let {} := {}.set {} (UInt8.ofNat (({}.getD {} 0).toNat ||| {}))", pad, base, base, i, base, i, paren(&v)).unwrap();
                }
                Expr::MethodCall(m) if cx.lib && m.method == "copy_from_slice" && m.args.len() == 1 => {
                    let Expr::Index(ix) = &*m.receiver else { return Err("copy_from_slice target".into()) };
                    let base = lhs_str(cx, &ix.expr)?;
                    let Expr::Range(r) = &*ix.index else { return Err("copy_from_slice range".into()) };
                    let lo = match &r.start { Some(a) => expr(cx, a)?, None => "0".into() };
                    let hi = match &r.end { Some(b) => format!("(some {})", expr(cx, b)?), None => "none".into() };
                    let src = expr(cx, &m.args[0])?;
                    if !cx.outcome { return Err("copy_from_slice outside an Outcome function".into()); }
                    flush(cx, &pad, &mut out);
                    writeln!(out, "{}let {} ← Sm9.sliceCopy {} {} {} {}", pad, base, base, lo, hi, paren(&src)).unwrap();
                }
                Expr::MethodCall(m) if cx.lib && m.method == "normalize" && m.args.is_empty() => {
                    let l = lhs_str(cx, &m.receiver)?;
                    flush(cx, &pad, &mut out);
                    writeln!(out, "{}let {} := Sm9.Api.normalize {}", pad, l, l).unwrap();
                }
                Expr::Assign(a) if cx.lib && place_mut(&a.left).is_some() => {
                    // `*self.0.x_mut() = v`  →  let self := { self with x := v }
                    let (base_e, field) = place_mut(&a.left).unwrap();
                    let base = lhs_str(cx, base_e)?;
                    let v = expr(cx, &a.right)?;
                    flush(cx, &pad, &mut out);
                    writeln!(out, "{}let {} := {{ {} with {} := {} }}", pad, base, base, field, v).unwrap();
                }
                Expr::Assign(a) if matches!(&*a.right, Expr::Try(t) if !has_try(&t.expr)) && matches!(&*a.left, Expr::Path(_)) => {
                    // `y = e?;`
                    let Expr::Try(t) = &*a.right else { unreachable!() };
                    if !cx.ret_option || cx.outcome { return Err("`?` in a function not returning Option".into()); }
                    let l = lhs_str(cx, &a.left)?;
                    let inner = expr(cx, &t.expr)?;
                    writeln!(out, "{}match {} with", pad, inner).unwrap();
                    writeln!(out, "{}| none => none", pad).unwrap();
                    writeln!(out, "{}| some {} =>", pad, l).unwrap();
                    out.push_str(&stmts(cx, rest, ind + 2, tail)?);
                    return Ok(out);
                }
                Expr::MethodCall(mc) if semi.is_some() && mc.method == "map" && assigning_map(cx, e, "_", ind)?.is_some() => {
                    let text = assigning_map(cx, e, "_", ind)?.unwrap();
                    flush(cx, &pad, &mut out);
                    out.push_str(&text);
                }
                Expr::Assign(a) => {
                    if has_try(&a.right) { return Err("`?` nested in an assignment".into()); }
                    if let Expr::Field(f) = &*a.left {
                        // num.c0 = e   →  let num := { num with c0 := e }
                        let base = lhs_str(cx, &f.base)?;
                        let m = match &f.member { Member::Named(i) => i.to_string(), _ => return Err("tuple field assignment".into()) };
                        let v = expr(cx, &a.right)?;
                        flush(cx, &pad, &mut out);
                        writeln!(out, "{}let {} := {{ {} with {} := {} }}", pad, base, base, m, v).unwrap();
                    } else {
                        let l = lhs_str(cx, &a.left)?;
                        let v = expr(cx, &a.right)?;
                        flush(cx, &pad, &mut out);
                        writeln!(out, "{}let {} := {}", pad, l, v).unwrap();
                    }
                }
                Expr::MethodCall(m) if m.method == "push" && m.args.len() == 1 => {
                    let l = lhs_str(cx, &m.receiver)?;
                    let v = expr(cx, &m.args[0])?;
                    flush(cx, &pad, &mut out);
                    writeln!(out, "{}let {} := {} ++ [{}]", pad, l, l, v).unwrap();
                }
                Expr::Binary(b) if matches!(b.op, BinOp::ShrAssign(_)) => {
                    let l = lhs_str(cx, &b.left)?;
                    let v = expr(cx, &b.right)?;
                    flush(cx, &pad, &mut out);
                    writeln!(out, "{}let {} := {} >>> {}", pad, l, l, v).unwrap();
                }
                Expr::Binary(b) if matches!(b.op, BinOp::AddAssign(_) | BinOp::SubAssign(_) | BinOp::MulAssign(_)) => {
                    let l = lhs_str(cx, &b.left)?;
                    let v = expr(cx, &b.right)?;
                    let op = match b.op { BinOp::AddAssign(_) => "+", BinOp::SubAssign(_) => "-", _ => "*" };
                    flush(cx, &pad, &mut out);
                    writeln!(out, "{}let {} := {} {} {}", pad, l, l, op, v).unwrap();
                }
                Expr::If(i) if semi.is_some() || !last || i.else_branch.is_none() || block_is_unit(&i.then_branch) => {
                    // statement-level if.  Case A: branch ends in `return` → if c then <branch> else <rest>
                    let c = expr(cx, &i.cond)?;
                    flush(cx, &pad, &mut out);
                    let ends_in_return = matches!(i.then_branch.stmts.last(), Some(Stmt::Expr(Expr::Return(_), _)));
                    if ends_in_return && i.else_branch.is_none() {
                        writeln!(out, "{}if {} then", pad, c).unwrap();
                        out.push_str(&stmts(cx, &i.then_branch.stmts, ind + 2, None)?);
                        writeln!(out, "\n{}else", pad).unwrap();
                        out.push_str(&stmts(cx, rest, ind, tail)?);
                        return Ok(out);
                    }
                    // Case A': the branch returns on some paths and falls through otherwise: duplicate the continuation
                    if i.else_branch.is_none() && contains_return(&i.then_branch) {
                        let mut joined: Vec<Stmt> = i.then_branch.stmts.clone();
                        joined.extend(rest.iter().cloned());
                        writeln!(out, "{}if {} then", pad, c).unwrap();
                        out.push_str(&stmts(cx, &joined, ind + 2, tail)?);
                        writeln!(out, "\n{}else", pad).unwrap();
                        out.push_str(&stmts(cx, rest, ind + 2, tail)?);
                        return Ok(out);
                    }
                    // Case B: assignments only → tuple of assigned variables
                    let mut acc = BTreeSet::new();
                    let mut decl = BTreeSet::new();
                    assigned_vars(&i.then_branch, &mut acc, &mut decl);
                    let mut else_chain: Vec<(Option<String>, &Block)> = vec![];
                    let mut cur = &i.else_branch;
                    while let Some((_, el)) = cur {
                        match &**el {
                            Expr::If(i2) => { let mut d = BTreeSet::new(); assigned_vars(&i2.then_branch, &mut acc, &mut d); else_chain.push((Some(expr(cx, &i2.cond)?), &i2.then_branch)); cur = &i2.else_branch; }
                            Expr::Block(bk) => { let mut d = BTreeSet::new(); assigned_vars(&bk.block, &mut acc, &mut d); else_chain.push((None, &bk.block)); break; }
                            _ => return Err("else branch".into()),
                        }
                    }
                    if acc.is_empty() { return Err("statement `if` without assignments or return".into()); }
                    let vars: Vec<String> = acc.into_iter().collect();
                    let tup = if vars.len() == 1 { vars[0].clone() } else { format!("({})", vars.join(", ")) };
                    // branches are translated first: if any of them binds (a panic site inside), the whole `if` is monadic
                    let mut parts: Vec<(Option<String>, String)> = vec![(Some(c.clone()), stmts(cx, &i.then_branch.stmts, ind + 4, Some("\u{1}"))?)];
                    let mut closed = false;
                    for (cnd, bk) in &else_chain {
                        parts.push((cnd.clone(), stmts(cx, &bk.stmts, ind + 4, Some("\u{1}"))?));
                        if cnd.is_none() { closed = true; }
                    }
                    let monadic = parts.iter().any(|(_, b)| b.contains('←'));
                    // a `?` inside a branch (`if c { y = e?; }`): the `if` is an Option-valued expression, bound by `Option.bind`
                    let optional = has_try(i);
                    if optional && (monadic || !cx.ret_option || cx.outcome || has_try(&i.cond)) { return Err("`?` inside a statement `if`".into()); }
                    let fin = if monadic { format!("pure {}", paren(&tup)) } else if optional { format!("(some {})", tup) } else { tup.clone() };
                    if optional { writeln!(out, "{}Option.bind (", pad).unwrap(); } else {
                    writeln!(out, "{}let {} {}", pad, tup, if monadic { "←" } else { ":=" }).unwrap(); }
                    for (k, (cnd, body)) in parts.iter().enumerate() {
                        let body = body.replace('\u{1}', &fin);
                        let body = if monadic { format!("{}do\n{}", " ".repeat(ind + 4), body.lines().map(|l| format!("  {}", l)).collect::<Vec<_>>().join("\n")) } else { body };
                        match (k, cnd) {
                            (0, Some(c0)) => { writeln!(out, "{}  if {} then", pad, c0).unwrap(); out.push_str(&body); }
                            (_, Some(c2)) => { writeln!(out, "\n{}  else if {} then", pad, c2).unwrap(); out.push_str(&body); }
                            (_, None) => { writeln!(out, "\n{}  else", pad).unwrap(); out.push_str(&body); }
                        }
                    }
                    if !closed { writeln!(out, "\n{}  else {}", pad, fin).unwrap(); } else { writeln!(out).unwrap(); }
                    if optional {
                        out.truncate(out.trim_end().len());
                        writeln!(out, ") (fun {} =>", tup).unwrap();
                        out.push_str(&stmts(cx, rest, ind, tail)?);
                        out.push(')');
                        return Ok(out);
                    }
                }
                Expr::While(w) => {
                    // `while c { body }` over the variables the body assigns; fuel 128 = width of the only loop
                    // counters in the translated code (u128 exponents shifted right once per iteration) — the same
                    // fuel as the model's, whose sufficiency is a theorem (C17 `pow_u128_eq`)
                    let mut acc = BTreeSet::new();
                    let mut decl = BTreeSet::new();
                    assigned_vars(&w.body, &mut acc, &mut decl);
                    let vars: Vec<String> = acc.into_iter().collect();
                    if vars.is_empty() { return Err("while loop without assigned variables".into()); }
                    let tup = if vars.len() == 1 { vars[0].clone() } else { format!("({})", vars.join(", ")) };
                    let c = expr(cx, &w.cond)?;
                    if !cx.binds.borrow().is_empty() { return Err("panic site in a while condition".into()); }
                    let body = stmts(cx, &w.body.stmts, ind + 4, Some(&tup))?;
                    if body.contains('←') { return Err("panic site inside a while loop".into()); }
                    flush(cx, &pad, &mut out);
                    writeln!(out, "{}let {} := Sm9.whileFuel 128 (fun {} => {}) (fun {} =>", pad, tup, tup, c, tup).unwrap();
                    out.push_str(&body);
                    writeln!(out, ") {}", tup).unwrap();
                }
                Expr::ForLoop(f) => {
                    let var = pat_str(&f.pat)?;
                    let it = for_iter(cx, &f.expr)?;
                    let mut acc = BTreeSet::new();
                    let mut decl = BTreeSet::new();
                    decl.insert(var.clone());
                    assigned_vars(&f.body, &mut acc, &mut decl);
                    let vars: Vec<String> = acc.into_iter().filter(|v| !cx.uninit.borrow().contains(v)).collect();
                    if vars.is_empty() { return Err("for loop without assigned variables".into()); }
                    let tup = if vars.len() == 1 { vars[0].clone() } else { format!("({})", vars.join(", ")) };
                    flush(cx, &pad, &mut out);
                    let body = stmts(cx, &f.body.stmts, ind + 4, Some("\u{1}"))?;
                    if body.contains('←') {
                        // a panic site inside the loop body: monadic fold
                        writeln!(out, "{}let {} ← List.foldlM (fun {} {} => do", pad, tup, tup, var).unwrap();
                        out.push_str(&body.replace('\u{1}', &format!("pure {}", paren(&tup))));
                    } else {
                        writeln!(out, "{}let {} := List.foldl (fun {} {} =>", pad, tup, tup, var).unwrap();
                        out.push_str(&body.replace('\u{1}', &tup));
                    }
                    writeln!(out, ") {} {}", tup, paren(&it)).unwrap();
                }
                Expr::Match(_) if last && cx.some_tail => return Err("match as the value of an Option-valued block".into()),
                Expr::Match(m) if last => {
                    // tail position of the function: the last statement of the function body, or the last statement of an arm
                    // block of such a match
                    let is_tail = std::ptr::eq(st as *const Stmt, cx.top_last.get());
                    let saved_tail = cx.fn_tail.replace(is_tail);
                    let v = match_expr(cx, m, ind);
                    cx.fn_tail.set(saved_tail);
                    let v = v?;
                    flush(cx, &pad, &mut out);
                    write!(out, "{}", v).unwrap();
                    return Ok(out);
                }
                other if last && semi.is_none() && cx.some_tail => {
                    let v = opt_expr(cx, other, ind)?;
                    write!(out, "{}{}", pad, v).unwrap();
                    return Ok(out);
                }
                other if last && semi.is_none() => {
                    cx.tail_call.set(std::ptr::eq(st as *const Stmt, cx.top_last.get()) && matches!(other, Expr::MethodCall(mc) if mc.method == "and_then"));
                    let v = expr(cx, other)?;
                    let tail_bind = { let b = cx.binds.borrow(); match b.last() { Some((bv, _)) if *bv == v && !cx.mut_self => true, _ => false } };
                    if tail_bind {
                        let (_, rhs) = cx.binds.borrow_mut().pop().unwrap();
                        flush(cx, &pad, &mut out);
                        write!(out, "{}{}", pad, rhs).unwrap();
                        return Ok(out);
                    }
                    flush(cx, &pad, &mut out);
                    write!(out, "{}{}", pad, wrap_result(cx, v)).unwrap();
                    return Ok(out);
                }
                other => return Err(format!("unsupported statement: {}", quote::quote!(#other).to_string().chars().take(80).collect::<String>())),
            }
        }
        other => return Err(format!("unsupported stmt: {}", quote::quote!(#other).to_string().chars().take(60).collect::<String>())),
    }
    out.push_str(&stmts(cx, rest, ind, tail)?);
    Ok(out)
}

/// `*BASE.x_mut()` / `y_mut` / `z_mut` (lib.rs: `BASE` is `self.0`, the newtype projection is the identity): (BASE, field)
fn place_mut(e: &Expr) -> Option<(&Expr, &'static str)> {
    let Expr::Unary(u) = e else { return None };
    if !matches!(u.op, UnOp::Deref(_)) { return None; }
    let Expr::MethodCall(m) = &*u.expr else { return None };
    if !m.args.is_empty() { return None; }
    let field = match m.method.to_string().as_str() { "x_mut" => "x", "y_mut" => "y", "z_mut" => "z", _ => return None };
    let mut base = &*m.receiver;
    loop { match base { Expr::Paren(p) => base = &p.expr, Expr::Field(f) if matches!(&f.member, Member::Unnamed(i) if i.index == 0) => base = &f.base, _ => break } }
    if matches!(base, Expr::Path(_)) { Some((base, field)) } else { None }
}

/// `OPT.map(|t| { y = e; .. })` — a closure whose body only assigns captured variables: a `match` on `OPT` that rebinds them,
/// next to the (unit) result `name : Option Unit`.  `None`: not of this shape.
fn assigning_map(cx: &Ctx, e: &Expr, name: &str, ind: usize) -> R<Option<String>> {
    let Expr::MethodCall(mc) = e else { return Ok(None) };
    if mc.method != "map" || mc.args.len() != 1 { return Ok(None); }
    let Expr::Closure(c) = &mc.args[0] else { return Ok(None) };
    let assigned = captured_assigns(c)?;
    if assigned.is_empty() { return Ok(None); }
    let Expr::Block(b) = &*c.body else { return Err("closure assigns a captured variable in an expression body".into()) };
    let p = closure_param(c)?;
    let pad = " ".repeat(ind);
    let mut lets = String::new();
    let mut vars: BTreeSet<String> = BTreeSet::new();
    for st in &b.block.stmts {
        let Stmt::Expr(Expr::Assign(a), Some(_)) = st else { return Err("closure assigning captured variables: only `x = e;` statements are supported".into()) };
        let Expr::Path(lp) = &*a.left else { return Err("closure assigning captured variables: assignment target".into()) };
        if lp.path.segments.len() != 1 { return Err("closure assigning captured variables: assignment target".into()); }
        if has_try(&a.right) || matches!(&*a.right, Expr::Closure(_)) { return Err("closure assigning captured variables: right-hand side".into()); }
        let l = ident(&path_str(&lp.path));
        let v = in_closure(cx, || expr(cx, &a.right))?;
        if !cx.binds.borrow().is_empty() { return Err("panic site inside a closure".into()); }
        writeln!(lets, "{}    let {} := {}", pad, l, v).unwrap();
        vars.insert(l);
    }
    if vars != assigned.iter().map(|v| ident(v)).collect() { return Err("closure assigning captured variables: unrecognised assignment".into()); }
    if vars.contains(name) || vars.contains(&p) { return Err("closure assigning captured variables: name clash".into()); }
    let recv = expr(cx, &mc.receiver)?;
    let vs: Vec<String> = vars.into_iter().collect();
    let mut out = String::new();
    writeln!(out, "{}let ({}, {}) := match {} with", pad, vs.join(", "), name, recv).unwrap();
    writeln!(out, "{}  | some {} =>", pad, p).unwrap();
    out.push_str(&lets);
    writeln!(out, "{}    ({}, some ())", pad, vs.join(", ")).unwrap();
    writeln!(out, "{}  | none => ({}, none)", pad, vs.join(", ")).unwrap();
    Ok(Some(out))
}

fn block_is_unit(b: &Block) -> bool {
    match b.stmts.last() {
        None => true,
        Some(Stmt::Expr(Expr::Return(_), _)) => false,
        Some(Stmt::Expr(_, None)) => false,
        _ => true,
    }
}

fn contains_return_expr(e: &Expr) -> bool {
    quote::quote!(#e).to_string().split(|c: char| !(c.is_alphanumeric() || c == '_')).any(|t| t == "return")
}

fn contains_return(b: &Block) -> bool {
    quote::quote!(#b).to_string().contains("return ")
}

fn for_iter(cx: &Ctx, e: &Expr) -> R<String> {
    // SM9_LOOP_COUNT.iter()  |  (0..bits).rev()  |  0..2  |  U256::from(other).bits_without_leading_zeros()
    let s = quote::quote!(#e).to_string().replace(' ', "");
    if s == "SM9_LOOP_COUNT.iter()" { return Ok("Consts.SM9_LOOP_COUNT".into()); }
    if s == "(0..bits).rev()" { return Ok("(List.range bits).reverse".into()); }
    if s == "0..2" { return Ok("[0, 1]".into()); }
    if s == "0..4" { return Ok("[0, 1, 2, 3]".into()); }
    if s == "U256::from(other).bits_without_leading_zeros()" { return Ok("(bitsMSB other.val)".into()); }
    // `a..b` with integer literals: the list a, a+1, .., b-1
    if let Expr::Range(rg) = e {
        if let (Some(a), Some(b), RangeLimits::HalfOpen(_)) = (rg.start.as_deref(), rg.end.as_deref(), &rg.limits) {
            if let (Some(x), Some(y)) = (lit_int(a), lit_int(b)) {
                if let (Ok(x), Ok(y)) = (x.parse::<u64>(), y.parse::<u64>()) { if x <= y && y - x <= 64 { return Ok(format!("(List.range' {} {})", x, y - x)); } }
            }
        }
    }
    // `<canonical integer>.bits_without_leading_zeros()` for any expression of that kind (e.g. a `let k = U256::from(other);` before the loop)
    if let Expr::MethodCall(m) = e {
        if m.method == "bits_without_leading_zeros" && m.args.is_empty() {
            let recv = expr(cx, &m.receiver)?;
            return Ok(format!("(bitsMSB {})", paren(&recv)));
        }
    }
    Err(format!("loop iterator {}", s))
}

fn match_expr(cx: &Ctx, m: &ExprMatch, ind: usize) -> R<String> {
    let pad = " ".repeat(ind);
    // Guarded arms (`P if g => B`).  Rust tries the arms in order; a guarded arm whose pattern matches and whose guard is false
    // falls through to the arms after it.  Rendered exactly so: the scrutinee is evaluated once and bound (`let m0 := ..`), the
    // guarded arm is `| P => if g then B else (match m0 with <the other arms that can still match>)`, where the fallback match
    // consists of the earlier *unguarded* arms (none of them matches — otherwise this arm would not have been reached — they
    // only keep the fallback exhaustive) and all later arms (with their guards).  Without a guard nothing changes.
    if m.arms.iter().any(|a| a.guard.is_some()) && !matches!(&*m.expr, Expr::Path(p) if p.path.segments.len() == 1 && path_str(&p.path).starts_with("gm__")) {
        let elems: Vec<&Expr> = match &*m.expr { Expr::Tuple(t) => t.elems.iter().collect(), o => vec![o] };
        let mut lets = String::new();
        let mut names: Vec<Expr> = vec![];
        for x in elems {
            let v = expr(cx, x)?;
            let k = cx.fresh.get(); cx.fresh.set(k + 1);
            let n = format!("gm__{}", k);
            writeln!(lets, "{}let {} := {}", pad, n, v).unwrap();
            let id = Ident::new(&n, proc_macro2::Span::call_site());
            names.push(parse_quote!(#id));
        }
        if !cx.binds.borrow().is_empty() && !cx.outcome { return Err("panic site in the scrutinee of a guarded match".into()); }
        let mut pre = String::new();
        flush(cx, &pad, &mut pre);
        let mut m2 = m.clone();
        m2.expr = Box::new(if names.len() == 1 { names.pop().unwrap() } else { parse_quote!((#(#names),*)) });
        let inner = match_guarded(cx, &m2, ind)?;
        return Ok(format!("{}{}{}", pre, lets, inner));
    }
    if m.arms.iter().any(|a| a.guard.is_some()) { return match_guarded(cx, m, ind); }
    let scrut = match &*m.expr {
        Expr::Tuple(t) => { let v: R<Vec<String>> = t.elems.iter().map(|x| expr(cx, x)).collect(); v?.join(", ") }
        o => expr(cx, o)?,
    };
    let mut s = format!("{}match {} with\n", pad, scrut);
    fn pat_elem(cx: &Ctx, p: &Pat) -> R<String> {
        match p {
            Pat::Lit(l) => expr(cx, &Expr::Lit(ExprLit { attrs: vec![], lit: l.lit.clone() })),
            Pat::Wild(_) => Ok("_".to_string()),
            Pat::TupleStruct(ts) if path_str(&ts.path) == "Some" => Ok(format!("some {}", pat_str(&ts.elems[0])?)),
            Pat::Ident(i) if i.ident == "None" => Ok("none".into()),
            Pat::Path(pp) if path_str(&pp.path) == "None" => Ok("none".into()),
            // `Result` is `Except`
            Pat::TupleStruct(ts) if path_str(&ts.path) == "Ok" && ts.elems.len() == 1 => Ok(format!("Except.ok {}", pat_str(&ts.elems[0])?)),
            Pat::TupleStruct(ts) if path_str(&ts.path) == "Err" && ts.elems.len() == 1 => Ok(format!("Except.error {}", pat_str(&ts.elems[0])?)),
            _ => Err("match pattern".to_string()),
        }
    }
    // `arity`: number of components of a tuple scrutinee (Lean matches them as separate discriminants: a catch-all `_` arm is `_, _`)
    fn pat_top(cx: &Ctx, p: &Pat, arity: usize) -> R<Vec<String>> {
        match p {
            Pat::Or(o) => { let mut v = vec![]; for c in &o.cases { v.extend(pat_top(cx, c, arity)?); } Ok(v) }
            Pat::Tuple(t) => { if t.elems.len() != arity { return Err("tuple pattern arity".into()); } let v: R<Vec<String>> = t.elems.iter().map(|p| pat_elem(cx, p)).collect(); Ok(vec![v?.join(", ")]) }
            Pat::Wild(_) if arity > 1 => Ok(vec![vec!["_"; arity].join(", ")]),
            _ if arity > 1 => Err("non-tuple pattern for a tuple scrutinee".into()),
            other => Ok(vec![pat_elem(cx, other)?]),
        }
    }
    let arity = match &*m.expr { Expr::Tuple(t) => t.elems.len(), _ => 1 };
    for arm in &m.arms {
        // a guard restricts the arm: dropping it would change the meaning (guards are rewritten by `match_guarded` before)
        if arm.guard.is_some() { return Err("match guard".into()); }
        let pats = pat_top(cx, &arm.pat, arity)?;
        // an arm that is `return X` (the match is in tail position of the function: `match_expr` is only used for the last
        // statement of a function body / `return match`, and for the arms `desugar.rs` creates there): its value is X
        let is_tail = cx.fn_tail.get();
        let arm_body: &Expr = match &*arm.body { Expr::Return(r) if r.expr.is_some() && is_tail => r.expr.as_deref().unwrap(), o => o };
        let body = match arm_body {
            Expr::Block(b) => {
                // inside the arm block only its last statement inherits the tail position (`top_last` = the statement whose
                // value is the value of the function)
                let saved_last = cx.top_last.get();
                if is_tail { cx.top_last.set(b.block.stmts.last().map_or(std::ptr::null(), |x| x as *const Stmt)); }
                let r = stmts(cx, &b.block.stmts, ind + 4, None);
                cx.top_last.set(saved_last);
                cx.fn_tail.set(is_tail);
                r?
            }
            o => {
                // an arm is its own scope for hoisted binds
                let saved: Vec<(String, String)> = cx.binds.borrow_mut().drain(..).collect();
                let v = expr(cx, o)?;
                let mut b = String::new();
                let ipad = format!("{}    ", pad);
                let tail_bind = { let bs = cx.binds.borrow(); matches!(bs.last(), Some((bv, _)) if *bv == v) };
                let last = if tail_bind { cx.binds.borrow_mut().pop().unwrap().1 } else { wrap_result(cx, v) };
                flush(cx, &ipad, &mut b);
                write!(b, "{}{}", ipad, last).unwrap();
                cx.binds.borrow_mut().extend(saved);
                b
            }
        };
        for p in pats { writeln!(s, "{}| {} =>\n{}", pad, p, body).unwrap(); }
    }
    Ok(s.trim_end().to_string())
}

/// a `match` with guarded arms whose scrutinee is already bound to variables (see `match_expr`): the first guarded arm
/// `P if g => B` becomes `P => if g { B } else { match <scrutinee> { <earlier unguarded arms> <later arms> } }` and the result is
/// translated again (the fallback may itself contain guarded arms)
fn match_guarded(cx: &Ctx, m: &ExprMatch, ind: usize) -> R<String> {
    let Some(gi) = m.arms.iter().position(|a| a.guard.is_some()) else { return match_expr(cx, m, ind) };
    let mut fallback = m.clone();
    fallback.arms = m.arms.iter().enumerate().filter(|(i, a)| *i > gi || (*i < gi && a.guard.is_none())).map(|(_, a)| a.clone()).collect();
    if fallback.arms.is_empty() { return Err("guarded match arm without a fallback".into()); }
    let mut m2 = m.clone();
    let arm = &mut m2.arms[gi];
    let (_, g) = arm.guard.take().unwrap();
    if matches!(&*g, Expr::Let(_)) || has_try(&g) { return Err("match guard with `let` / `?`".into()); }
    let body = arm.body.clone();
    if !cx.fn_tail.get() && contains_return_expr(&body) { return Err("`return` in a guarded match arm outside tail position".into()); }
    let fb = Expr::Match(fallback);
    // in tail position of the function an arm `return X` has the value X (as in `match_expr`); elsewhere a `return` is refused there
    let then_e: Expr = match &*body { Expr::Block(_) => (*body).clone(), o => parse_quote!({ #o }) };
    arm.body = Box::new(parse_quote!(if #g #then_e else { #fb }));
    if arm.comma.is_none() { arm.comma = Some(Default::default()); }
    // the rewritten arm now takes every value of its pattern: a later arm with the same pattern (or any later arm, when the
    // pattern is `_`) has become unreachable in the outer match (it lives on in the fallback) — Lean rejects redundant alternatives
    let pat_s = { let p = &m2.arms[gi].pat; quote::quote!(#p).to_string() };
    let catch_all = matches!(&m2.arms[gi].pat, Pat::Wild(_));
    let mut k = 0usize;
    m2.arms.retain(|a| { let i = k; k += 1; let p = &a.pat; !(i > gi && (catch_all || quote::quote!(#p).to_string() == pat_s)) });
    match_expr(cx, &m2, ind)
}

/// does the body call something whose model counterpart is `Outcome`-valued?
fn calls_outcome(b: &Block) -> bool {
    let s = quote::quote!(#b).to_string().replace(' ', "");
    s.contains(".miller_loop(") || s.contains("G2Prepared::from(") || OUTCOME_METHODS.iter().any(|m| s.contains(&format!(".{}()", m)))
}

fn contains_unwrap(b: &Block) -> bool {
    let s = quote::quote!(#b).to_string();
    // `Fq :: new (* CONST) . unwrap ()` is a resolved constant, not a panic site
    let s2 = s.replace(' ', "");
    let mut t = s2.clone();
    loop {
        match t.find("Fq::new(*") {
            Some(i) => { if let Some(j) = t[i..].find(").unwrap()") { t.replace_range(i..i + j + 10, "K"); } else { break; } }
            None => break,
        }
    }
    // likewise `Fq::from_slice(&CONST).unwrap()` and `Fq::from_str("digits").expect("..")`
    loop {
        match t.find("Fq::from_slice(&") {
            Some(i) => { match t[i..].find(").unwrap()") { Some(j) if t[i + 16..i + j].chars().all(|c| c.is_ascii_uppercase() || c.is_ascii_digit() || c == '_') => t.replace_range(i..i + j + 10, "K"), _ => break } }
            None => break,
        }
    }
    loop {
        match t.find("Fq::from_str(\"") {
            Some(i) => {
                let rest = &t[i + 14..];
                let nd = rest.chars().take_while(|c| c.is_ascii_digit()).count();
                if nd == 0 || !rest[nd..].starts_with("\").expect(\"") { break; }
                match rest[nd + 11..].find("\")") { Some(j) => t.replace_range(i..i + 14 + nd + 11 + j + 2, "K"), None => break }
            }
            None => break,
        }
    }
    t.contains(".unwrap()") || t.contains(".expect(")
}

struct Target { file: &'static str, self_ty: &'static str, lean_ns: &'static str, mono: Option<&'static str>, fns: &'static [&'static str] }

/// Lean name of the `Error` enum of a source file
fn err_ty_of(file: &str) -> &'static str { match file { "groups.rs" => "GroupError", "lib.rs" => "CurveError", _ => "U256Error" } }   // fields/*.rs import `u256::Error`

const TARGETS: &[Target] = &[
    Target { file: "fields/fq2.rs", self_ty: "Fq2", lean_ns: "Fq2", mono: None, fns: &["new", "scale", "unitary_inverse", "mul_by_nonresidue", "div2", "i", "neg_inplace", "sub_inplace", "add_inplace", "mul_inplace", "zero", "is_zero", "one", "double", "triple", "squared", "inverse", "to_slice"] },
    Target { file: "fields/fq4.rs", self_ty: "Fq4", lean_ns: "Fq4", mono: None, fns: &["new", "scale", "scale_fq", "mul_by_nonresidue", "unitary_inverse", "mul_1", "mul_inplace", "sub_inplace", "add_inplace", "neg_inplace", "zero", "is_zero", "one", "double", "triple", "squared", "inverse", "frobenius_map", "to_slice"] },
    Target { file: "fields/fq12.rs", self_ty: "Fq12", lean_ns: "Fq12", mono: None, fns: &["new", "mul_by_nonresidue", "scale", "mul_015", "mul_inplace", "neg_inplace", "add_inplace", "sub_inplace", "zero", "is_zero", "one", "double", "triple", "squared", "inverse", "frobenius_map", "to_slice"] },
    Target { file: "groups.rs", self_ty: "G", lean_ns: "G1", mono: Some("Fq"), fns: &["eq", "to_affine", "zero", "is_zero", "double", "add", "neg", "sub", "mul"] },
    Target { file: "groups.rs", self_ty: "G", lean_ns: "G2", mono: Some("Fq2"), fns: &["eq", "to_affine", "zero", "is_zero", "double", "add", "neg", "sub", "mul"] },
    Target { file: "pairings.rs", self_ty: "Fq12", lean_ns: "Fq12", mono: None, fns: &["final_exponentiation_first_chunk", "final_exponentiation_last_chunk", "final_exp_last_chunk"] },
    Target { file: "pairings.rs", self_ty: "G2", lean_ns: "G2m", mono: None, fns: &["point_pi1", "point_pi2", "eval_g_tangent", "eval_g_line", "q_power_frobenius", "g_line", "g_tangent", "miller_loop"] },
    Target { file: "pairings.rs", self_ty: "G2Prepared", lean_ns: "G2Prepared", mono: None, fns: &["get_fq12", "from", "miller_loop"] },
    Target { file: "pairings.rs", self_ty: "Fq12", lean_ns: "Fq12", mono: None, fns: &["final_exponentiation", "final_exp", "pow"] },
    Target { file: "pairings.rs", self_ty: "", lean_ns: "Pairings", mono: None, fns: &["pairing", "fast_pairing", "bit"] },
    Target { file: "groups.rs", self_ty: "AffineG", lean_ns: "AffineG1", mono: Some("Fq"), fns: &["new", "to_jacobian"] },
    Target { file: "groups.rs", self_ty: "AffineG", lean_ns: "AffineG2", mono: Some("Fq2"), fns: &["new", "to_jacobian"] },
    Target { file: "lib.rs", self_ty: "G1", lean_ns: "LibG1", mono: None, fns: &["from_compressed", "to_compressed", "to_uncompressed", "from_uncompressed", "to_slice", "from_slice", "normalize"] },
    Target { file: "lib.rs", self_ty: "G2", lean_ns: "LibG2", mono: None, fns: &["from_compressed", "to_compressed", "to_uncompressed", "from_uncompressed", "to_slice", "from_slice", "normalize"] },
    Target { file: "lib.rs", self_ty: "G1", lean_ns: "LibG1", mono: None, fns: &["new", "zero", "one", "is_zero", "add", "sub", "neg", "mul"] },
    Target { file: "lib.rs", self_ty: "G2", lean_ns: "LibG2", mono: None, fns: &["new", "zero", "one", "is_zero", "add", "sub", "neg", "mul"] },
    Target { file: "lib.rs", self_ty: "Gt", lean_ns: "LibGt", mono: None, fns: &["one", "pow", "inverse", "to_slice", "mul"] },
    Target { file: "lib.rs", self_ty: "AffineG1", lean_ns: "LibAffineG1", mono: None, fns: &["from_jacobian"] },
    Target { file: "lib.rs", self_ty: "AffineG2", lean_ns: "LibAffineG2", mono: None, fns: &["from_jacobian"] },
    Target { file: "lib.rs", self_ty: "G2Prepared", lean_ns: "LibG2Prepared", mono: None, fns: &["pairing", "from"] },
    Target { file: "lib.rs", self_ty: "", lean_ns: "Lib", mono: None, fns: &["pairing", "fast_pairing"] },
    // `self_ty` may carry a trait filter `Type@Trait<Args>` (only that trait impl) — `Type` alone matches every impl of the type
    Target { file: "fields/fq2.rs", self_ty: "Fq2", lean_ns: "Fq2", mono: None, fns: &["real", "imaginary", "sqrt", "from_slice"] },
    Target { file: "lib.rs", self_ty: "Fq2", lean_ns: "LibFq2", mono: None, fns: &["one", "zero", "new", "is_zero", "is_even", "real", "imaginary", "sqrt", "from_slice", "to_slice", "add_inplace", "sub_inplace", "mul_inplace", "neg_inplace"] },
    Target { file: "lib.rs", self_ty: "Fq2@TryFrom<&[u8]>", lean_ns: "LibFq2", mono: None, fns: &["try_from"] },
    Target { file: "lib.rs", self_ty: "[u8;64]@From<Fq2>", lean_ns: "LibFq2", mono: None, fns: &["from"] },
    Target { file: "lib.rs", self_ty: "AffineG1", lean_ns: "LibAffineG1", mono: None, fns: &["new", "x", "y", "set_x", "set_y"] },
    Target { file: "lib.rs", self_ty: "AffineG2", lean_ns: "LibAffineG2", mono: None, fns: &["new", "x", "y", "set_x", "set_y"] },
    Target { file: "lib.rs", self_ty: "G1@From<AffineG1>", lean_ns: "LibG1", mono: None, fns: &["from"] },
    Target { file: "lib.rs", self_ty: "G2@From<AffineG2>", lean_ns: "LibG2", mono: None, fns: &["from"] },
    Target { file: "lib.rs", self_ty: "G1", lean_ns: "LibG1", mono: None, fns: &["x", "y", "z", "b", "set_x", "set_y", "set_z"] },
    Target { file: "lib.rs", self_ty: "G2", lean_ns: "LibG2", mono: None, fns: &["x", "y", "z", "b", "set_x", "set_y", "set_z"] },
    Target { file: "lib.rs", self_ty: "Fr@Mul<G1>", lean_ns: "LibFrG1", mono: None, fns: &["mul"] },
    Target { file: "lib.rs", self_ty: "Fr@Mul<G2>", lean_ns: "LibFrG2", mono: None, fns: &["mul"] },
    // groups.rs plumbing (reference / assign forms of `+`, constructors, accessors, Clone, affine Neg / PartialEq) and the two parameter sets
    Target { file: "groups.rs", self_ty: "G", lean_ns: "G1", mono: Some("Fq"), fns: &["new", "x", "y", "z", "x_mut", "y_mut", "z_mut", "clone"] },
    Target { file: "groups.rs", self_ty: "G", lean_ns: "G2", mono: Some("Fq2"), fns: &["new", "x", "y", "z", "x_mut", "y_mut", "z_mut", "clone"] },
    Target { file: "groups.rs", self_ty: "G@GroupElement", lean_ns: "G1", mono: Some("Fq"), fns: &["one", "random"] },
    Target { file: "groups.rs", self_ty: "G@GroupElement", lean_ns: "G2", mono: Some("Fq2"), fns: &["one", "random"] },
    Target { file: "groups.rs", self_ty: "G@Add<&G<P>>", lean_ns: "G1AddValRef", mono: Some("Fq"), fns: &["add"] },
    Target { file: "groups.rs", self_ty: "G@Add<&G<P>>", lean_ns: "G2AddValRef", mono: Some("Fq2"), fns: &["add"] },
    Target { file: "groups.rs", self_ty: "&G@Add<G<P>>", lean_ns: "G1AddRefVal", mono: Some("Fq"), fns: &["add"] },
    Target { file: "groups.rs", self_ty: "&G@Add<G<P>>", lean_ns: "G2AddRefVal", mono: Some("Fq2"), fns: &["add"] },
    Target { file: "groups.rs", self_ty: "G@AddAssign<G<P>>", lean_ns: "G1AddAssignVal", mono: Some("Fq"), fns: &["add_assign"] },
    Target { file: "groups.rs", self_ty: "G@AddAssign<G<P>>", lean_ns: "G2AddAssignVal", mono: Some("Fq2"), fns: &["add_assign"] },
    Target { file: "groups.rs", self_ty: "G@AddAssign<&G<P>>", lean_ns: "G1AddAssignRef", mono: Some("Fq"), fns: &["add_assign"] },
    Target { file: "groups.rs", self_ty: "G@AddAssign<&G<P>>", lean_ns: "G2AddAssignRef", mono: Some("Fq2"), fns: &["add_assign"] },
    Target { file: "groups.rs", self_ty: "AffineG", lean_ns: "AffineG1", mono: Some("Fq"), fns: &["x", "y", "x_mut", "y_mut", "clone"] },
    Target { file: "groups.rs", self_ty: "AffineG", lean_ns: "AffineG2", mono: Some("Fq2"), fns: &["x", "y", "x_mut", "y_mut", "clone"] },
    Target { file: "groups.rs", self_ty: "AffineG@Neg", lean_ns: "AffineG1", mono: Some("Fq"), fns: &["neg"] },
    Target { file: "groups.rs", self_ty: "AffineG@Neg", lean_ns: "AffineG2", mono: Some("Fq2"), fns: &["neg"] },
    Target { file: "groups.rs", self_ty: "AffineG@PartialEq", lean_ns: "AffineG1", mono: Some("Fq"), fns: &["eq"] },
    Target { file: "groups.rs", self_ty: "AffineG@PartialEq", lean_ns: "AffineG2", mono: Some("Fq2"), fns: &["eq"] },
    Target { file: "groups.rs", self_ty: "G1Params@GroupParams", lean_ns: "G1Params", mono: Some("Fq"), fns: &["name", "one", "coeff_b", "check_order"] },
    Target { file: "groups.rs", self_ty: "G2Params@GroupParams", lean_ns: "G2Params", mono: Some("Fq2"), fns: &["name", "one", "coeff_b", "check_order"] },
    // leftovers: component-wise `random` (a script of draws is threaded), `to_u512` and the error conversion (reported as skipped)
    Target { file: "fields/fq2.rs", self_ty: "Fq2", lean_ns: "Fq2", mono: None, fns: &["random", "to_u512"] },
    Target { file: "fields/fq4.rs", self_ty: "Fq4", lean_ns: "Fq4", mono: None, fns: &["random"] },
    Target { file: "fields/fq12.rs", self_ty: "Fq12", lean_ns: "Fq12", mono: None, fns: &["random"] },
    Target { file: "lib.rs", self_ty: "CurveError@From<FieldError>", lean_ns: "LibCurveError", mono: None, fns: &["from"] },
];

impl Target {
    /// the type name part of `self_ty`
    fn ty(&self) -> &'static str { self.self_ty.split('@').next().unwrap() }
    /// the trait filter part of `self_ty`, if any
    fn tr(&self) -> Option<&'static str> { self.self_ty.split_once('@').map(|(_, t)| t) }
}

fn impl_self_name(im: &ItemImpl) -> Option<String> {
    match &*im.self_ty { Type::Path(p) => p.path.segments.last().map(|s| s.ident.to_string()), Type::Array(a) => Some(quote::quote!(#a).to_string().replace(' ', "")),
        Type::Reference(r) => match &*r.elem { Type::Path(p) => p.path.segments.last().map(|s| format!("&{}", s.ident)), _ => None }, _ => None }
}

/// `type Output = X;` of a trait impl
fn impl_assoc_out(im: &ItemImpl) -> Option<Type> {
    for ii in &im.items { if let ImplItem::Type(t) = ii { if t.ident == "Output" { return Some(t.ty.clone()); } } }
    None
}

/// `type Error = X;` of a trait impl
fn impl_assoc_err(im: &ItemImpl) -> String {
    for ii in &im.items { if let ImplItem::Type(t) = ii { if t.ident == "Error" { if let Type::Path(p) = &t.ty { return path_str(&p.path); } } } }
    String::new()
}

fn main() {
    let args: Vec<String> = std::env::args().collect();
    let src = &args[1];
    let out_dir = &args[2];
    // optional 3rd argument: comma-separated `Ns.fn` keys to leave out (their generated text did not elaborate)
    let excluded: BTreeSet<String> = args.get(3).map(|s| s.split(',').filter(|x| !x.is_empty()).map(|x| x.to_string()).collect()).unwrap_or_default();
    let mut defs = String::new();
    let mut report: BTreeMap<String, String> = BTreeMap::new();
    let mut emitted: Vec<(String, String, Vec<String>, bool)> = vec![]; // (ns, fn, param names, per-arm?)
    let known = inline::load_known();
    let locals = rename::Locals::load();
    for t in TARGETS {
        let path = format!("{}/{}", src, t.file);
        let text = match std::fs::read_to_string(&path) { Ok(s) => s.replace("\r\n", "\n"), Err(e) => { report.insert(format!("{}::<file>", t.file), format!("unreadable: {}", e)); continue; } };
        let mut file = match parse_file(&text) { Ok(f) => f, Err(e) => { report.insert(format!("{}::<file>", t.file), format!("parse error: {}", e)); continue; } };
        // added private helpers are inlined into their callers (inline.rs); what was done is part of the report
        for (k, v) in inline::inline_helpers(&mut file, t.file, &known) { report.insert(k, v); }
        let mut found: BTreeSet<String> = BTreeSet::new();
        let mut impl_traits: BTreeSet<String> = BTreeSet::new();      // traits the type implements in this file (for inherited default methods)
        for it in &file.items {
            if let (Item::Fn(f), "") = (it, t.ty()) {
                let name = f.sig.ident.to_string();
                if !t.fns.contains(&name.as_str()) || found.contains(&name) { continue; }
                let m = ImplItemFn { attrs: vec![], vis: f.vis.clone(), defaultness: None, sig: f.sig.clone(), block: (*f.block).clone() };
                let key = format!("{}.{}", t.lean_ns, name);
                if excluded.contains(&key) { report.insert(key, "skipped: the generated definition does not elaborate in Lean (ill-typed translation)".into()); continue; }
                let mut m = m;
                desugar::desugar_fn(&mut m);
                if let Some(note) = locals.normalise(&key, &mut m) { report.insert(format!("renamed-locals:{}", key), note); }
                match translate_fn(t, &m, "", None) {
                    Ok((text, params, arms)) => { found.insert(name.clone()); defs.push_str(&text); defs.push('\n'); report.insert(key, "translated".into()); emitted.push((t.lean_ns.to_string(), name, params, arms)); }
                    Err(e) => { report.insert(key, format!("skipped: {}", e)); }
                }
                continue;
            }
            let Item::Impl(im) = it else { continue };
            if impl_self_name(im).as_deref() != Some(t.ty()) { continue; }
            if let Some(want) = t.tr() {
                match &im.trait_ { Some((_, tr, _)) if quote::quote!(#tr).to_string().replace(' ', "") == want => {} _ => continue }
            }
            if let Some((_, tr, _)) = &im.trait_ { if let Some(l) = tr.segments.last() { impl_traits.insert(l.ident.to_string()); } }
            for ii in &im.items {
                let ImplItem::Fn(m) = ii else { continue };
                let name = m.sig.ident.to_string();
                if !t.fns.contains(&name.as_str()) { continue; }
                // skip trait impls we do not want (e.g. `Mul for G` is wanted as `mul`, `Add<&G>` wrappers are not)
                if let (Some((_, tr, _)), true) = (&im.trait_, t.file != "lib.rs" && t.tr().is_none()) {
                    let trs = quote::quote!(#tr).to_string().replace(' ', "");
                    if (name == "add" && trs != "Add<G<P>>") || (name == "mul" && !trs.starts_with("Mul<Fr>")) || (name == "sub" && trs != "Sub<G<P>>") || (name == "neg" && trs != "Neg") || (name == "eq" && trs != "PartialEq") { continue; }
                    if name == "neg" && t.self_ty != "G" { continue; }
                }
                if found.contains(&name) { continue; }
                let key = format!("{}.{}", t.lean_ns, name);
                if excluded.contains(&key) { report.insert(key, "skipped: the generated definition does not elaborate in Lean (ill-typed translation)".into()); continue; }
                let mut m2 = m.clone();
                desugar::desugar_fn(&mut m2);
                if let Some(note) = locals.normalise(&key, &mut m2) { report.insert(format!("renamed-locals:{}", key), note); }
                let m = &m2;
                match translate_fn(t, m, &impl_assoc_err(im), impl_assoc_out(im).as_ref()) {
                    Ok((text, params, arms)) => { found.insert(name.clone()); defs.push_str(&text); defs.push('\n'); report.insert(key, "translated".into()); emitted.push((t.lean_ns.to_string(), name, params, arms)); }
                    Err(e) => { report.insert(key, format!("skipped: {}", e)); }
                }
            }
        }
        // a trait method the impl does not define: the trait's default body (e.g. `GroupParams::check_order` for `G1Params`)
        for it in &file.items {
            let Item::Trait(tr) = it else { continue };
            if !impl_traits.contains(&tr.ident.to_string()) { continue; }
            for ti in &tr.items {
                let TraitItem::Fn(tf) = ti else { continue };
                let Some(body) = &tf.default else { continue };
                let name = tf.sig.ident.to_string();
                let key = format!("{}.{}", t.lean_ns, name);
                if !t.fns.contains(&name.as_str()) || found.contains(&name) || report.contains_key(&key) { continue; }
                if excluded.contains(&key) { report.insert(key, "skipped: the generated definition does not elaborate in Lean (ill-typed translation)".into()); continue; }
                let mut m = ImplItemFn { attrs: vec![], vis: Visibility::Inherited, defaultness: None, sig: tf.sig.clone(), block: body.clone() };
                desugar::desugar_fn(&mut m);
                if let Some(note) = locals.normalise(&key, &mut m) { report.insert(format!("renamed-locals:{}", key), note); }
                match translate_fn(t, &m, "", None) {
                    Ok((text, params, arms)) => { found.insert(name.clone()); defs.push_str(&text); defs.push('\n'); report.insert(key, "translated".into()); emitted.push((t.lean_ns.to_string(), name, params, arms)); }
                    Err(e) => { report.insert(key, format!("skipped: {}", e)); }
                }
            }
        }
        for f in t.fns { let key = format!("{}.{}", t.lean_ns, f); report.entry(key).or_insert_with(|| "not found in source".into()); }
    }
    ops::run(src, &mut defs, &mut report, &excluded);
    let header = "-- GENERATED by rs2lean from /repo/src on every run — do not edit.\nimport Sm9.Model.Api\nimport Sm9.Gen.Support\nset_option linter.unusedVariables false\nnamespace Sm9.Gen\nopen Sm9\n\n";
    let text = format!("{}{}\nend Sm9.Gen\n", header, defs);
    write_if_changed(&format!("{}/Rust.lean", out_dir), &text);
    let mut rep = String::from("{\n");
    let n = report.len();
    for (i, (k, v)) in report.iter().enumerate() { writeln!(rep, "  \"{}\": \"{}\"{}", k, v.replace('"', "'").replace('\n', " "), if i + 1 < n { "," } else { "" }).unwrap(); }
    rep.push_str("}\n");
    write_if_changed(&format!("{}/rs2lean_report.json", out_dir), &rep);
    let ok = report.values().filter(|v| *v == "translated").count();
    println!("{{\"translated\": {}, \"skipped\": {}}}", ok, report.len() - ok);
    let (lt, ls) = limb::run(src, out_dir, &locals);
    locals.finish();
    println!("{{\"limb_translated\": {}, \"limb_skipped\": {}}}", lt, ls);
    let _ = emitted;
}

fn write_if_changed(path: &str, text: &str) {
    if std::fs::read_to_string(path).ok().as_deref() != Some(text) { std::fs::write(path, text).expect("write"); }
}

fn translate_fn(t0: &Target, m: &ImplItemFn, assoc_err: &str, assoc_out: Option<&Type>) -> R<(String, Vec<String>, bool)> {
    let name = m.sig.ident.to_string();
    let t = &Target { file: t0.file, self_ty: t0.ty(), lean_ns: t0.lean_ns, mono: t0.mono, fns: t0.fns };
    // `fn random<R: Rng>(rng: &mut R)`: the generator is a script of `u64` draws threaded through the function
    let rng_ty = m.sig.generics.params.iter().find_map(|g| match g { GenericParam::Type(tp) if tp.bounds.iter().any(|b| matches!(b, TypeParamBound::Trait(tb) if tb.path.is_ident("Rng"))) => Some(tp.ident.to_string()), _ => None }).unwrap_or_default();
    let rng = if rng_ty.is_empty() { String::new() } else {
        m.sig.inputs.iter().find_map(|a| match a { FnArg::Typed(p) => match (&*p.pat, &*p.ty) {
            (Pat::Ident(pi), Type::Reference(r)) if r.mutability.is_some() && matches!(&*r.elem, Type::Path(tp) if tp.path.is_ident(&rng_ty)) => Some(pi.ident.to_string()), _ => None }, _ => None })
            .ok_or("generic `Rng` parameter without a `&mut R` argument")?
    };
    if m.sig.generics.params.iter().any(|g| !matches!(g, GenericParam::Type(tp) if tp.ident == rng_ty.as_str())) { return Err("generic function".into()); }
    let self_lean = match t.self_ty { "G" | "&G" => format!("G {}", t.mono.unwrap()), "AffineG" => format!("AffineG {}", t.mono.unwrap()), "G2" => "G2".to_string(), o => o.to_string() };
    let self_lean = if t.file == "lib.rs" && t.self_ty == "" { String::new() } else { self_lean };
    let self_lean = if t.file == "lib.rs" { match t.self_ty { "Gt" => "Fq12".to_string(), "AffineG1" => "AffineG Fq".to_string(), "AffineG2" => "AffineG Fq2".to_string(), o if o.starts_with("[u8;") => "List UInt8".to_string(), _ => self_lean } } else { self_lean };
    let ret_s = match &m.sig.output { ReturnType::Type(_, ty) => quote::quote!(#ty).to_string(), _ => String::new() };
    let ret_option = ret_s.starts_with("Option");
    let ret_result = ret_s.starts_with("Result");
    let mut_self = m.sig.inputs.iter().any(|a| matches!(a, FnArg::Receiver(r) if r.mutability.is_some() && r.reference.is_some()));
    let outcome = contains_unwrap(&m.block) || calls_outcome(&m.block) || (t.self_ty == "G2Prepared" && name == "miller_loop");
    let tower_bytes = t.file.starts_with("fields/fq") && (name == "to_slice" || name == "from_slice");
    let ret_err = if ret_result { ret_s.rsplit(',').next().unwrap_or("").trim().trim_end_matches('>').trim().replace(' ', "") } else { String::new() };
    let lib = t.file == "lib.rs" || tower_bytes;
    let unit_ret = matches!(&m.sig.output, ReturnType::Default) && mut_self;
    // the type whose `to_slice` / `is_even` the byte code of this impl calls on its components
    let elem = match (lib, t.self_ty) { (true, "G1") => "Fq", (true, "G2") => "Fq2", (true, "Fq2") => "Fq", (true, "Fq4") => "Fq2", (true, "Fq12") if tower_bytes => "Fq4", _ => "" }.to_string();
    let outcome = outcome || (lib && { let b = &m.block; let s = quote::quote!(#b).to_string().replace(' ', ""); s.contains("pairings::pairing(") || s.contains("pairings::fast_pairing(") || s.contains("copy_from_slice(") });
    let cx = Ctx { self_ty: self_lean.clone(), mono: t.mono.map(|s| s.to_string()), ret_option, outcome, mut_self: mut_self && !unit_ret, fresh: std::cell::Cell::new(0), binds: Default::default(), uninit: Default::default(),
                   ret_result, err_ty: err_ty_of(t.file).to_string(), group_vars: Default::default(), ns: t.lean_ns.to_string(), lib, elem, unit_ret,
                   try_scope: Default::default(), tries: Default::default(), some_tail: false, ind: Default::default(), assoc_err: assoc_err.replace("::", "."), ret_err,
                   tail_call: Default::default(), fn_tail: Default::default(), top_last: std::cell::Cell::new(m.block.stmts.last().map_or(std::ptr::null(), |x| x as *const Stmt)),
                   assoc_out: String::new(), rng, rng_ty };
    let cx = match assoc_out { Some(ty) => { let o = ty_name(ty, &cx)?; Ctx { assoc_out: o, ..cx } } None => cx };
    if !cx.rng.is_empty() && (cx.outcome || mut_self) { return Err("random generator in an Outcome / `&mut self` function".into()); }
    let mut params = vec![];
    let mut pnames = vec![];
    for a in &m.sig.inputs {
        match a {
            FnArg::Receiver(_) => {
                if self_lean == "G1" || self_lean == "G2" || self_lean.starts_with("G ") { cx.group_vars.borrow_mut().insert("self".to_string()); }
                params.push(format!("(self : {})", self_lean)); pnames.push("self".to_string());
            }
            FnArg::Typed(p) => {
                let n = pat_str(&p.pat)?;
                let tl = ty_name(&p.ty, &cx)?;
                if tl.starts_with("G ") || tl == "G1" || tl == "G2" { cx.group_vars.borrow_mut().insert(n.clone()); }
                params.push(format!("({} : {})", n, tl));
                pnames.push(n);
            }
        }
    }
    let ret = match &m.sig.output {
        ReturnType::Default if unit_ret => self_lean.clone(),
        ReturnType::Default => return Err("no return type".into()),
        ReturnType::Type(_, ty) => ty_name(ty, &cx)?,
    };
    let ret = if mut_self && !unit_ret { format!("{} × {}", self_lean, paren(&ret)) } else { ret };
    let ret = if !cx.rng.is_empty() { format!("List Nat × {}", paren(&ret)) } else { ret };
    let ret = if outcome { format!("Outcome ({})", ret) } else { ret };
    // frobenius_map: one definition per literal arm
    if name == "frobenius_map" {
        let mut out = String::new();
        let Some(Stmt::Expr(Expr::Match(mm), _)) = m.block.stmts.last() else { return Err("frobenius_map shape".into()) };
        for arm in &mm.arms {
            if arm.guard.is_some() { return Err("match guard".into()); }
            if let Pat::Lit(l) = &arm.pat {
                let k = match &l.lit { Lit::Int(i) => i.base10_digits().to_string(), _ => return Err("arm literal".into()) };
                let body = expr(&cx, &arm.body)?;
                writeln!(out, "def {}.frob{} (self : {}) : {} :=\n  {}\n", t.lean_ns, k, self_lean, self_lean, body).unwrap();
            }
        }
        return Ok((out, pnames, true));
    }
    let body = stmts(&cx, &m.block.stmts, 2, if unit_ret { Some("self") } else { None })?;
    let body = if outcome { format!("  do\n{}", body.lines().map(|l| format!("  {}", l)).collect::<Vec<_>>().join("\n")) } else { body };
    Ok((format!("def {}.{} {} : {} :=\n{}\n", t.lean_ns, ident(&name), params.join(" "), ret, body), pnames, false))
}
