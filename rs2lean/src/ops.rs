//! The operator-plumbing macros of `fields/utils.rs` (`impl_add_binop_specify_output!`, `impl_sub_binop_specify_output!`,
//! `impl_binops_multiplicative_mixed!`, `impl_binops_additive!`, `impl_binops_multiplicative!`, `impl_binops_negative!`).
//!
//! Every `fn` inside a `macro_rules!` transcriber is translated once, polymorphically:
//!
//! ```text
//! def Ops.sub_assign_ref {T : Type} (add_inplace sub_inplace mul_inplace : T → T → T) (neg_inplace : T → T)
//!     (self : T) (rhs : T) : T := ...
//! ```
//!
//! * the metavariables `$lhs`, `$rhs`, `$output` are all read as the one type `T`: every instantiation in the crate
//!   passes the same type for all of them — this is CHECKED over all `.rs` files of the source, otherwise nothing is translated;
//! * references are erased, but their *form* (value / reference) is tracked, because it selects the operator impl:
//!   `&self + rhs` inside `impl Add<&T> for T` is a call of the `&T + &T` form, i.e. of `Ops.add_ref_ref`;
//! * `self.add_inplace(rhs)` is a call of the function parameter `add_inplace` (all four inplace functions are parameters
//!   of every definition, so that forwarding to the wrong one is a false theorem rather than an ill-typed definition);
//! * an `op=` form (`&mut self`, `*self = ..;`) returns the new `self`.
//!
//! Anything else in a body: the function is skipped and reported.
use std::collections::{BTreeMap, BTreeSet};
use std::fmt::Write as _;
use proc_macro2::{Delimiter, TokenStream, TokenTree as TT};
use syn::*;

type R<T> = std::result::Result<T, String>;

const FNS: &str = "add_inplace sub_inplace mul_inplace neg_inplace";

fn form(is_ref: bool) -> &'static str { if is_ref { "ref" } else { "val" } }

/// replace `$name` by the identifier `T`; repetitions (`$( .. )*`) are not supported
fn subst(ts: TokenStream) -> R<TokenStream> {
    let toks: Vec<TT> = ts.into_iter().collect();
    let mut out: Vec<TT> = vec![];
    let mut i = 0;
    while i < toks.len() {
        match &toks[i] {
            TT::Punct(p) if p.as_char() == '$' => {
                match toks.get(i + 1) {
                    Some(TT::Ident(id)) => { out.push(TT::Ident(proc_macro2::Ident::new("T", id.span()))); i += 2; continue; }
                    _ => return Err("macro repetition / `$` not followed by a name".into()),
                }
            }
            TT::Group(g) => {
                let mut ng = proc_macro2::Group::new(g.delimiter(), subst(g.stream())?);
                ng.set_span(g.span());
                out.push(TT::Group(ng));
            }
            t => out.push(t.clone()),
        }
        i += 1;
    }
    Ok(out.into_iter().collect())
}

/// the transcribers (`=> { .. }`) of a `macro_rules!` definition
fn transcribers(mac: &Macro) -> Vec<TokenStream> {
    let toks: Vec<TT> = mac.tokens.clone().into_iter().collect();
    let mut v = vec![];
    for i in 0..toks.len() {
        if let TT::Group(g) = &toks[i] {
            if g.delimiter() == Delimiter::Brace && i >= 2
                && matches!(&toks[i - 1], TT::Punct(p) if p.as_char() == '>') && matches!(&toks[i - 2], TT::Punct(p) if p.as_char() == '=') {
                v.push(g.stream());
            }
        }
    }
    v
}

/// `T` or `&'a T`: is it a reference?  (anything else: error)
fn ty_form(t: &Type) -> R<bool> {
    match t {
        Type::Path(p) if p.path.is_ident("T") => Ok(false),
        Type::Reference(r) if r.mutability.is_none() => match &*r.elem { Type::Path(p) if p.path.is_ident("T") => Ok(true), _ => Err("operand type".into()) },
        _ => Err("operand type".into()),
    }
}

struct Form { macro_name: String, op: &'static str, name: String, self_ref: bool, rhs_ref: Option<bool>, assign: bool, f: ImplItemFn }

fn op_of(tr: &str) -> Option<(&'static str, bool)> {
    Some(match tr { "Add" => ("add", false), "Sub" => ("sub", false), "Mul" => ("mul", false), "Neg" => ("neg", false),
                    "AddAssign" => ("add", true), "SubAssign" => ("sub", true), "MulAssign" => ("mul", true), _ => return None })
}

struct Env<'a> { vars: BTreeMap<String, bool>, table: &'a BTreeMap<(String, bool, Option<bool>), String>, done: &'a BTreeSet<String> }

/// the definition an operator expression denotes must already have been emitted (source order; a skipped form takes its users with it)
fn emitted<'a>(env: &Env, name: &'a String) -> R<&'a String> {
    if env.done.contains(name) { Ok(name) } else { Err(format!("uses `Ops.{}`, which is not translated (skipped, or defined later in the file)", name)) }
}

fn ops_expr(e: &Expr, env: &Env) -> R<(String, bool)> {
    Ok(match e {
        Expr::Paren(p) => ops_expr(&p.expr, env)?,
        Expr::Group(g) => ops_expr(&g.expr, env)?,
        Expr::Path(p) => {
            let n = p.path.get_ident().ok_or("path")?.to_string();
            let r = *env.vars.get(&n).ok_or_else(|| format!("unknown variable {}", n))?;
            (n, r)
        }
        Expr::Reference(r) => {
            if r.mutability.is_some() { return Err("`&mut` borrow".into()); }
            let (s, is_ref) = ops_expr(&r.expr, env)?;
            if is_ref { return Err("reference to a reference (no operator impl for `&&T`)".into()); }
            (s, true)
        }
        Expr::Unary(u) => match u.op {
            UnOp::Deref(_) => { let (s, is_ref) = ops_expr(&u.expr, env)?; if !is_ref { return Err("dereference of a value".into()); } (s, false) }
            UnOp::Neg(_) => {
                let (s, is_ref) = ops_expr(&u.expr, env)?;
                let name = env.table.get(&("neg".to_string(), is_ref, None)).ok_or_else(|| format!("no `Neg` impl for the {} form", form(is_ref)))?;
                let name = emitted(env, name)?;
                (format!("(Ops.{} {} {})", name, FNS, s), false)
            }
            _ => return Err("unary operator".into()),
        },
        Expr::Binary(b) => {
            let op = match b.op { BinOp::Add(_) => "add", BinOp::Sub(_) => "sub", BinOp::Mul(_) => "mul", _ => return Err("binary operator".into()) };
            let (l, lr) = ops_expr(&b.left, env)?;
            let (r, rr) = ops_expr(&b.right, env)?;
            let name = env.table.get(&(op.to_string(), lr, Some(rr))).ok_or_else(|| format!("no `{}` impl for the forms {} / {}", op, form(lr), form(rr)))?;
            let name = emitted(env, name)?;
            (format!("(Ops.{} {} {} {})", name, FNS, l, r), false)
        }
        Expr::MethodCall(m) => {
            let n = m.method.to_string();
            let (recv, _) = ops_expr(&m.receiver, env)?;      // `&self` methods: the receiver is auto-(de)referenced
            match (n.as_str(), m.args.len()) {
                ("add_inplace", 1) | ("sub_inplace", 1) | ("mul_inplace", 1) => {
                    let (a, ar) = ops_expr(&m.args[0], env)?;
                    if !ar { return Err(format!("`{}` takes a reference", n)); }
                    (format!("({} {} {})", n, recv, a), false)
                }
                ("neg_inplace", 0) => (format!("({} {})", n, recv), false),
                _ => return Err(format!("method call {}", n)),
            }
        }
        other => return Err(format!("unsupported expr: {}", quote::quote!(#other).to_string().chars().take(60).collect::<String>())),
    })
}

fn translate(fm: &Form, table: &BTreeMap<(String, bool, Option<bool>), String>, done: &BTreeSet<String>) -> R<String> {
    let f = &fm.f;
    let mut env = Env { vars: BTreeMap::new(), table, done };
    let mut params = vec![];
    for a in &f.sig.inputs {
        match a {
            FnArg::Receiver(r) => {
                if r.reference.is_some() != fm.assign || (fm.assign && r.mutability.is_none()) { return Err("receiver".into()); }
                // `self`: `&mut T` in an `op=` form; `Self` otherwise (a reference when the impl is for `&T`)
                env.vars.insert("self".into(), if fm.assign { true } else { fm.self_ref });
                params.push("(self : T)".to_string());
            }
            FnArg::Typed(p) => {
                let Pat::Ident(pi) = &*p.pat else { return Err("parameter pattern".into()) };
                let is_ref = ty_form(&p.ty)?;
                if Some(is_ref) != fm.rhs_ref { return Err("parameter type differs from the trait argument".into()); }
                env.vars.insert(pi.ident.to_string(), is_ref);
                params.push(format!("({} : T)", pi.ident));
            }
        }
    }
    match (&f.sig.output, fm.assign) {
        (ReturnType::Default, true) => {}
        (ReturnType::Type(_, t), false) => { if ty_form(t)? { return Err("returns a reference".into()); } }
        _ => return Err("return type".into()),
    }
    let mut body = String::new();
    let n = f.block.stmts.len();
    let mut closed = false;
    for (k, st) in f.block.stmts.iter().enumerate() {
        match st {
            Stmt::Local(l) => {
                let Pat::Ident(pi) = &l.pat else { return Err("let pattern".into()) };
                let init = l.init.as_ref().ok_or("let without initialiser")?;
                if init.diverge.is_some() { return Err("let-else".into()); }
                let (s, is_ref) = ops_expr(&init.expr, &env)?;
                writeln!(body, "  let {} := {}", pi.ident, s).unwrap();
                env.vars.insert(pi.ident.to_string(), is_ref);
            }
            Stmt::Expr(Expr::Assign(a), Some(_)) if fm.assign => {
                // `*self = e;`
                let Expr::Unary(u) = &*a.left else { return Err("assignment target".into()) };
                if !matches!(u.op, UnOp::Deref(_)) || !matches!(&*u.expr, Expr::Path(p) if p.path.is_ident("self")) { return Err("assignment target".into()); }
                let (s, is_ref) = ops_expr(&a.right, &env)?;
                if is_ref { return Err("assigns a reference".into()); }
                writeln!(body, "  let self := {}", s).unwrap();
            }
            Stmt::Expr(e, None) if k + 1 == n && !fm.assign => {
                let (s, is_ref) = ops_expr(e, &env)?;
                if is_ref { return Err("returns a reference".into()); }
                write!(body, "  {}", s).unwrap();
                closed = true;
            }
            other => return Err(format!("unsupported statement: {}", quote::quote!(#other).to_string().chars().take(60).collect::<String>())),
        }
    }
    if fm.assign { write!(body, "  self").unwrap(); } else if !closed { return Err("no result expression".into()); }
    Ok(format!("/-- `{}!`: `{}` — self: {}{} -/\ndef Ops.{} {{T : Type}} (add_inplace sub_inplace mul_inplace : T → T → T) (neg_inplace : T → T) {} : T :=\n{}\n",
               fm.macro_name, f.sig.ident, if fm.assign { "&mut" } else { form(fm.self_ref) },
               match fm.rhs_ref { Some(r) => format!(", rhs: {}", form(r)), None => String::new() }, fm.name, params.join(" "), body))
}

/// every invocation `NAME!(A, B, ..)` of one of the macros, anywhere in the source, passes one and the same type
fn mono_check(src: &str, names: &BTreeSet<String>) -> R<()> {
    fn walk(dir: &std::path::Path, acc: &mut Vec<std::path::PathBuf>) {
        if let Ok(rd) = std::fs::read_dir(dir) {
            let mut es: Vec<_> = rd.flatten().map(|e| e.path()).collect();
            es.sort();
            for p in es { if p.is_dir() { walk(&p, acc) } else if p.extension().map_or(false, |x| x == "rs") { acc.push(p) } }
        }
    }
    let mut files = vec![];
    walk(std::path::Path::new(src), &mut files);
    for p in files {
        let text = std::fs::read_to_string(&p).map_err(|e| format!("{}: {}", p.display(), e))?;
        for n in names {
            let pat = format!("{}!(", n);
            let mut from = 0;
            while let Some(i) = text[from..].find(&pat) {
                let start = from + i + pat.len();
                // `macro_rules! NAME` has no `(` directly after the `!`
                let end = text[start..].find(')').map(|j| start + j).ok_or("unterminated macro invocation")?;
                let args: Vec<String> = text[start..end].split(',').map(|a| a.trim().to_string()).filter(|a| !a.is_empty()).collect();
                // inside utils.rs the macros invoke each other with their own metavariables: covered by the outer invocations
                let forwarding = p.ends_with("fields/utils.rs") && args.iter().all(|a| a.starts_with('$'));
                if !forwarding && args.iter().any(|a| *a != args[0]) {
                    return Err(format!("{}!({}) in {} is instantiated at different types: the one-type translation does not apply", n, args.join(", "), p.display()));
                }
                from = end;
            }
        }
    }
    Ok(())
}

pub fn run(src: &str, defs: &mut String, report: &mut BTreeMap<String, String>, excluded: &BTreeSet<String>) {
    let path = format!("{}/fields/utils.rs", src);
    let text = match std::fs::read_to_string(&path) { Ok(s) => s.replace("\r\n", "\n"), Err(e) => { report.insert("fields/utils.rs::<file>".into(), format!("unreadable: {}", e)); return; } };
    let file = match parse_file(&text) { Ok(f) => f, Err(e) => { report.insert("fields/utils.rs::<file>".into(), format!("parse error: {}", e)); return; } };
    let mut forms: Vec<Form> = vec![];
    let mut macro_names: BTreeSet<String> = BTreeSet::new();
    let mut problems: Vec<(String, String)> = vec![];
    for it in &file.items {
        let Item::Macro(im) = it else { continue };
        if !im.mac.path.is_ident("macro_rules") { continue; }
        let Some(mname) = im.ident.as_ref().map(|i| i.to_string()) else { continue };
        macro_names.insert(mname.clone());
        for tr in transcribers(&im.mac) {
            let body = match subst(tr).and_then(|ts| syn::parse2::<File>(ts).map_err(|e| format!("transcriber does not parse as items: {}", e))) {
                Ok(b) => b,
                Err(e) => { problems.push((format!("Ops.<{}>", mname), format!("skipped: {}", e))); continue; }
            };
            for bi in &body.items {
                let Item::Impl(ii) = bi else { continue };
                let Some((_, trp, _)) = &ii.trait_ else { continue };
                let Some(last) = trp.segments.last() else { continue };
                let Some((op, assign)) = op_of(&last.ident.to_string()) else { continue };
                let self_ref = match ty_form(&ii.self_ty) { Ok(r) => r, Err(e) => { problems.push((format!("Ops.<{} {}>", mname, op), format!("skipped: self type: {}", e))); continue; } };
                let rhs_ref = match &last.arguments {
                    PathArguments::AngleBracketed(a) => match a.args.first() { Some(GenericArgument::Type(t)) => match ty_form(t) { Ok(r) => Some(r), Err(e) => { problems.push((format!("Ops.<{} {}>", mname, op), format!("skipped: trait argument: {}", e))); continue; } }, _ => None },
                    _ => None,
                };
                for item in &ii.items {
                    let ImplItem::Fn(f) = item else { continue };
                    let fname = f.sig.ident.to_string();
                    let name = if assign { format!("{}_{}", fname, form(rhs_ref.unwrap_or(false))) }
                               else if op == "neg" { format!("{}_{}", fname, form(self_ref)) }
                               else { format!("{}_{}_{}", fname, form(self_ref), form(rhs_ref.unwrap_or(false))) };
                    forms.push(Form { macro_name: mname.clone(), op, name, self_ref, rhs_ref, assign, f: f.clone() });
                }
            }
        }
    }
    for (k, v) in problems { report.insert(k, v); }
    // which definition an operator expression of given operand forms denotes (the value-returning forms only)
    let mut table: BTreeMap<(String, bool, Option<bool>), String> = BTreeMap::new();
    let mut dup: Option<String> = None;
    let mut seen: BTreeSet<String> = BTreeSet::new();
    for fm in &forms {
        if !seen.insert(fm.name.clone()) { dup = Some(fm.name.clone()); }
        if !fm.assign { if table.insert((fm.op.to_string(), fm.self_ref, fm.rhs_ref), fm.name.clone()).is_some() { dup = Some(fm.name.clone()); } }
    }
    let global = if let Some(d) = dup { Some(format!("skipped: two impls of the same operator form ({})", d)) }
                 else { mono_check(src, &macro_names).err().map(|e| format!("skipped: {}", e)) };
    let mut done: BTreeSet<String> = BTreeSet::new();
    for fm in &forms {
        let key = format!("Ops.{}", fm.name);
        if excluded.contains(&key) { report.insert(key, "skipped: the generated definition does not elaborate in Lean (ill-typed translation)".into()); continue; }
        if let Some(g) = &global { report.insert(key, g.clone()); continue; }
        match translate(fm, &table, &done) {
            Ok(t) => { defs.push_str(&t); defs.push('\n'); report.insert(key, "translated".into()); done.insert(fm.name.clone()); }
            Err(e) => { report.insert(key, format!("skipped: {}", e)); }
        }
    }
}
