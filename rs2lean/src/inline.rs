//! Inlining of *added* private helper functions before translation.
//!
//! A behaviour-preserving refactoring often extracts a helper (`fn eight_times(v) -> ..`) and calls it from an existing
//! function.  The model has no counterpart of the helper, so the caller's equivalence theorem could not even be stated.
//! This pass rewrites, in the parsed file, every call of a helper that is NEW (its name is not in the pinned table of
//! function names, `RS2LEAN_KNOWN`) into a block expression `{ let <params> = <args>; <body> }`, so that the existing
//! function is translated with the helper's body in place and is compared with the model as before: a harmless
//! extraction re-proves, a helper that changes the result makes the caller's theorem fail.
//!
//! Accepted helpers (anything else is left alone and reported — the caller then fails to translate, as before):
//! inherent methods / associated functions / free functions without type or const generics, whose parameters are plain
//! identifiers (`self`, `&self`, `x: T`, `x: &T`; no `&mut`), whose body has no `return`, no `?`, no macro invocation and
//! no call of itself.  Each argument is bound once, in order, before the body (Rust evaluates arguments once, left to
//! right); parameter names cannot capture variables of the arguments because the arguments are first bound to fresh names.
use std::collections::{BTreeMap, BTreeSet};
use syn::visit_mut::{self, VisitMut};
use syn::*;

pub struct Helper { name: String, has_self: bool, params: Vec<String>, body: Block }

fn body_ok(b: &Block, name: &str) -> std::result::Result<(), String> {
    let s = quote::quote!(#b).to_string();
    let toks: Vec<&str> = s.split(|c: char| !(c.is_alphanumeric() || c == '_' || c == '!' || c == '?')).filter(|t| !t.is_empty()).collect();
    if toks.iter().any(|t| *t == "return") { return Err("contains `return`".into()); }
    if s.contains('?') { return Err("contains `?`".into()); }
    if toks.iter().any(|t| t.ends_with('!') && t.len() > 1) || s.contains("! (") || s.contains("! [") || s.contains("! {") { return Err("contains a macro invocation".into()); }
    if toks.iter().any(|t| *t == name) { return Err("calls itself".into()); }
    Ok(())
}

fn helper_of(sig: &Signature, block: &Block) -> std::result::Result<Helper, String> {
    let name = sig.ident.to_string();
    if sig.generics.params.iter().any(|p| !matches!(p, GenericParam::Lifetime(_))) { return Err("generic".into()); }
    if sig.asyncness.is_some() || sig.unsafety.is_some() || sig.variadic.is_some() { return Err("async/unsafe/variadic".into()); }
    let mut has_self = false;
    let mut params = vec![];
    for a in &sig.inputs {
        match a {
            FnArg::Receiver(r) => { if r.mutability.is_some() { return Err("`&mut self` / `mut self` receiver".into()); } has_self = true; }
            FnArg::Typed(pt) => {
                if let Type::Reference(r) = &*pt.ty { if r.mutability.is_some() { return Err("`&mut` parameter".into()); } }
                match &*pt.pat { Pat::Ident(i) if i.by_ref.is_none() && i.subpat.is_none() => params.push(i.ident.to_string()), _ => return Err("parameter pattern".into()) }
            }
        }
    }
    body_ok(block, &name)?;
    Ok(Helper { name, has_self, params, body: block.clone() })
}

/// `self` -> `hself__<name>` in the helper's body (token level; `Self` is left alone)
fn rename_self(ts: proc_macro2::TokenStream, to: &str) -> proc_macro2::TokenStream {
    use proc_macro2::{Group, Ident, TokenTree};
    ts.into_iter().map(|t| match t {
        TokenTree::Ident(i) if i == "self" => TokenTree::Ident(Ident::new(to, i.span())),
        TokenTree::Group(g) => { let mut n = Group::new(g.delimiter(), rename_self(g.stream(), to)); n.set_span(g.span()); TokenTree::Group(n) }
        o => o,
    }).collect()
}

struct Rewriter<'a> { helpers: &'a BTreeMap<String, Helper>, sites: BTreeMap<String, usize>, fresh: usize }

impl<'a> Rewriter<'a> {
    fn expand(&mut self, h: &Helper, recv: Option<Expr>, args: Vec<Expr>) -> Option<Expr> {
        if h.has_self != recv.is_some() || args.len() != h.params.len() { return None; }
        let k = self.fresh; self.fresh += 1;
        let selfname = format!("hself{}__{}", k, h.name);
        let hb = &h.body;
        let body_ts = rename_self(quote::quote!(#hb), &selfname);
        let body: Block = syn::parse2(body_ts).ok()?;
        let mut pre: Vec<Stmt> = vec![];
        let mut post: Vec<Stmt> = vec![];
        let mk = |s: &str| Ident::new(s, proc_macro2::Span::call_site());
        if let Some(r) = recv {
            let t = mk(&format!("harg{}__self", k)); let sn = mk(&selfname);
            pre.push(parse_quote!(let #t = #r;)); post.push(parse_quote!(let #sn = #t;));
        }
        for (i, (p, a)) in h.params.iter().zip(args.into_iter()).enumerate() {
            let t = mk(&format!("harg{}__{}", k, i)); let pn = mk(p);
            pre.push(parse_quote!(let #t = #a;)); post.push(parse_quote!(let #pn = #t;));
        }
        let stmts = &body.stmts;
        *self.sites.entry(h.name.clone()).or_insert(0) += 1;
        Some(parse_quote!({ #(#pre)* #(#post)* #(#stmts)* }))
    }
}

impl<'a> VisitMut for Rewriter<'a> {
    fn visit_expr_mut(&mut self, e: &mut Expr) {
        visit_mut::visit_expr_mut(self, e);
        let new = match e {
            Expr::Call(c) => {
                let Expr::Path(p) = &*c.func else { return };
                let Some(last) = p.path.segments.last() else { return };
                let name = last.ident.to_string();
                let Some(h) = self.helpers.get(&name) else { return };
                // `h(..)`, `Self::h(..)`, `Type::h(..)`; with a receiver parameter the first argument is the receiver
                let mut args: Vec<Expr> = c.args.iter().cloned().collect();
                let recv = if h.has_self { if args.is_empty() { return } else { Some(args.remove(0)) } } else { None };
                self.expand(h, recv, args)
            }
            Expr::MethodCall(m) => {
                let name = m.method.to_string();
                let Some(h) = self.helpers.get(&name) else { return };
                if !h.has_self || m.turbofish.is_some() { return }
                self.expand(h, Some((*m.receiver).clone()), m.args.iter().cloned().collect())
            }
            _ => return,
        };
        if let Some(n) = new { *e = n; }
    }
}

/// Inline the added helpers of `file` (`rel` = its path under src/).  `known` = (file, fn name) pairs of the pinned table.
/// Returns report entries: `inlined:<rel>::<name>` -> number of call sites, `inline-refused:<rel>::<name>` -> reason.
pub fn inline_helpers(file: &mut File, rel: &str, known: &BTreeSet<(String, String)>) -> BTreeMap<String, String> {
    let mut report = BTreeMap::new();
    if known.is_empty() { return report; }
    let is_new = |n: &str| !known.contains(&(rel.to_string(), n.to_string()));
    let mut helpers: BTreeMap<String, Helper> = BTreeMap::new();
    let mut seen: BTreeMap<String, usize> = BTreeMap::new();
    let mut consider = |sig: &Signature, block: &Block, helpers: &mut BTreeMap<String, Helper>, report: &mut BTreeMap<String, String>| {
        let name = sig.ident.to_string();
        if !is_new(&name) { return; }
        *seen.entry(name.clone()).or_insert(0) += 1;
        match helper_of(sig, block) {
            Ok(h) => { helpers.insert(name, h); }
            Err(e) => { report.insert(format!("inline-refused:{}::{}", rel, name), e); }
        }
    };
    for it in &file.items {
        match it {
            Item::Fn(f) => consider(&f.sig, &f.block, &mut helpers, &mut report),
            Item::Impl(im) if im.trait_.is_none() => for ii in &im.items { if let ImplItem::Fn(m) = ii { consider(&m.sig, &m.block, &mut helpers, &mut report); } },
            Item::Mod(md) if md.ident == "verif_hooks" || md.attrs.iter().any(|a| quote::quote!(#a).to_string().contains("cfg (test)")) => {}
            _ => {}
        }
    }
    for (n, c) in &seen { if *c > 1 { helpers.remove(n); report.insert(format!("inline-refused:{}::{}", rel, n), "defined more than once in this file".into()); } }
    if helpers.is_empty() { return report; }
    // helpers may call helpers: expand inside the helper bodies first (bounded depth; a cycle leaves a call behind -> the caller fails to translate)
    for _ in 0..3 {
        let snapshot: BTreeMap<String, Helper> = helpers.iter().map(|(k, h)| (k.clone(), Helper { name: h.name.clone(), has_self: h.has_self, params: h.params.clone(), body: h.body.clone() })).collect();
        for h in helpers.values_mut() {
            let mut rw = Rewriter { helpers: &snapshot, sites: BTreeMap::new(), fresh: 1000 };
            rw.visit_block_mut(&mut h.body);
        }
    }
    let mut rw = Rewriter { helpers: &helpers, sites: BTreeMap::new(), fresh: 0 };
    for it in file.items.iter_mut() {
        match it {
            Item::Fn(f) if !helpers.contains_key(&f.sig.ident.to_string()) => rw.visit_block_mut(&mut f.block),
            Item::Impl(im) => for ii in im.items.iter_mut() { if let ImplItem::Fn(m) = ii { if !(im.trait_.is_none() && helpers.contains_key(&m.sig.ident.to_string())) { rw.visit_block_mut(&mut m.block); } } },
            _ => {}
        }
    }
    for n in helpers.keys() {
        report.insert(format!("inlined:{}::{}", rel, n), rw.sites.get(n).copied().unwrap_or(0).to_string());
    }
    report
}

pub fn load_known() -> BTreeSet<(String, String)> {
    let mut s = BTreeSet::new();
    if let Ok(p) = std::env::var("RS2LEAN_KNOWN") {
        if let Ok(t) = std::fs::read_to_string(p) {
            for l in t.lines() { if let Some((a, b)) = l.split_once('\t') { s.insert((a.to_string(), b.to_string())); } }
        }
    }
    s
}
