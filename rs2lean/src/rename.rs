//! Renaming of locals back to the pinned names.
//!
//! The translators order the state of a loop alphabetically by variable name, and several generated proofs follow the
//! shape that results for the source as it was when the model was validated.  A maintainer who merely *renames* locals
//! would change that order and break proofs although nothing changed.  This pass undoes such a renaming before
//! translation: for every translated function the pinned table (`RS2LEAN_LOCALS`, written by `RS2LEAN_DUMP_LOCALS` on the
//! validated tree) lists the distinct names of its binders (parameters, `let`, `for`, closure and match-arm binders) in
//! order of first binding occurrence.  If the current function has the same number of distinct binder names, the k-th
//! current name is renamed to the k-th pinned name — a simultaneous bijective renaming of bound variables, which
//! preserves meaning provided no pinned name is also used *free* in the current body; that is checked, and the function
//! is left alone otherwise.  Anything other than a pure renaming changes the count or leaves the text different, and is
//! then judged by the equivalence theorem as before.
use std::collections::{BTreeMap, BTreeSet};
use syn::visit::{self, Visit};
use syn::visit_mut::{self, VisitMut};
use syn::*;

struct Binders { names: Vec<String>, seen: BTreeSet<String>, occ: Vec<String> }
impl Binders { fn add(&mut self, n: String) { if n != "self" { self.occ.push(n.clone()); if self.seen.insert(n.clone()) { self.names.push(n); } } } }
impl<'ast> Visit<'ast> for Binders {
    fn visit_pat_ident(&mut self, p: &'ast PatIdent) {
        let n = p.ident.to_string();
        // an identifier pattern that starts with an upper-case letter is a constant / unit variant (`None`), not a binder
        if !n.chars().next().map_or(false, |c| c.is_uppercase()) { self.add(n); }
        visit::visit_pat_ident(self, p);
    }
}

/// every binding occurrence, in order (a name bound again — shadowing, a loop variable reassigned by `let` — occurs again)
pub fn binder_occurrences(m: &ImplItemFn) -> Vec<String> {
    let mut b = Binders { names: vec![], seen: BTreeSet::new(), occ: vec![] };
    b.visit_signature(&m.sig);
    b.visit_block(&m.block);
    b.occ
}
fn distinct(occ: &[String]) -> Vec<String> { let mut s = BTreeSet::new(); occ.iter().filter(|n| s.insert((*n).clone())).cloned().collect() }
/// the shape of a binding sequence: each occurrence replaced by the index of its name's first occurrence
fn shape(occ: &[String]) -> Vec<usize> { let d = distinct(occ); occ.iter().map(|n| d.iter().position(|x| x == n).unwrap()).collect() }

struct Idents { all: BTreeSet<String> }
impl<'ast> Visit<'ast> for Idents {
    fn visit_ident(&mut self, i: &'ast Ident) { self.all.insert(i.to_string()); }
    fn visit_macro(&mut self, m: &'ast Macro) { collect_tokens(m.tokens.clone(), &mut self.all); visit::visit_macro(self, m); }
}
fn collect_tokens(ts: proc_macro2::TokenStream, acc: &mut BTreeSet<String>) {
    for t in ts { match t { proc_macro2::TokenTree::Ident(i) => { acc.insert(i.to_string()); } proc_macro2::TokenTree::Group(g) => collect_tokens(g.stream(), acc), _ => {} } }
}

struct Renamer<'a> { map: &'a BTreeMap<String, String> }
impl<'a> Renamer<'a> {
    fn ren(&self, i: &mut Ident) { if let Some(n) = self.map.get(&i.to_string()) { *i = Ident::new(n, i.span()); } }
    fn tokens(&self, ts: proc_macro2::TokenStream) -> proc_macro2::TokenStream {
        use proc_macro2::{Group, TokenTree};
        let mut out = vec![];
        let mut prev_dot = false;
        for t in ts {
            match t {
                TokenTree::Ident(mut i) => { if !prev_dot { self.ren(&mut i); } prev_dot = false; out.push(TokenTree::Ident(i)); }
                TokenTree::Group(g) => { let mut n = Group::new(g.delimiter(), self.tokens(g.stream())); n.set_span(g.span()); prev_dot = false; out.push(TokenTree::Group(n)); }
                TokenTree::Punct(p) => { prev_dot = p.as_char() == '.'; out.push(TokenTree::Punct(p)); }
                o => { prev_dot = false; out.push(o); }
            }
        }
        out.into_iter().collect()
    }
}
impl<'a> VisitMut for Renamer<'a> {
    fn visit_pat_ident_mut(&mut self, p: &mut PatIdent) { self.ren(&mut p.ident); visit_mut::visit_pat_ident_mut(self, p); }
    fn visit_expr_path_mut(&mut self, e: &mut ExprPath) {
        if e.qself.is_none() && e.path.leading_colon.is_none() && e.path.segments.len() == 1 && e.path.segments[0].arguments.is_none() {
            self.ren(&mut e.path.segments[0].ident);
        }
    }
    fn visit_field_value_mut(&mut self, f: &mut FieldValue) {
        // shorthand `G { x, y }`: the field name stays, the value is the (renamed) variable
        if f.colon_token.is_none() {
            if let (Member::Named(n), Expr::Path(p)) = (&f.member, &f.expr) {
                if p.path.is_ident(n) && self.map.contains_key(&n.to_string()) { f.colon_token = Some(Default::default()); }
            }
        }
        self.visit_expr_mut(&mut f.expr);
    }
    fn visit_field_pat_mut(&mut self, f: &mut FieldPat) {
        // shorthand pattern `G { x, y }`: the field name stays, the binder is renamed
        if f.colon_token.is_none() {
            if let (Member::Named(n), Pat::Ident(p)) = (&f.member, &*f.pat) {
                if p.ident == *n && self.map.contains_key(&n.to_string()) { f.colon_token = Some(Default::default()); }
            }
        }
        self.visit_pat_mut(&mut f.pat);
    }
    fn visit_macro_mut(&mut self, m: &mut Macro) { m.tokens = self.tokens(m.tokens.clone()); }
}

pub struct Locals { pinned: BTreeMap<String, Vec<String>>, dump: Option<String>, seen: std::cell::RefCell<BTreeMap<String, Vec<String>>> }

impl Locals {
    pub fn load() -> Locals {
        let mut pinned = BTreeMap::new();
        if let Ok(p) = std::env::var("RS2LEAN_LOCALS") {
            if let Ok(t) = std::fs::read_to_string(p) {
                for l in t.lines() { if let Some((k, v)) = l.split_once('\t') { pinned.insert(k.to_string(), v.split(' ').filter(|x| !x.is_empty()).map(|x| x.to_string()).collect()); } }
            }
        }
        Locals { pinned, dump: std::env::var("RS2LEAN_DUMP_LOCALS").ok(), seen: Default::default() }
    }
    /// rename the locals of `m` (translated under `key`) back to the pinned names when it differs from the pinned
    /// function by a renaming of locals only; returns a note for the report when it did
    pub fn normalise(&self, key: &str, m: &mut ImplItemFn) -> Option<String> {
        let cur_occ = binder_occurrences(m);
        if self.dump.is_some() { self.seen.borrow_mut().insert(key.to_string(), cur_occ.clone()); return None; }
        let pin_occ = self.pinned.get(key)?;
        // a renaming keeps the whole binding structure: the same number of binding occurrences, repeated in the same pattern
        if pin_occ.len() != cur_occ.len() || shape(pin_occ) != shape(&cur_occ) { return None; }
        let (pin, cur) = (&distinct(pin_occ), distinct(&cur_occ));
        if pin.len() != cur.len() || *pin == cur { return None; }
        // the same names in another order is a reordering of statements, not a renaming: leave it alone
        if pin.iter().collect::<BTreeSet<_>>() == cur.iter().collect::<BTreeSet<_>>() { return None; }
        let map: BTreeMap<String, String> = cur.iter().cloned().zip(pin.iter().cloned()).filter(|(a, b)| a != b).collect();
        // a pinned name must not occur free in the current function (it would be captured)
        let mut ids = Idents { all: BTreeSet::new() };
        ids.visit_impl_item_fn(m);
        let curset: BTreeSet<&String> = cur.iter().collect();
        for t in map.values() { if ids.all.contains(t) && !curset.contains(t) { return None; } }
        let mut r = Renamer { map: &map };
        r.visit_impl_item_fn_mut(m);
        Some(map.iter().map(|(a, b)| format!("{}->{}", a, b)).collect::<Vec<_>>().join(" "))
    }
    pub fn finish(&self) {
        if let Some(p) = &self.dump {
            let mut s = String::new();
            for (k, v) in self.seen.borrow().iter() { s.push_str(&format!("{}\t{}\n", k, v.join(" "))); }
            let _ = std::fs::write(p, s);
        }
    }
}
