//! limb-level translator: arith.rs, u256.rs, u512.rs, fields/fp.rs  →  lean/Sm9/Gen/LimbRust.lean
//!
//! Semantics emitted (namespace `Sm9.Gen.L`, Mathlib-free, imports only `Sm9.Model.Mont`):
//! * u64 / u128 / usize values are `Nat`.  `x as u128` is the identity; u128 `+`/`*` are emitted as
//!   exact `Nat` operations *after an interval analysis in the translator has shown that they cannot
//!   overflow 2^128* (inputs of type u64 are assumed < 2^64, their Rust type); `e as u64` is `% B64`
//!   unless the interval analysis shows `e < 2^64` (then the cast is exact and nothing is emitted);
//!   `x >> 64` on u128 is `/ B64`; `wrapping_mul` on u64 is `(a * b) % B64`; `wrapping_sub` on u128 is
//!   `(a + 2^128 - b) % 2^128`; u64 `<<`, `>>`, `|`, `&`, `!` are `(x <<< k) % B64`, `x >>> k`, `|||`, `&&&`,
//!   `B64 - 1 - x`.
//! * `U256` (and its `.0 : BigInt<4>`) is its value, a `Nat`; `as_ref()`/`as_mut()` is `U256.limbs x`,
//!   writing limbs back is `U256.ofLimbs`.  ark-ff primitives are mapped to the model's trusted `Big.*`.
//! * `MulBuffer<4>` is an 8-element list; `r[i]`, `r.b0[i]`, `r.b1[i]` are indices `i`, `i`, `4 + i`.
//! * `mac_with_carry!` / `adc!` are `Limb.mac B64` / `Limb.adc B64` (their `macro_rules!` bodies are
//!   *also* translated, as `mac_with_carry_macro` / `adc_macro`, and proved equal to these).
//! * `for` loops over literal ranges / `.iter().enumerate().take(n).skip(k)` are fully unrolled; every array
//!   index is then a closed term whose value the translator checks against the array length (an out of
//!   range index = Rust panic = the function is skipped).  Indices / shift amounts that stay symbolic
//!   produce a proof obligation (`limb_meta.json`, proved in LimbEquiv.lean).
//! * `while` loops become fuel-recursive auxiliary definitions returning `Option` (`none` = still looping).
//! * `&mut self` methods return the new `self` (first component), then `&mut` parameters, then the result; a function
//!   containing `debug_assert!` additionally returns the conjunction of the asserted conditions (as the model does).
//! * `l && r` / `l || r` whose right operand has effects is lowered to an `if`; `q.is_some() && ..` / `q.is_none() || ..`
//!   on an `Option` variable become a `match` inside which `q.unwrap()` / `q.as_mut().unwrap()` denote the payload.
//! * `Result<T, Error>` is `Option T` (the model does not distinguish the errors); any other `unwrap()` is a possible
//!   panic: the function returns `Outcome` (`Outcome.bind`), except in the functions listed in `unwrap_total`, where
//!   it is a total extraction plus an `isSome` proof obligation.  `return None` inside a loop / `match` of a function
//!   returning `Option` makes the enclosing block yield `none` (`Option.bind`).
//! * byte slices are `List UInt8`: `s.len()`, `&s[i..]` (`List.drop`), `BigEndian::read_u64` (`beVal` of the first
//!   8 bytes), `to_bytes_be` (`beBytes`), `[a, b].concat()`, `copy_from_slice` (equal lengths = obligation).
//! * dynamic `for` loops (`0..n`, `(0..n).rev()`, `s.chars()`, an iterator-valued call) are `List.foldl` of a named body
//!   definition `<fn>.forN` over the variables the body assigns (in declaration order); `BitIterator` is its state
//!   `(int, n)` and an iterator is the list it yields (`iterList next (n + 1) state`); `rng: &mut R` is a script of
//!   drawn u64s; `I: Into<U256>` of `FieldElement::pow` is monomorphised at the field type.
//! * `lib.rs` (`impl Fr`, `impl Fq`, `FromStr`, `TryFrom<&[u8]>`, `From<..> for [u8; 32]`): the public newtypes `Fr(fields::Fr)` /
//!   `Fq(fields::Fq)` are the identity; the wrappers become `LibFr.*` / `LibFq.*` and call the translated `Fp.*` at
//!   `Fr.P` / `Fq.P`; `match len { a..=b => .., c => .., _ => .. }` is a chain of `if`s; `.ok()`, `.ok_or(..)`,
//!   `.map_err(..)` are the identity on `Option`; `.map(Fr)` is the identity, `.map(path)` is `Option.map`;
//!   `x.add(&y)` etc. on field elements are the `*_inplace` methods.
//! Anything outside the subset: the function is skipped and reported, never mistranslated.
use proc_macro2::{Delimiter, Group, Ident as PIdent, Span, TokenStream, TokenTree};
use quote::quote;
use std::collections::{BTreeMap, BTreeSet, HashMap};
use std::fmt::Write as _;
use syn::*;

type R<T> = std::result::Result<T, String>;
const U64MAX: u128 = u64::MAX as u128;

const LEAN_KEYWORDS: &[&str] = &["by", "at", "from", "end", "fun", "do", "then", "else", "in", "have", "show", "with", "open", "def", "where", "variable", "instance", "class", "structure", "theorem", "match", "if", "let", "mut", "for", "return", "deriving", "namespace", "section", "local", "prefix", "infix", "notation", "macro", "syntax", "universe", "import", "export", "private", "protected", "abbrev", "example", "axiom", "opaque", "set_option", "using", "calc", "Type", "Prop", "Sort", "P", "to"];

fn ident(s: &str) -> String {
    if LEAN_KEYWORDS.contains(&s) { format!("{}_", s) } else { s.to_string() }
}

#[derive(Clone, Debug, PartialEq)]
enum Ty { U64, U128, Usize, U32, U8, Bool, U256, B256, U512, B512, Limbs(usize), MulBuf, Fp, FpArr, Tuple(Vec<Ty>), Opt(Box<Ty>), Unit, Lit, Bytes, Char, Chars, BoolList, Rng, BitIter, LibFr, LibFq }

impl Ty {
    fn is_int(&self) -> bool { matches!(self, Ty::U64 | Ty::U128 | Ty::Usize | Ty::U32 | Ty::Lit) }
    fn max(&self) -> Option<u128> {
        match self { Ty::U64 | Ty::Usize => Some(U64MAX), Ty::U32 => Some(u32::MAX as u128), Ty::U128 => Some(u128::MAX), _ => None }
    }
    fn bits(&self) -> Option<u128> {
        match self { Ty::U64 | Ty::Usize => Some(64), Ty::U32 => Some(32), Ty::U128 => Some(128), _ => None }
    }
    fn lean(&self) -> String {
        match self {
            Ty::U64 | Ty::U128 | Ty::Usize | Ty::U32 | Ty::Lit | Ty::U256 | Ty::B256 | Ty::U512 | Ty::B512 | Ty::Fp | Ty::LibFr | Ty::LibFq => "Nat".into(),
            Ty::Bool => "Bool".into(),
            Ty::U8 => "UInt8".into(),
            Ty::Char => "Char".into(),
            Ty::Chars => "List Char".into(),
            Ty::Bytes => "List UInt8".into(),
            Ty::BoolList => "List Bool".into(),
            Ty::BitIter => "(Nat × Nat)".into(),
            Ty::Limbs(_) | Ty::MulBuf | Ty::FpArr | Ty::Rng => "List Nat".into(),
            Ty::Tuple(v) => format!("({})", v.iter().map(|t| t.lean()).collect::<Vec<_>>().join(" × ")),
            Ty::Opt(t) => format!("Option {}", paren(&t.lean())),
            Ty::Unit => "Unit".into(),
        }
    }
    fn is_big(&self) -> bool { matches!(self, Ty::U256 | Ty::B256 | Ty::Fp | Ty::U512 | Ty::B512 | Ty::LibFr | Ty::LibFq) }
}

fn paren(s: &str) -> String {
    if s.chars().all(|c| c.is_alphanumeric() || c == '_' || c == '.') || (s.starts_with('(') && matching_close(s) == Some(s.len() - 1)) || (s.starts_with('[') && s.ends_with(']') && !s[1..].contains('[')) { s.to_string() } else { format!("({})", s) }
}
fn matching_close(s: &str) -> Option<usize> {
    let mut d = 0i32;
    for (i, c) in s.char_indices() {
        if c == '(' { d += 1 } else if c == ')' { d -= 1; if d == 0 { return Some(i) } }
    }
    None
}
fn indent(s: &str, n: usize) -> String {
    let pad = " ".repeat(n);
    s.lines().map(|l| format!("{}{}", pad, l)).collect::<Vec<_>>().join("\n")
}
fn tuple_of(v: &[String]) -> String { if v.len() == 1 { v[0].clone() } else { format!("({})", v.join(", ")) } }
/// effect of a block: None = pure, Some(false) = may run out of fuel (`Option`), Some(true) = may panic (`Outcome`)
fn eff_of(sts: &[St]) -> R<Option<bool>> {
    let mut e = None;
    for s in sts { if matches!(s, St::Abort) { match e { None => e = Some(false), Some(true) => return Err("fuel and panic effects in the same block".into()), _ => {} } } if let St::Bind(_, _, k) = s { match e { None => e = Some(*k), Some(x) if x != *k => return Err("fuel and panic effects in the same block".into()), _ => {} } } }
    Ok(e)
}
fn eff_ret(e: Option<bool>, s: &str) -> String { match e { None => s.to_string(), Some(false) => format!("some {}", paren(s)), Some(true) => format!("Outcome.ok {}", paren(s)) } }
fn short(e: &impl quote::ToTokens) -> String { quote!(#e).to_string().chars().take(90).collect() }

#[derive(Clone, Debug)]
struct Val { s: String, ty: Ty, bound: Option<u128>, k: Option<u128> }
impl Val {
    fn new(s: impl Into<String>, ty: Ty) -> Val { Val { s: s.into(), ty, bound: None, k: None } }
    fn ub(&self) -> Option<u128> { self.k.or(self.bound).or(self.ty.max()) }
}

#[derive(Clone, Debug)]
enum Kind { Plain, Const(u128), ZipIdx(BTreeMap<String, String>) }

#[derive(Clone, Debug)]
struct Var { ty: Ty, kind: Kind, bound: Option<u128>, view_of: Option<(String, bool)>, mutable: bool, id: usize, kc: Option<u128> }

#[derive(Default, Clone)]
struct Scope { vars: HashMap<String, Var>, mutated: BTreeSet<String> }

#[derive(Clone, Debug)]
enum St { Let(String, String), Bind(String, String, bool), Comment(String), Abort }

fn render(sts: &[St], fin: &str) -> String {
    let mut out = String::new();
    let mut ind = 0usize;
    let mut closes = 0usize;
    for st in sts {
        let pad = " ".repeat(ind);
        match st {
            St::Let(p, e) => {
                if e.contains('\n') { writeln!(out, "{}let {} := (\n{})", pad, p, indent(e, ind + 2)).unwrap(); }
                else { writeln!(out, "{}let {} := {}", pad, p, e).unwrap(); }
            }
            // a call that may run out of fuel: `Option.bind`
            St::Bind(p, e, panic) => {
                let m = if *panic { "Outcome.bind" } else { "Option.bind" };
                if e.contains('\n') { writeln!(out, "{}{} (\n{}) (fun {} =>", pad, m, indent(e, ind + 2), p).unwrap(); }
                else { writeln!(out, "{}{} ({}) (fun {} =>", pad, m, e, p).unwrap(); }
                ind += 2;
                closes += 1;
            }
            St::Comment(c) => writeln!(out, "{}-- {}", pad, c).unwrap(),
            // `return None` inside a block of a function returning Option: the block yields `none`
            St::Abort => { out.push_str(&format!("{}none", pad)); out.push_str(&")".repeat(closes)); return out; }
        }
    }
    out.push_str(&indent(fin, ind));
    out.push_str(&")".repeat(closes));
    out
}

#[derive(Clone, Debug, PartialEq)]
enum Recv { None, Ref, RefMut, Val }

#[derive(Clone, Debug)]
struct FnSig {
    lean: String,                 // fully qualified Lean name
    key: String,                  // report key, e.g. "U256.add"
    recv: Recv,
    self_ty: Ty,
    params: Vec<(String, Ty, bool)>, // (name, type, is `&mut`)
    ret: Ty,
    partial: bool,                // returns Option because of a while loop / fuel
    panics: bool,                 // returns Outcome because of an `unwrap()`
    has_dbg: bool,                // contains debug_assert!: returns the conjunction of the asserted conditions as a last component
    fuel_param: bool,             // takes an explicit leading fuel argument
    takes_p: bool,                // takes the MontParams first
    translated: bool,             // Gen definition exists (else `lean` names the model function)
}

#[derive(Clone, Debug)]
pub struct Obligation { pub name: String, pub binders: String, pub hyps: Vec<String>, pub goal: String }

pub struct Global { sigs: HashMap<(String, String), FnSig> }

fn tykey(t: &Ty) -> &'static str {
    match t { Ty::U256 => "U256", Ty::B256 => "B256", Ty::Fp => "Fp", Ty::U512 => "U512", Ty::B512 => "B512", Ty::BitIter => "BitIterator", Ty::LibFr => "LibFr", Ty::LibFq => "LibFq", _ => "" }
}

#[derive(Clone)]
struct Fx<'a> {
    g: &'a Global,
    key: String,
    lean_name: String,
    scopes: Vec<Scope>,
    bufs: Vec<Vec<St>>,
    fresh: usize,
    self_ty: Ty,
    recv: Recv,
    ret: Ty,
    mut_params: Vec<String>,
    p_arg: Option<String>,
    in_macro: bool,
    partial: bool,
    panics: bool,
    dbg: Vec<String>,
    in_assert: bool,
    assert_flags: Vec<String>,
    unwrapped: HashMap<String, String>,
    payload_mutated: BTreeSet<String>,
    pre: Vec<(*const Expr, Val)>,
    for_count: usize,
    generic_tys: Option<HashMap<String, Ty>>,
    retnone: bool,
    lib: Option<String>,      // lib.rs wrappers: Some("Fr") / Some("Fq")
    has_dbg: bool,
    facts: Vec<(usize, String)>,
    conds: Vec<(usize, String)>,
    obligations: Vec<Obligation>,
    aux_defs: String,
    aux_names: Vec<String>,
    fuels: Vec<String>,
    loop_count: usize,
    notes: Vec<String>,
    zip_generic: Option<String>, // const generic `T` of sum_of_products
    next_id: usize,
    calls: BTreeSet<String>,
}

fn words(s: &str) -> BTreeSet<String> {
    s.split(|c: char| !(c.is_alphanumeric() || c == '_')).filter(|w| !w.is_empty()).map(|w| w.to_string()).collect()
}

impl<'a> Fx<'a> {
    fn lookup(&self, n: &str) -> Option<(usize, &Var)> {
        for (i, sc) in self.scopes.iter().enumerate().rev() { if let Some(v) = sc.vars.get(n) { return Some((i, v)); } }
        None
    }
    fn declare(&mut self, n: &str, mut v: Var) {
        // a new declaration shadows: facts about the old name are stale
        self.forget(n);
        self.next_id += 1;
        v.id = self.next_id;
        self.scopes.last_mut().unwrap().vars.insert(n.to_string(), v);
    }
    fn plain(ty: Ty, mutable: bool) -> Var { Var { ty, kind: Kind::Plain, bound: None, view_of: None, mutable, id: 0, kc: None } }
    fn forget(&mut self, n: &str) {
        let n2 = ident(n);
        self.facts.retain(|f| !words(&f.1).contains(&n2));
        self.conds.retain(|f| !words(&f.1).contains(&n2));
    }
    /// variable `n` receives a new value by a Lean `let`: record it as mutated in every scope between its
    /// declaration and here, drop stale facts, invalidate limb views of it
    fn rebind_mark(&mut self, n: &str, writeback: bool) -> R<()> {
        let (d, _) = self.lookup(n).ok_or_else(|| format!("assignment to unknown variable {}", n))?;
        for sc in self.scopes.iter_mut().skip(d + 1) { sc.mutated.insert(n.to_string()); }
        if self.unwrapped.values().any(|v| v == n) { self.payload_mutated.insert(n.to_string()); }
        self.forget(n);
        if !writeback {
            for sc in self.scopes.iter_mut() {
                let dead: Vec<String> = sc.vars.iter().filter(|(_, v)| v.view_of.as_ref().map(|x| x.0 == n).unwrap_or(false)).map(|(k, _)| k.clone()).collect();
                for k in dead { sc.vars.remove(&k); }
            }
        }
        Ok(())
    }
    /// mutated variables in declaration order (stable under renaming)
    fn ordered(&self, muts: &BTreeSet<String>) -> Vec<String> {
        let mut v: Vec<(usize, String)> = muts.iter().map(|m| (self.lookup(m).map(|x| x.1.id).unwrap_or(0), m.clone())).collect();
        v.sort();
        v.into_iter().map(|x| x.1).collect()
    }
    fn note(&mut self, n: &str) { if !self.notes.iter().any(|x| x == n) { self.notes.push(n.to_string()); } }
    fn emit(&mut self, st: St) { self.bufs.last_mut().unwrap().push(st); }
    fn fresh(&mut self, base: &str) -> String { loop { self.fresh += 1; let n = format!("{}_{}", base, self.fresh); if self.lookup(&n).is_none() { return n; } } }
    fn in_scope_binders(&self) -> String {
        let mut seen = BTreeSet::new();
        let mut v = vec![];
        for sc in self.scopes.iter().rev() {
            let mut names: Vec<&String> = sc.vars.keys().collect();
            names.sort();
            for n in names {
                let var = &sc.vars[n];
                if !matches!(var.kind, Kind::Plain) { continue; }
                if seen.insert(n.clone()) { v.push(format!("({} : {})", ident(n), var.ty.lean())); }
            }
        }
        v.reverse();
        v.join(" ")
    }
    fn oblige(&mut self, goal: String) {
        let name = format!("{}.bound{}", self.key, self.obligations.len() + 1);
        let mut hyps: Vec<String> = self.conds.iter().map(|c| c.1.clone()).collect();
        hyps.extend(self.facts.iter().map(|c| c.1.clone()));
        let binders = self.in_scope_binders();
        self.obligations.push(Obligation { name, binders, hyps, goal });
    }
    /// static or deferred bounds check of an index into a fixed-length array
    fn check_index(&mut self, idx: &Val, len: u128, what: &str) -> R<()> {
        match idx.k {
            Some(k) => if k < len { Ok(()) } else { Err(format!("index {} out of range for {} (length {}): the Rust code panics", k, what, len)) },
            None => { self.oblige(format!("{} < {}", idx.s, len)); Ok(()) }
        }
    }

    // ---------------------------------------------------------------- blocks
    fn sub_block_raw<F: FnOnce(&mut Self) -> R<()>>(&mut self, f: F) -> R<(Vec<St>, BTreeSet<String>)> {
        self.scopes.push(Scope::default());
        self.bufs.push(vec![]);
        let r = f(self);
        let sts = self.bufs.pop().unwrap();
        let sc = self.scopes.pop().unwrap();
        let d = self.scopes.len();
        self.facts.retain(|f| f.0 <= d);
        self.conds.retain(|f| f.0 <= d);
        r?;
        Ok((sts, sc.mutated))
    }
    fn is_partial(sts: &[St]) -> bool { sts.iter().any(|s| matches!(s, St::Bind(..) | St::Abort)) }
    /// `let (mutated..) := (block)`
    fn emit_block(&mut self, sts: Vec<St>, muts: &BTreeSet<String>) -> R<()> {
        if muts.is_empty() {
            if Self::is_partial(&sts) { return Err("partial call in a block without effect".into()); }
            return Ok(());
        }
        let names: Vec<String> = self.ordered(muts).iter().map(|m| ident(m)).collect();
        let pat = tuple_of(&names);
        if let Some(k) = eff_of(&sts)? {
            let text = render(&sts, &eff_ret(Some(k), &pat));
            self.emit(St::Bind(pat, text, k));
        } else {
            let text = render(&sts, &pat);
            self.emit(St::Let(pat, text));
        }
        for m in muts { self.rebind_mark(m, true)?; }
        Ok(())
    }

    // ---------------------------------------------------------------- types
    fn ty_of(&self, t: &Type) -> R<Ty> {
        Ok(match t {
            Type::Reference(r) => self.ty_of(&r.elem)?,
            Type::Paren(p) => self.ty_of(&p.elem)?,
            Type::Tuple(t) => { if t.elems.is_empty() { Ty::Unit } else { Ty::Tuple(t.elems.iter().map(|e| self.ty_of(e)).collect::<R<Vec<_>>>()?) } }
            Type::Array(a) => {
                let el = self.ty_of(&a.elem)?;
                let len = quote!(#a).to_string();
                match el {
                    Ty::U8 => Ty::Bytes,
                    Ty::U64 => { let n = match &a.len { Expr::Lit(ExprLit { lit: Lit::Int(i), .. }) => i.base10_parse::<usize>().map_err(|e| e.to_string())?, _ => return Err(format!("array length {}", len)) }; Ty::Limbs(n) }
                    Ty::Fp => Ty::FpArr,
                    _ => return Err(format!("array type {}", len)),
                }
            }
            Type::Slice(sl) => match self.ty_of(&sl.elem)? { Ty::U8 => Ty::Bytes, Ty::U64 => Ty::Limbs(4), t => return Err(format!("slice of {:?}", t)) },
            Type::ImplTrait(it) => { let t = quote!(#it).to_string().replace(' ', ""); if t.starts_with("implIterator<Item=bool>") { Ty::BoolList } else { return Err(format!("type {}", t)) } }
            Type::Path(p) => {
                let last = p.path.segments.last().ok_or("empty path")?;
                if let Some(g) = &self.generic_tys { if let Some(t) = g.get(&last.ident.to_string()) { return Ok(t.clone()); } }
                if let Some(l) = &self.lib {
                    // lib.rs: `Fr` / `Fq` are the public newtypes, `fields::Fr` / `fields::Fq` the field_impl! types
                    let segs: Vec<String> = p.path.segments.iter().map(|s| s.ident.to_string()).collect();
                    if segs.len() == 2 && segs[0] == "fields" { if segs[1] == *l { return Ok(Ty::Fp); } else { return Err(format!("fields::{} in impl {}", segs[1], l)); } }
                    if segs.len() == 1 && (segs[0] == "Fr" || segs[0] == "Fq") { return Ok(if segs[0] == "Fr" { Ty::LibFr } else { Ty::LibFq }); }
                }
                match last.ident.to_string().as_str() {
                    "u64" => Ty::U64, "u128" => Ty::U128, "usize" => Ty::Usize, "u32" => Ty::U32, "bool" => Ty::Bool, "u8" => Ty::U8,
                    "str" => Ty::Chars, "char" => Ty::Char, "BitIterator" => Ty::BitIter,
                    "Result" => {
                        // `Result<T, Error>` is modelled as `Option T` (the model does not distinguish the errors)
                        if let PathArguments::AngleBracketed(a) = &last.arguments {
                            if let Some(GenericArgument::Type(t)) = a.args.first() { return Ok(Ty::Opt(Box::new(self.ty_of(t)?))); }
                        }
                        return Err("Result without argument".into());
                    }
                    "U256" => Ty::U256, "U512" => Ty::U512, "B256" => Ty::B256, "B512" => Ty::B512,
                    "Fq" | "Fr" | "Fp" => Ty::Fp,
                    "Self" => self.self_ty.clone(),
                    "Option" => {
                        if let PathArguments::AngleBracketed(a) = &last.arguments {
                            if let Some(GenericArgument::Type(t)) = a.args.first() { return Ok(Ty::Opt(Box::new(self.ty_of(t)?))); }
                        }
                        return Err("Option without argument".into());
                    }
                    o => return Err(format!("type {}", o)),
                }
            }
            _ => return Err(format!("type {}", short(t))),
        })
    }
}

// ==================================================================== expressions
fn lit_u128(e: &Expr) -> Option<u128> {
    match e {
        Expr::Lit(ExprLit { lit: Lit::Int(i), .. }) => i.base10_parse::<u128>().ok(),
        Expr::Paren(p) => lit_u128(&p.expr),
        Expr::Group(p) => lit_u128(&p.expr),
        _ => None,
    }
}
fn path_str(p: &Path) -> String { p.segments.iter().map(|s| s.ident.to_string()).collect::<Vec<_>>().join("::") }
fn strip(e: &Expr) -> &Expr {
    match e {
        Expr::Paren(p) => strip(&p.expr),
        Expr::Group(p) => strip(&p.expr),
        Expr::Reference(r) => strip(&r.expr),
        Expr::Unary(u) if matches!(u.op, UnOp::Deref(_)) => strip(&u.expr),
        _ => e,
    }
}

impl<'a> Fx<'a> {
    fn unify(&self, a: &Ty, b: &Ty) -> R<Ty> {
        if a == b { return Ok(a.clone()); }
        if *a == Ty::Lit && b.is_int() { return Ok(b.clone()); }
        if *b == Ty::Lit && a.is_int() { return Ok(a.clone()); }
        if a.is_big() && b.is_big() && ((matches!(a, Ty::U256 | Ty::B256) && matches!(b, Ty::U256 | Ty::B256)) || a == b) { return Ok(a.clone()); }
        Err(format!("type mismatch {:?} vs {:?}", a, b))
    }
    /// resolve a variable whose type is still "integer literal" from its use
    fn resolve_lit_var(&mut self, e: &Expr, to: &Ty) {
        if let Expr::Path(p) = strip(e) {
            let n = path_str(&p.path);
            for sc in self.scopes.iter_mut().rev() {
                if let Some(v) = sc.vars.get_mut(&n) { if v.ty == Ty::Lit && to.is_int() && *to != Ty::Lit { v.ty = to.clone(); } return; }
            }
        }
    }

    fn expr(&mut self, e: &Expr, exp: Option<&Ty>) -> R<Val> {
        // operands already evaluated by the caller (their hoisted statements must not be emitted twice)
        if let Some(i) = self.pre.iter().position(|(p, _)| *p == e as *const Expr) { return Ok(self.pre.remove(i).1); }
        match e {
            Expr::Paren(p) => { let v = self.expr(&p.expr, exp)?; Ok(Val { s: paren(&v.s), ..v }) }
            Expr::Group(g) => self.expr(&g.expr, exp),
            Expr::Reference(r) => self.expr(&r.expr, exp),
            Expr::Unary(u) => match u.op {
                UnOp::Deref(_) => self.expr(&u.expr, exp),
                UnOp::Not(_) => {
                    let v = self.expr(&u.expr, exp)?;
                    match v.ty {
                        Ty::Bool => Ok(Val::new(format!("(!{})", paren(&v.s)), Ty::Bool)),
                        Ty::U64 => Ok(Val { s: format!("(B64 - 1 - {})", paren(&v.s)), ty: Ty::U64, bound: None, k: None }),
                        _ => Err(format!("`!` on {:?}", v.ty)),
                    }
                }
                UnOp::Neg(_) => {
                    let v = self.expr(&u.expr, None)?;
                    if v.ty != Ty::Fp { return Err("unary minus on a non-field value".into()); }
                    self.pre.push((&*u.expr as *const Expr, v));
                    let r = self.call_named("Fp", "neg_inplace", Some(&u.expr), &[]);
                    self.pre.clear();
                    r
                }
                _ => Err("unary op".into()),
            },
            Expr::Cast(c) => {
                let to = self.ty_of(&c.ty)?;
                let v = self.expr(&c.expr, None)?;
                if v.ty == Ty::Lit && v.k.is_none() { return Err(format!("cannot infer the integer type of `{}` before the cast", short(&c.expr))); }
                if !v.ty.is_int() || !to.is_int() { return Err(format!("cast {:?} -> {:?}", v.ty, to)); }
                let ub = v.ub().ok_or("cast of unbounded literal")?;
                let max = to.max().unwrap();
                if ub <= max { Ok(Val { s: v.s, ty: to, bound: Some(ub), k: v.k }) }
                else if to == Ty::U64 { Ok(Val { s: format!("({} % B64)", paren(&v.s)), ty: Ty::U64, bound: Some(U64MAX), k: None }) }
                else { Err(format!("truncating cast to {:?}", to)) }
            }
            Expr::Binary(b) => self.binary(b, exp),
            Expr::Lit(l) => match &l.lit {
                Lit::Int(i) => {
                    let k = i.base10_parse::<u128>().map_err(|e| e.to_string())?;
                    let ty = match i.suffix() { "" => match exp { Some(t) if t.is_int() => t.clone(), _ => Ty::Lit }, "u64" => Ty::U64, "u128" => Ty::U128, "usize" => Ty::Usize, s => return Err(format!("literal suffix {}", s)) };
                    if let Some(m) = ty.max() { if k > m { return Err("literal out of range".into()); } }
                    Ok(Val { s: k.to_string(), ty, bound: Some(k), k: Some(k) })
                }
                Lit::Bool(b) => Ok(Val::new(b.value.to_string(), Ty::Bool)),
                _ => Err("literal".into()),
            },
            Expr::Path(p) => self.path(p, exp),
            Expr::Field(f) => self.field(f),
            Expr::Index(i) => self.index_read(i),
            Expr::MethodCall(m) => self.method(m, exp),
            Expr::Call(c) => self.call(c, exp),
            Expr::Macro(m) => self.macro_expr(&m.mac),
            Expr::Tuple(t) if t.elems.is_empty() => Ok(Val::new("()", Ty::Unit)),
            Expr::Repeat(rp) => {
                let n = lit_u128(&rp.len).ok_or("array repeat with a non-literal length")?;
                match &*rp.expr {
                    Expr::Lit(ExprLit { lit: Lit::Int(i), .. }) if i.base10_digits() == "0" => match i.suffix() {
                        "u8" => Ok(Val { s: format!("(List.replicate {} (0 : UInt8))", n), ty: Ty::Bytes, bound: None, k: Some(n) }),
                        "" | "u64" => Ok(Val::new(format!("[{}]", vec!["0"; n as usize].join(", ")), Ty::Limbs(n as usize))),
                        s => Err(format!("array of {}", s)),
                    },
                    _ => Err("array repeat of a non-zero element".into()),
                }
            }
            Expr::Match(_) => Err("`match` in expression position".into()),
            Expr::Block(b) if b.label.is_none() => {
                // `{ stmts; value }`: the statements join the enclosing sequence; names declared inside must be new
                let n = b.block.stmts.len();
                if n == 0 { return Err("empty block".into()); }
                for st in &b.block.stmts { if let Stmt::Local(l) = st { let (ns, _) = self.pat_names(&l.pat)?; for (x, _) in ns { if x != "_" && self.lookup(&x).is_some() { return Err(format!("block expression re-declares `{}`", x)); } } } }
                self.scopes.push(Scope::default());
                let r = (|| { for st in &b.block.stmts[..n - 1] { self.stmt(st)?; } match &b.block.stmts[n - 1] { Stmt::Expr(e, None) => self.expr(e, exp), _ => Err("block without a value".into()) } })();
                let sc = self.scopes.pop().unwrap();
                for m in &sc.mutated { let _ = self.rebind_mark(m, true); }
                r
            }
            Expr::Struct(st) if path_str(&st.path) == "BitIterator" => {
                let mut int = None; let mut n = None;
                for fv in &st.fields { if let Member::Named(id) = &fv.member { if id == "int" { int = Some(self.expr(&fv.expr, Some(&Ty::U256))?); } else if id == "n" { n = Some(self.expr(&fv.expr, Some(&Ty::Usize))?); } } }
                match (int, n) { (Some(i), Some(n)) if i.ty == Ty::U256 && n.ty.is_int() => Ok(Val::new(format!("({}, {})", i.s, n.s), Ty::BitIter)), _ => Err("BitIterator literal".into()) }
            }
            Expr::Tuple(t) => {
                let exps: Vec<Option<Ty>> = match exp { Some(Ty::Tuple(v)) if v.len() == t.elems.len() => v.iter().map(|x| Some(x.clone())).collect(), _ => vec![None; t.elems.len()] };
                let mut vs = vec![];
                for (x, ex) in t.elems.iter().zip(exps.iter()) { vs.push(self.expr(x, ex.as_ref())?); }
                Ok(Val::new(format!("({})", vs.iter().map(|v| v.s.clone()).collect::<Vec<_>>().join(", ")), Ty::Tuple(vs.iter().map(|v| v.ty.clone()).collect())))
            }
            Expr::Array(a) => {
                let mut vs = vec![];
                for x in &a.elems { let v = self.expr(x, Some(&Ty::U64))?; if self.unify(&v.ty, &Ty::U64).is_err() { return Err("array of non-u64".into()); } self.resolve_lit_var(x, &Ty::U64); vs.push(v.s); }
                Ok(Val::new(format!("[{}]", vs.join(", ")), Ty::Limbs(vs.len())))
            }
            other => Err(format!("unsupported expression: {}", short(other))),
        }
    }

    fn path(&mut self, p: &ExprPath, exp: Option<&Ty>) -> R<Val> {
        let s = path_str(&p.path);
        if let Some((_, v)) = self.lookup(&s) {
            let v = v.clone();
            return match v.kind {
                Kind::Const(k) => Ok(Val { s: k.to_string(), ty: v.ty.clone(), bound: Some(k), k: Some(k) }),
                Kind::ZipIdx(_) => Err(format!("fold index `{}` used other than as an index into the zipped arrays", s)),
                Kind::Plain => {
                    let mut ty = v.ty.clone();
                    if ty == Ty::Lit { if let Some(t) = exp { if t.is_int() && *t != Ty::Lit { ty = t.clone(); self.resolve_lit_var(&Expr::Path(p.clone()), t); } } }
                    Ok(Val { s: ident(&s), ty, bound: if v.mutable { None } else { v.bound }, k: if v.mutable { None } else { v.kc } })
                }
            };
        }
        let pa = self.p_arg.clone();
        match (s.as_str(), self.in_macro) {
            ("None", _) => Ok(Val::new("none", exp.cloned().unwrap_or(Ty::Opt(Box::new(Ty::Lit))))),
            ("MODULUS__", true) => Ok(Val::new(format!("{}.modulus", pa.unwrap()), Ty::U256)),
            ("RSQUARED__", true) => Ok(Val::new(format!("{}.rsquared", pa.unwrap()), Ty::U256)),
            ("ONE__", true) => Ok(Val::new(format!("{}.one", pa.unwrap()), Ty::U256)),
            ("INV__", true) => Ok(Val::new(format!("{}.inv", pa.unwrap()), Ty::U64)),
            ("FQ", false) => Ok(Val::new("Consts.FQ", Ty::U256)),
            ("FQ_INV", false) => Ok(Val::new("Consts.FQ_INV", Ty::U64)),
            ("FQ_SQUARED", false) => Ok(Val::new("Consts.FQ_SQUARED", Ty::U256)),
            ("FQ_ONE", false) => Ok(Val::new("Consts.FQ_ONE", Ty::U256)),
            ("FQ_MINUS1_DIV4", false) => { self.note("FQ_MINUS1_DIV4 is the model constant FqL.minus1_div4"); Ok(Val::new("Sm9.FqL.minus1_div4", Ty::Fp)) }
            ("FQ_MINUS5_DIV8", false) => { self.note("FQ_MINUS5_DIV8 is the model constant FqL.minus5_div8"); Ok(Val::new("Sm9.FqL.minus5_div8", Ty::Fp)) }
            _ => Err(format!("unknown name {}", s)),
        }
    }

    fn field(&mut self, f: &ExprField) -> R<Val> {
        let b = self.expr(&f.base, None)?;
        match (&f.member, &b.ty) {
            (Member::Unnamed(i), Ty::LibFr) | (Member::Unnamed(i), Ty::LibFq) if i.index == 0 => Ok(Val::new(b.s, Ty::Fp)),
            (Member::Unnamed(i), Ty::Fp) if i.index == 0 => Ok(Val::new(b.s, Ty::U256)),
            (Member::Unnamed(i), Ty::U256) if i.index == 0 => Ok(Val::new(b.s, Ty::B256)),
            (Member::Unnamed(i), Ty::U512) if i.index == 0 => Ok(Val::new(b.s, Ty::B512)),
            (Member::Unnamed(i), Ty::B256) if i.index == 0 => Ok(Val::new(format!("(U256.limbs {})", paren(&b.s)), Ty::Limbs(4))),
            (Member::Unnamed(i), Ty::Tuple(ts)) => {
                let n = ts.len(); let k = i.index as usize;
                if k >= n { return Err("tuple index".into()); }
                let mut s = paren(&b.s);
                for _ in 0..k { s = format!("{}.2", s); }
                if k + 1 < n { s = format!("{}.1", s); }
                Ok(Val::new(s, ts[k].clone()))
            }
            (Member::Named(n), Ty::BitIter) if n == "int" => Ok(Val::new(format!("{}.1", paren(&b.s)), Ty::U256)),
            (Member::Named(n), Ty::BitIter) if n == "n" => Ok(Val::new(format!("{}.2", paren(&b.s)), Ty::Usize)),
            (Member::Named(n), Ty::MulBuf) if n == "b0" => Ok(Val::new(format!("(List.take 4 {})", paren(&b.s)), Ty::Limbs(4))),
            (Member::Named(n), Ty::MulBuf) if n == "b1" => Ok(Val::new(format!("(List.drop 4 {})", paren(&b.s)), Ty::Limbs(4))),
            _ => Err(format!("field access {}", short(f))),
        }
    }

    /// (list term, offset text, length) of an indexable expression
    fn indexable(&mut self, base: &Expr) -> R<(String, Option<&'static str>, u128)> {
        // r.b0 / r.b1 on a MulBuffer variable: index into the 8-element list directly
        if let Expr::Field(f) = strip(base) {
            if let Member::Named(n) = &f.member {
                let b = self.expr(&f.base, None)?;
                if b.ty == Ty::MulBuf {
                    return match n.to_string().as_str() { "b0" => Ok((b.s, None, 4)), "b1" => Ok((b.s, Some("4"), 4)), _ => Err("MulBuffer field".into()) };
                }
            }
        }
        let b = self.expr(base, None)?;
        match b.ty {
            Ty::MulBuf => Ok((b.s, None, 8)),
            Ty::Limbs(n) => Ok((b.s, None, n as u128)),
            Ty::U256 | Ty::B256 | Ty::Fp => Ok((format!("(U256.limbs {})", paren(&b.s)), None, 4)),
            _ => Err(format!("indexing into {:?}", b.ty)),
        }
    }

    fn index_read(&mut self, i: &ExprIndex) -> R<Val> {
        // a[i] with `i` the fold index over zipped arrays
        if let (Expr::Path(bp), Expr::Path(ip)) = (strip(&i.expr), strip(&i.index)) {
            if let Some((_, Var { kind: Kind::ZipIdx(m), .. })) = self.lookup(&path_str(&ip.path)) {
                let arr = path_str(&bp.path);
                return match m.get(&arr) { Some(el) => Ok(Val::new(el.clone(), Ty::Fp)), None => Err(format!("fold index used on `{}`, which is not one of the zipped arrays", arr)) };
            }
        }
        if let Expr::Range(r) = strip(&i.index) {
            let b = self.expr(&i.expr, None)?;
            if b.ty != Ty::Bytes { return Err(format!("range index into {:?}", b.ty)); }
            if r.end.is_some() { return Err("slice with an upper bound".into()); }
            return match &r.start {
                None => Ok(b),
                Some(st) => {
                    let k = self.expr(st, Some(&Ty::Usize))?;
                    if !k.ty.is_int() { return Err("non-integer slice bound".into()); }
                    self.oblige(format!("{} ≤ List.length {}", k.s, paren(&b.s)));
                    Ok(Val::new(format!("(List.drop {} {})", paren(&k.s), paren(&b.s)), Ty::Bytes))
                }
            };
        }
        let idx = self.expr(&i.index, Some(&Ty::Usize))?;
        if !idx.ty.is_int() { return Err("non-integer index".into()); }
        {
            // Vec<Fp>: `ints[k]`
            let b = self.expr(&i.expr, None);
            if let Ok(b) = b { if b.ty == Ty::FpArr {
                self.oblige(format!("{} < List.length {}", idx.s, paren(&b.s)));
                return Ok(Val::new(format!("(List.getD {} {} 0)", paren(&b.s), paren(&idx.s)), Ty::Fp));
            } }
        }
        let (list, off, len) = self.indexable(&i.expr)?;
        self.check_index(&idx, len, &short(&i.expr))?;
        let ix = match off { Some(o) => format!("({} + {})", o, idx.s), None => paren(&idx.s) };
        Ok(Val { s: format!("(U256.getL {} {})", paren(&list), ix), ty: Ty::U64, bound: None, k: None })
    }

    /// `X.is_some()` / `X.is_none()` on an `Option` variable
    fn option_guard(&self, e: &Expr, want_some: bool) -> Option<(String, Ty)> {
        let e = match e { Expr::Paren(p) => &*p.expr, o => o };
        if let Expr::MethodCall(m) = e {
            if m.args.is_empty() && m.method == (if want_some { "is_some" } else { "is_none" }) {
                if let Expr::Path(p) = strip(&m.receiver) {
                    let n = path_str(&p.path);
                    if let Some((_, Var { ty: Ty::Opt(inner), kind: Kind::Plain, .. })) = self.lookup(&n) { return Some((n, (**inner).clone())); }
                }
            }
        }
        None
    }

    /// `l && r` / `l || r`.  The right operand is evaluated only when needed: if it has effects (calls that rebind
    /// variables, may panic, ...) the operator is lowered to an `if`; `X.is_some() && r` / `X.is_none() || r` become a
    /// `match` on `X` inside which `X.unwrap()` / `X.as_mut().unwrap()` denote the payload.
    fn short_circuit(&mut self, b: &ExprBinary, is_and: bool) -> R<Val> {
        let guard = self.option_guard(&b.left, is_and);
        let l = match &guard { None => { let l = self.expr(&b.left, Some(&Ty::Bool))?; if l.ty != Ty::Bool { return Err("&&/|| on non-bool".into()); } Some(l) } Some(_) => None };
        let saved_flags = std::mem::take(&mut self.assert_flags);
        let mut rv: Option<Val> = None;
        let res = {
            let rvr = &mut rv; let g2 = guard.clone();
            self.sub_block_raw(|fx| {
                if let Some((x, inner)) = &g2 { let pv = format!("{}_v", x); fx.declare(&pv, Self::plain(inner.clone(), true)); fx.unwrapped.insert(x.clone(), pv); }
                let r = fx.expr(&b.right, Some(&Ty::Bool));
                if let Some((x, _)) = &g2 {
                    let pv = fx.unwrapped.remove(x).unwrap();
                    if fx.payload_mutated.remove(&pv) { fx.emit(St::Let(ident(x), format!("some {}", ident(&pv)))); fx.rebind_mark(x, false)?; }
                }
                *rvr = Some(r?);
                Ok(())
            })
        };
        let fl = std::mem::replace(&mut self.assert_flags, saved_flags);
        let (sts, muts) = res?;
        let mut r = rv.unwrap();
        if r.ty != Ty::Bool { return Err("&&/|| on non-bool".into()); }
        if !fl.is_empty() { r.s = format!("({} && {})", fl.join(" && "), r.s); }
        let dflt = if is_and { "false" } else { "true" };
        if sts.iter().all(|s| matches!(s, St::Comment(_))) && muts.is_empty() {
            return Ok(Val::new(match (&guard, &l) {
                (Some((x, _)), _) => format!("(match {} with | none => {} | some {}_v => {})", ident(x), dflt, ident(x), r.s),
                (None, Some(l)) => format!("({} {} {})", l.s, if is_and { "&&" } else { "||" }, r.s),
                _ => unreachable!(),
            }, Ty::Bool));
        }
        let eff = eff_of(&sts)?;
        let sc = self.fresh("sc");
        let mut names: Vec<String> = self.ordered(&muts).iter().map(|m| ident(m)).collect();
        let mut dnames = names.clone(); dnames.push(dflt.to_string());
        let mut vnames = names.clone(); vnames.push(r.s.clone());
        names.push(sc.clone());
        let block = render(&sts, &eff_ret(eff, &tuple_of(&vnames)));
        let dfin = eff_ret(eff, &tuple_of(&dnames));
        let text = match (&guard, &l) {
            (Some((x, _)), _) => format!("match {} with\n| none => {}\n| some {}_v =>\n{}", ident(x), dfin, ident(x), indent(&block, 2)),
            (None, Some(l)) => if is_and { format!("if {} then\n{}\nelse\n  {}", l.s, indent(&block, 2), dfin) } else { format!("if {} then\n  {}\nelse\n{}", l.s, dfin, indent(&block, 2)) },
            _ => unreachable!(),
        };
        let pat = tuple_of(&names);
        match eff { Some(k) => self.emit(St::Bind(pat, text, k)), None => self.emit(St::Let(pat, text)) }
        for m in &muts { self.rebind_mark(m, true)?; }
        Ok(Val::new(sc, Ty::Bool))
    }

    fn binary(&mut self, b: &ExprBinary, exp: Option<&Ty>) -> R<Val> {
        use BinOp::*;
        // short-circuit operators: the right operand must be free of effects
        if matches!(b.op, And(_) | Or(_)) { return self.short_circuit(b, matches!(b.op, And(_))); }
        let is_cmp = matches!(b.op, Lt(_) | Le(_) | Gt(_) | Ge(_) | Eq(_) | Ne(_));
        let is_shift = matches!(b.op, Shl(_) | Shr(_));
        let sub_exp: Option<Ty> = if is_cmp { None } else { exp.cloned() };
        let mut l = self.expr(&b.left, sub_exp.as_ref())?;
        let mut r = self.expr(&b.right, if is_shift { None } else if l.ty != Ty::Lit { Some(&l.ty) } else { sub_exp.as_ref() })?;
        if !is_shift {
            if l.ty == Ty::Lit && r.ty != Ty::Lit && r.ty.is_int() { l = self.expr(&b.left, Some(&r.ty))?; if l.ty == Ty::Lit { l.ty = r.ty.clone(); } }
            if r.ty == Ty::Lit && l.ty != Ty::Lit && l.ty.is_int() { self.resolve_lit_var(&b.right, &l.ty); r.ty = l.ty.clone(); }
            if l.ty == Ty::Lit && r.ty != Ty::Lit { self.resolve_lit_var(&b.left, &r.ty); }
        }
        // field operators forward to the *_inplace methods (fields/utils.rs binop macros)
        if l.ty == Ty::Fp && r.ty == Ty::Fp && matches!(b.op, Add(_) | Sub(_) | Mul(_)) {
            let m = match b.op { Add(_) => "add_inplace", Sub(_) => "sub_inplace", _ => "mul_inplace" };
            self.pre.push((&*b.left as *const Expr, l));
            self.pre.push((&*b.right as *const Expr, r));
            let res = self.call_named("Fp", m, Some(&b.left), std::slice::from_ref(&*b.right));
            self.pre.clear();
            return res;
        }
        if is_cmp {
            let t = self.unify(&l.ty, &r.ty)?;
            if !(t.is_int() || t.is_big() || (t == Ty::Bool && matches!(b.op, Eq(_) | Ne(_)))) { return Err(format!("comparison on {:?}", t)); }
            if t == Ty::Lit && (l.k.is_none() || r.k.is_none()) { return Err("comparison of integers of unknown type".into()); }
            // `0 != x` is `x != 0`: a literal on the left of `==` / `!=` is moved to the right (canonical spelling)
            if matches!(b.op, Eq(_) | Ne(_)) && l.k.is_some() && r.k.is_none() { std::mem::swap(&mut l, &mut r); }
            let s = match b.op {
                Lt(_) => format!("(decide ({} < {}))", l.s, r.s), Le(_) => format!("(decide ({} ≤ {}))", l.s, r.s),
                Gt(_) => format!("(decide ({} > {}))", l.s, r.s), Ge(_) => format!("(decide ({} ≥ {}))", l.s, r.s),
                Eq(_) => format!("({} == {})", l.s, r.s), _ => format!("({} != {})", l.s, r.s),
            };
            return Ok(Val::new(s, Ty::Bool));
        }
        if is_shift {
            if !l.ty.is_int() || !r.ty.is_int() { return Err("shift on non-integers".into()); }
            let mut lt = l.ty.clone();
            if lt == Ty::Lit { match exp { Some(t) if t.is_int() && *t != Ty::Lit => lt = t.clone(), _ => return Err("shift of an integer literal of unknown type".into()) } }
            let bits = lt.bits().unwrap();
            match r.k { Some(k) => if k >= bits { return Err("shift amount ≥ bit width: the Rust code panics".into()); }, None => self.oblige(format!("{} < {}", r.s, bits)) }
            if matches!(b.op, Shr(_)) {
                let bound = match (l.ub(), r.k) { (Some(u), Some(k)) => Some(u >> k), (u, _) => u };
                let s = if lt == Ty::U128 && r.k == Some(64) { format!("({} / B64)", paren(&l.s)) } else { format!("({} >>> {})", paren(&l.s), paren(&r.s)) };
                return Ok(Val { s, ty: lt, bound, k: None });
            }
            return match lt {
                Ty::U64 => Ok(Val { s: format!("(({} <<< {}) % B64)", paren(&l.s), paren(&r.s)), ty: Ty::U64, bound: None, k: None }),
                _ => Err(format!("`<<` on {:?}", lt)),
            };
        }
        let t = self.unify(&l.ty, &r.ty)?;
        if !t.is_int() { return Err(format!("arithmetic on {:?}", t)); }
        let max = t.max();
        let (lu, ru) = (l.ub(), r.ub());
        match b.op {
            Add(_) | Mul(_) => {
                let is_add = matches!(b.op, Add(_));
                let bound = match (lu, ru) { (Some(a), Some(c)) => if is_add { a.checked_add(c) } else { a.checked_mul(c) }, _ => None };
                let bound = bound.ok_or_else(|| format!("possible {:?} overflow in `{}`", t, short(b)))?;
                if let Some(m) = max { if bound > m { return Err(format!("possible {:?} overflow in `{}`", t, short(b))); } }
                let k = match (l.k, r.k) { (Some(a), Some(c)) => Some(if is_add { a + c } else { a * c }), _ => None };
                Ok(Val { s: format!("({} {} {})", l.s, if is_add { "+" } else { "*" }, r.s), ty: t, bound: Some(bound), k })
            }
            Sub(_) => match (l.k, r.k) {
                (Some(a), Some(c)) => { let k = a.checked_sub(c).ok_or("subtraction underflow: the Rust code panics")?; Ok(Val { s: format!("({} - {})", l.s, r.s), ty: t, bound: Some(k), k: Some(k) }) }
                _ => {
                    if t == Ty::Lit { return Err("subtraction of literals of unknown type".into()); }
                    // underflow = panic: left to an obligation
                    self.oblige(format!("{} ≤ {}", r.s, l.s));
                    Ok(Val { s: format!("({} - {})", l.s, r.s), ty: t, bound: l.ub(), k: None })
                }
            },
            BitOr(_) | BitAnd(_) => {
                if t == Ty::Lit { return Err("bit operation on literals".into()); }
                let (op, bound) = if matches!(b.op, BitOr(_)) { ("|||", max) } else { ("&&&", match (lu, ru) { (Some(a), Some(c)) => Some(a.min(c)), _ => max }) };
                Ok(Val { s: format!("({} {} {})", l.s, op, r.s), ty: t, bound, k: None })
            }
            _ => Err(format!("binary operator in `{}`", short(b))),
        }
    }

    /// condition of an `if` / `while`: a bare comparison is emitted as a `Prop` (as the model does)
    fn cond(&mut self, e: &Expr) -> R<String> {
        let v = self.expr(e, Some(&Ty::Bool))?;
        if v.ty != Ty::Bool { return Err("non-bool condition".into()); }
        let s = v.s.trim().to_string();
        if let Some(inner) = s.strip_prefix("(decide (").and_then(|x| x.strip_suffix("))")) {
            // only if the parentheses of `decide ( .. )` really are the outermost pair
            let probe = format!("({})", inner);
            if matching_close(&probe) == Some(probe.len() - 1) { return Ok(inner.to_string()); }
        }
        Ok(s)
    }
}

// ==================================================================== calls
/// functions in which `unwrap()` is translated as a total extraction plus a proof obligation `isSome`
/// (the model treats them as total); everywhere else `unwrap()` is a possible panic (`Outcome`)
fn unwrap_total(key: &str) -> bool { matches!(key, "U512.new") }
fn call_fuel(key: &str) -> Option<&'static str> { match key { "U256.add_carry" => Some("8"), _ => None } }

impl<'a> Fx<'a> {
    /// the variable a place expression denotes (`x`, `*x`, `x.0`, `x.0.0` through the newtype layers)
    fn place_var(&mut self, e: &Expr) -> R<String> {
        match strip(e) {
            Expr::Path(p) => {
                let n = path_str(&p.path);
                match self.lookup(&n) { Some((_, v)) if matches!(v.kind, Kind::Plain) => Ok(n), _ => Err(format!("`{}` is not a variable", n)) }
            }
            Expr::MethodCall(m) if (m.method == "unwrap" || m.method == "as_mut") && m.args.is_empty() => {
                // q.as_mut().unwrap() inside `q.is_some() && ..`: the payload
                let mut rcv = strip(&m.receiver);
                if let Expr::MethodCall(m2) = rcv { if (m2.method == "as_mut" || m2.method == "as_ref") && m2.args.is_empty() { rcv = strip(&m2.receiver); } }
                if let Expr::Path(p) = rcv { if let Some(pv) = self.unwrapped.get(&path_str(&p.path)) { if m.method == "unwrap" { return Ok(pv.clone()); } } }
                Err(format!("unsupported place `{}`", short(e)))
            }
            Expr::Index(ix) if matches!(strip(&ix.index), Expr::Range(r) if r.start.is_none() && r.end.is_none()) => self.place_var(&ix.expr),
            Expr::Field(f) => {
                if let Member::Unnamed(i) = &f.member {
                    if i.index == 0 {
                        let b = self.expr(&f.base, None)?;
                        if matches!(b.ty, Ty::Fp | Ty::U256 | Ty::U512 | Ty::LibFr | Ty::LibFq) { return self.place_var(&f.base); }
                    }
                }
                Err(format!("unsupported place `{}`", short(e)))
            }
            _ => Err(format!("unsupported place `{}`", short(e))),
        }
    }

    fn sig(&self, tk: &str, name: &str) -> R<FnSig> {
        self.g.sigs.get(&(tk.to_string(), name.to_string())).cloned().ok_or_else(|| format!("call of unknown function {}::{}", tk, name))
    }

    fn call_named(&mut self, tk: &str, name: &str, recv: Option<&Expr>, args: &[Expr]) -> R<Val> {
        let sig = self.sig(tk, name)?;
        self.call_sig(&sig, recv, args)
    }

    fn call_sig(&mut self, sig: &FnSig, recv: Option<&Expr>, args: &[Expr]) -> R<Val> {
        if sig.lean.is_empty() { return Err(format!("calls {} which is neither translated nor modelled", sig.key)); }
        if !sig.translated && !sig.lean.starts_with("Big.") && !self.notes.iter().any(|n| n.contains(&sig.lean)) { self.notes.push(format!("calls the model function {} directly", sig.lean)); }
        if sig.translated { self.calls.insert(sig.key.clone()); }
        if args.len() != sig.params.len() { return Err(format!("arity mismatch calling {}", sig.key)); }
        let mut parts: Vec<String> = vec![sig.lean.clone()];
        if sig.fuel_param { parts.push(call_fuel(&sig.key).ok_or_else(|| format!("no fuel configured for calls of {}", sig.key))?.to_string()); }
        if sig.takes_p { parts.push(self.p_arg.clone().ok_or("field call without Montgomery parameters in scope")?); }
        if sig.lean.starts_with("Big.") && matches!(sig.key.as_str(), "B256.add_with_carry" | "B256.sub_with_borrow" | "B256.mul2") { parts.push("W256".into()); }
        let mut outs: Vec<String> = vec![];
        match (&sig.recv, recv) {
            (Recv::None, None) => {}
            (Recv::None, Some(_)) => return Err(format!("{} called as a method", sig.key)),
            (_, None) => return Err(format!("{} called without receiver", sig.key)),
            (rk, Some(r)) => {
                let v = self.expr(r, Some(&sig.self_ty))?;
                if self.unify(&v.ty, &sig.self_ty).is_err() { return Err(format!("receiver of {} has type {:?}", sig.key, v.ty)); }
                parts.push(paren(&v.s));
                if *rk == Recv::RefMut { outs.push(self.place_var(r)?); }
            }
        }
        for (a, (_, pty, is_mut)) in args.iter().zip(sig.params.iter()) {
            if *is_mut {
                let ok = matches!(a, Expr::Reference(r) if r.mutability.is_some()) || matches!(strip(a), Expr::Path(p) if self.mut_params.contains(&path_str(&p.path)));
                if !ok { return Err(format!("`&mut` argument of {} is not of the form `&mut x`", sig.key)); }
                let n = self.place_var(a)?;
                self.resolve_lit_var(a, pty);
                let v = self.expr(a, Some(pty))?;
                parts.push(paren(&v.s));
                outs.push(n);
            } else {
                let v = self.expr(a, Some(pty))?;
                self.resolve_lit_var(a, pty);
                let vt = if v.ty == Ty::Lit { pty.clone() } else { v.ty.clone() };
                if self.unify(&vt, pty).is_err() { return Err(format!("argument of {}: expected {:?}, got {:?}", sig.key, pty, v.ty)); }
                if let (Some(m), Some(k)) = (pty.max(), v.k) { if k > m { return Err("literal argument out of range".into()); } }
                parts.push(paren(&v.s));
            }
        }
        let text = parts.join(" ");
        if outs.is_empty() && !sig.partial && !sig.panics && !sig.has_dbg { return Ok(Val::new(format!("({})", text), sig.ret.clone())); }
        let mut pat: Vec<String> = outs.iter().map(|o| ident(o)).collect();
        let rv = if sig.ret != Ty::Unit { let n = self.fresh("ret"); pat.push(n.clone()); n } else { "()".to_string() };
        if sig.has_dbg { let d = self.fresh("dbgc"); pat.push(d.clone()); if self.in_assert { self.assert_flags.push(d); } }
        let p = tuple_of(&pat);
        if sig.partial || sig.panics { self.emit(St::Bind(p, text, sig.panics)); } else { self.emit(St::Let(p, text)); }
        for o in &outs { self.rebind_mark(o, false)?; }
        Ok(Val::new(rv, sig.ret.clone()))
    }

    fn method(&mut self, m: &ExprMethodCall, exp: Option<&Ty>) -> R<Val> {
        let name = m.method.to_string();
        let args: Vec<Expr> = m.args.iter().cloned().collect();
        // fold over a range
        if name == "fold" { return self.fold(m, exp); }
        // x.as_mut().copy_from_slice(src) / a.copy_from_slice(src)
        if name == "copy_from_slice" && args.len() == 1 {
            let src = self.expr(&args[0], None)?;
            if src.ty == Ty::Bytes {
                // dst.copy_from_slice(src) on byte slices: equal lengths are an obligation
                if let Expr::Index(ix) = strip(&m.receiver) {
                    if let Expr::Range(r) = strip(&ix.index) {
                        if r.end.is_some() { return Err("slice with an upper bound".into()); }
                        let n = self.place_var(&ix.expr)?;
                        if self.lookup(&n).unwrap().1.ty != Ty::Bytes { return Err("byte copy into a non-byte buffer".into()); }
                        let st = match &r.start { Some(st) => self.expr(st, Some(&Ty::Usize))?, None => Val { s: "0".into(), ty: Ty::Usize, bound: Some(0), k: Some(0) } };
                        self.oblige(format!("{} ≤ List.length {}", st.s, ident(&n)));
                        self.oblige(format!("List.length {} - {} = List.length {}", ident(&n), st.s, paren(&src.s)));
                        self.emit(St::Let(ident(&n), format!("List.take {} {} ++ {}", paren(&st.s), ident(&n), paren(&src.s))));
                        return self.rebind_mark(&n, false).map(|_| Val::new("()", Ty::Unit));
                    }
                }
                let n = self.place_var(&m.receiver)?;
                if self.lookup(&n).unwrap().1.ty != Ty::Bytes { return Err("byte copy into a non-byte buffer".into()); }
                self.oblige(format!("List.length {} = List.length {}", ident(&n), paren(&src.s)));
                self.emit(St::Let(ident(&n), src.s.clone()));
                return self.rebind_mark(&n, false).map(|_| Val::new("()", Ty::Unit));
            }
            if src.ty != Ty::Limbs(4) { return Err("copy_from_slice: source is not a 4-limb slice".into()); }
            if let Expr::MethodCall(inner) = strip(&m.receiver) {
                if inner.method == "as_mut" && inner.args.is_empty() {
                    let tv = self.expr(&inner.receiver, None)?;
                    if !matches!(tv.ty, Ty::U256 | Ty::B256) { return Err("as_mut on a non-U256".into()); }
                    let n = self.place_var(&inner.receiver)?;
                    self.emit(St::Let(ident(&n), format!("U256.ofLimbs {}", paren(&src.s))));
                    self.rebind_mark(&n, false)?;
                    return Ok(Val::new("()", Ty::Unit));
                }
            }
            let n = self.place_var(&m.receiver)?;
            let var = self.lookup(&n).unwrap().1.clone();
            if var.ty != Ty::Limbs(4) { return Err("copy_from_slice: destination length differs (Rust panics)".into()); }
            self.emit(St::Let(ident(&n), src.s.clone()));
            self.rebind_mark(&n, false)?;
            match var.view_of {
                Some((target, true)) => { self.emit(St::Let(ident(&target), format!("U256.ofLimbs {}", ident(&n)))); self.rebind_mark(&target, true)?; }
                Some((_, false)) => return Err("write through an immutable view".into()),
                None => {}
            }
            return Ok(Val::new("()", Ty::Unit));
        }
        if name == "pow" && args.len() == 1 && !self.g.sigs.get(&("Fp".to_string(), "pow".to_string())).map(|s| s.translated).unwrap_or(false) {
            let r = self.expr(&m.receiver, None)?;
            let e = self.expr(&args[0], None)?;
            if r.ty == Ty::Fp && e.ty == Ty::Fp {
                if !self.notes.iter().any(|n| n.contains("Fp.pow")) { self.notes.push("calls the model function Sm9.Fp.pow directly (FieldElement::pow of fields.rs is outside the limb files)".into()); }
                let p = self.p_arg.clone().ok_or("pow without parameters")?;
                return Ok(Val::new(format!("(Sm9.Fp.pow {} {} {})", p, paren(&r.s), paren(&e.s)), Ty::Fp));
            }
            return Err("pow on non-field values".into());
        }
        if (name == "unwrap" || name == "expect") && !self.unwrapped.is_empty() {
            let mut rcv = strip(&m.receiver);
            if let Expr::MethodCall(m2) = rcv { if (m2.method == "as_mut" || m2.method == "as_ref") && m2.args.is_empty() { rcv = strip(&m2.receiver); } }
            if let Expr::Path(p) = rcv {
                if let Some(pv) = self.unwrapped.get(&path_str(&p.path)).cloned() {
                    let ty = self.lookup(&pv).unwrap().1.ty.clone();
                    return Ok(Val::new(ident(&pv), ty));
                }
            }
        }
        if name == "collect" && args.is_empty() {
            // (a..b).map(|x| body).collect(): the closure is run once per element, in order (it may assign captured variables)
            if let Expr::MethodCall(mm) = strip(&m.receiver) {
                if mm.method == "map" && mm.args.len() == 1 {
                    if let (Expr::Closure(cl), Ok(IterSpec::Static(items, None))) = (&mm.args[0], self.iter_seq(&mm.receiver)) {
                        if cl.inputs.len() != 1 { return Err("map closure arity".into()); }
                        let (pn, _) = self.pat_names(&cl.inputs[0])?;
                        let mut vals = vec![];
                        let mut ety: Option<Ty> = None;
                        for it in items {
                            if it.enum_idx.is_some() || it.val2.is_some() { return Err("collect over pairs".into()); }
                            let mut out: Option<Val> = None;
                            let (sts, muts) = {
                                let o = &mut out; let pn2 = pn.clone();
                                self.sub_block_raw(|fx| {
                                    if pn2[0].0 != "_" { fx.declare(&pn2[0].0, Var { ty: Ty::Usize, kind: Kind::Const(it.val), bound: Some(it.val), view_of: None, mutable: false, id: 0, kc: None }); }
                                    match &*cl.body {
                                        Expr::Block(b) => {
                                            let n = b.block.stmts.len();
                                            if n == 0 { return Err("empty closure".into()); }
                                            for st in &b.block.stmts[..n - 1] { fx.stmt(st)?; }
                                            match &b.block.stmts[n - 1] { Stmt::Expr(e, None) => { *o = Some(fx.expr(e, None)?); Ok(()) } _ => Err("closure without tail value".into()) }
                                        }
                                        e => { *o = Some(fx.expr(e, None)?); Ok(()) }
                                    }
                                })?
                            };
                            let v = out.unwrap();
                            if let Some(t) = &ety { if *t != v.ty { return Err("collect of mixed types".into()); } } else { ety = Some(v.ty.clone()); }
                            let eff = eff_of(&sts)?;
                            let cv = self.fresh("cv");
                            let mut names: Vec<String> = self.ordered(&muts).iter().map(|x| ident(x)).collect();
                            let mut vn = names.clone(); vn.push(v.s.clone());
                            names.push(cv.clone());
                            let text = render(&sts, &eff_ret(eff, &tuple_of(&vn)));
                            match eff { Some(k) => self.emit(St::Bind(tuple_of(&names), text, k)), None => self.emit(St::Let(tuple_of(&names), text)) }
                            for x in &muts { self.rebind_mark(x, true)?; }
                            vals.push(cv);
                        }
                        return match ety { Some(Ty::Fp) => Ok(Val { s: format!("[{}]", vals.join(", ")), ty: Ty::FpArr, bound: None, k: Some(vals.len() as u128) }), t => Err(format!("collect of {:?}", t)) };
                    }
                }
            }
            return Err("collect".into());
        }
        if name == "skip_while" && args.len() == 1 {
            let r = self.expr(&m.receiver, None)?;
            if r.ty != Ty::BitIter { return Err("skip_while on a non-BitIterator".into()); }
            let Expr::Closure(cl) = &args[0] else { return Err("skip_while with a non-closure".into()) };
            let (pn, _) = self.pat_names(&cl.inputs[0])?;
            let (text, ty) = self.closure_value(&cl.body, vec![(pn[0].0.clone(), Self::plain(Ty::Bool, false))])?;
            if ty != Ty::Bool { return Err("skip_while predicate".into()); }
            let next = self.sig("BitIterator", "next")?;
            if !next.translated { return Err("BitIterator::next is not translated".into()); }
            self.calls.insert(next.key.clone());
            self.note("an iterator is translated as the list it yields (iterList next (n + 1) state); skip_while is List.dropWhile");
            return Ok(Val::new(format!("(List.dropWhile (fun {} => {}) (iterList {} ({}.2 + 1) {}))", ident(&pn[0].0), text, next.lean, paren(&r.s), paren(&r.s)), Ty::BoolList));
        }
        if matches!(name.as_str(), "ok" | "ok_or" | "map_err") && args.len() <= 1 {
            // Result <-> Option adaptors: the model does not distinguish the errors
            let r = self.expr(&m.receiver, None)?;
            if let Ty::Opt(_) = r.ty { return Ok(r); }
            return Err(format!("{}() on {:?}", name, r.ty));
        }
        if name == "map" && args.len() == 1 {
            if let Expr::Path(fp) = &args[0] {
                let r = self.expr(&m.receiver, None)?;
                let Ty::Opt(inner) = r.ty.clone() else { return Err("map on a non-Option".into()) };
                let fname = path_str(&fp.path);
                if (fname == "Fr" || fname == "Fq") && self.lib.as_deref() == Some(fname.as_str()) && *inner == Ty::Fp {
                    // `.map(Fr)`: the newtype constructor is the identity
                    return Ok(Val::new(r.s, Ty::Opt(Box::new(if fname == "Fr" { Ty::LibFr } else { Ty::LibFq }))));
                }
                // `.map(path::to::function)`
                let x = self.fresh("x");
                let arg: Expr = parse_str(&x).map_err(|e| e.to_string())?;
                let callee = Expr::Call(ExprCall { attrs: vec![], func: Box::new(Expr::Path(fp.clone())), paren_token: Default::default(), args: std::iter::once(arg).collect() });
                let (text, ty) = self.closure_value(&callee, vec![(x.clone(), Self::plain((*inner).clone(), false))])?;
                return Ok(Val::new(format!("(Option.map (fun {} => {}) {})", x, text, paren(&r.s)), Ty::Opt(Box::new(ty))));
            }
        }
        if matches!(name.as_str(), "add" | "sub" | "mul" | "neg") {
            // operator-trait methods on field elements forward to the *_inplace methods (fields/utils.rs binop macros)
            let r = self.expr(&m.receiver, None)?;
            if r.ty == Ty::Fp && ((name == "neg" && args.is_empty()) || args.len() == 1) {
                self.note("Add/Sub/Mul/Neg::{add,sub,mul,neg} on field elements are the *_inplace methods");
                self.pre.push((&*m.receiver as *const Expr, r));
                let res = self.call_named("Fp", &format!("{}_inplace", name), Some(&m.receiver), &args);
                self.pre.clear();
                return res;
            }
            self.pre.push((&*m.receiver as *const Expr, r));
        }
        if name == "into" && args.is_empty() {
            let r = self.expr(&m.receiver, None)?;
            if r.ty == Ty::Fp && exp == Some(&Ty::Bytes) {
                self.note("`.into()` from a field element to [u8; 32] is From<Fp> for [u8; 32] = to_slice");
                self.pre.push((&*m.receiver as *const Expr, r));
                let res = self.call_named("Fp", "to_slice", Some(&m.receiver), &[]);
                self.pre.clear();
                return res;
            }
            self.pre.push((&*m.receiver as *const Expr, r));
        }
        if name == "into" && args.is_empty() {
            let r = self.expr(&m.receiver, None)?;
            if r.ty == Ty::Fp {
                self.note("`.into()` on a field element is From<Fp> for U256");
                self.pre.push((&*m.receiver as *const Expr, r));
                let res = self.call_named("Fp", "into_u256", None, std::slice::from_ref(&*m.receiver));
                self.pre.clear();
                return res;
            }
            return Err(format!("into() on {:?}", r.ty));
        }
        if name == "gen" && args.is_empty() {
            let r = self.expr(&m.receiver, None)?;
            if r.ty != Ty::Rng { return Err("gen() on a non-rng".into()); }
            let x = self.place_var(&m.receiver)?;
            // only the draw of a BigInt<8> is modelled: eight u64, limb 0 first (as the model's Fp.random)
            if exp != Some(&Ty::B512) { return Err("rng.gen() of a type other than BigInt<8>".into()); }
            self.note("rng.gen::<BigInt<8>>() consumes eight u64 draws of the script, limb 0 first");
            let d = self.fresh("draw");
            self.emit(St::Let(format!("({}, {})", ident(&x), d), format!("(List.drop 8 {}, Limb.value B64 (List.take 8 {}))", ident(&x), ident(&x))));
            self.rebind_mark(&x, false)?;
            return Ok(Val::new(d, Ty::B512));
        }
        if name == "concat" && args.is_empty() {
            if let Expr::Array(a) = strip(&m.receiver) {
                let mut parts = vec![];
                for x in &a.elems { let v = self.expr(x, None)?; if v.ty != Ty::Bytes { return Err("concat of non-byte arrays".into()); } parts.push(paren(&v.s)); }
                return Ok(Val::new(format!("({})", parts.join(" ++ ")), Ty::Bytes));
            }
            return Err("concat".into());
        }
        let r = self.expr(&m.receiver, None)?;
        match (&r.ty, name.as_str(), args.len()) {
            (Ty::U64, "wrapping_mul", 1) | (Ty::Lit, "wrapping_mul", 1) => {
                self.resolve_lit_var(&m.receiver, &Ty::U64);
                let a = self.expr(&args[0], Some(&Ty::U64))?;
                if self.unify(&a.ty, &Ty::U64).is_err() { return Err("wrapping_mul argument".into()); }
                Ok(Val { s: format!("(({} * {}) % B64)", r.s, a.s), ty: Ty::U64, bound: None, k: None })
            }
            (Ty::U128, "wrapping_sub", 1) => {
                let a = self.expr(&args[0], Some(&Ty::U128))?;
                if a.ty != Ty::U128 { return Err("wrapping_sub argument".into()); }
                Ok(Val { s: format!("(({} + 2 ^ 128 - {}) % 2 ^ 128)", r.s, a.s), ty: Ty::U128, bound: None, k: None })
            }
            (Ty::Bytes, "len", 0) => Ok(Val::new(format!("(List.length {})", paren(&r.s)), Ty::Usize)),
            (Ty::Bytes, "as_ref", 0) | (Ty::Opt(_), "as_ref", 0) | (Ty::Opt(_), "as_mut", 0) => Ok(r),
            (Ty::B256, "to_bytes_be", 0) => { self.note("BigInt::to_bytes_be is the model's beBytes"); Ok(Val { s: format!("(beBytes 32 {})", paren(&r.s)), ty: Ty::Bytes, bound: None, k: Some(32) }) }
            (Ty::B512, "to_bytes_be", 0) => { self.note("BigInt::to_bytes_be is the model's beBytes"); Ok(Val { s: format!("(beBytes 64 {})", paren(&r.s)), ty: Ty::Bytes, bound: None, k: Some(64) }) }
            (Ty::Opt(_), "is_some", 0) => Ok(Val::new(format!("(Option.isSome {})", paren(&r.s)), Ty::Bool)),
            (Ty::Opt(_), "is_none", 0) => Ok(Val::new(format!("(Option.isNone {})", paren(&r.s)), Ty::Bool)),
            (Ty::Opt(inner), "unwrap", 0) | (Ty::Opt(inner), "expect", 1) => {
                let inner = (**inner).clone();
                if unwrap_total(&self.key) {
                    let dflt = match &inner { Ty::Unit => "()", t if t.is_int() || t.is_big() => "0", t => return Err(format!("unwrap of Option {:?}", t)) };
                    self.oblige(format!("Option.isSome {} = true", paren(&r.s)));
                    Ok(Val::new(format!("(Option.getD {} {})", paren(&r.s), dflt), inner))
                } else {
                    let v = self.fresh("uw");
                    self.emit(St::Bind(v.clone(), format!("Outcome.unwrap {}", paren(&r.s)), true));
                    Ok(Val::new(if inner == Ty::Unit { "()".to_string() } else { v }, inner))
                }
            }
            (Ty::Opt(inner), "map", 1) => {
                let Expr::Closure(cl) = &args[0] else { return Err("map with a non-closure".into()) };
                if cl.inputs.len() != 1 { return Err("map closure arity".into()); }
                let (pn, _) = self.pat_names(&cl.inputs[0])?;
                if pn.len() != 1 { return Err("map closure pattern".into()); }
                let (text, ty) = self.closure_value(&cl.body, vec![(pn[0].0.clone(), Self::plain((**inner).clone(), false))])?;
                Ok(Val::new(format!("(Option.map (fun {} => {}) {})", ident(&pn[0].0), text, paren(&r.s)), Ty::Opt(Box::new(ty))))
            }
            (Ty::Char, "to_digit", 1) if lit_u128(&args[0]) == Some(10) => {
                self.note("char::to_digit(10) is `if c.isDigit then some (c.toNat - 48) else none`");
                Ok(Val::new(format!("(if Char.isDigit {} then some (Char.toNat {} - 48) else none)", paren(&r.s), paren(&r.s)), Ty::Opt(Box::new(Ty::U32))))
            }
            (Ty::U256, "as_ref", 0) | (Ty::B256, "as_ref", 0) => Ok(Val::new(format!("(U256.limbs {})", paren(&r.s)), Ty::Limbs(4))),
            (_, "clone", 0) => Ok(r),
            (Ty::B256, "is_zero", 0) | (Ty::B512, "is_zero", 0) => Ok(Val::new(format!("({} == 0)", r.s), Ty::Bool)),
            (t, _, _) if !tykey(t).is_empty() => {
                let tk = tykey(t);
                // U256 forwards to its BigInt for methods it does not define itself
                let sig = match self.sig(tk, &name) { Ok(s) => s, Err(e) => if tk == "U256" { self.sig("B256", &name).map_err(|_| e)? } else { return Err(e) } };
                self.pre.push((&*m.receiver as *const Expr, r.clone()));
                let res = self.call_sig(&sig, Some(&m.receiver), &args);
                self.pre.clear();
                res
            }
            (t, _, _) => Err(format!("method {} on {:?}", name, t)),
        }
    }

    fn call(&mut self, c: &ExprCall, exp: Option<&Ty>) -> R<Val> {
        let Expr::Path(p) = &*c.func else { return Err("call of a non-path".into()) };
        let f = path_str(&p.path);
        let args: Vec<Expr> = c.args.iter().cloned().collect();
        let segs: Vec<String> = p.path.segments.iter().map(|s| s.ident.to_string()).collect();
        match (f.as_str(), args.len()) {
            ("Some", 1) => {
                let inner = match exp { Some(Ty::Opt(t)) => Some((**t).clone()), _ => None };
                let v = self.expr(&args[0], inner.as_ref())?;
                return Ok(Val::new(format!("(some {})", paren(&v.s)), Ty::Opt(Box::new(v.ty))));
            }
            ("Ok", 1) => {
                let inner = match exp { Some(Ty::Opt(t)) => Some((**t).clone()), _ => None };
                let v = self.expr(&args[0], inner.as_ref())?;
                return Ok(Val::new(format!("(some {})", paren(&v.s)), Ty::Opt(Box::new(v.ty))));
            }
            // `Err(e)`: the model does not distinguish the errors
            ("Err", 1) => return Ok(Val::new("none", exp.cloned().unwrap_or(Ty::Opt(Box::new(Ty::Lit))))),
            ("BigEndian::read_u64", 1) => {
                let v = self.expr(&args[0], None)?;
                if v.ty != Ty::Bytes { return Err("read_u64 of a non-byte slice".into()); }
                self.note("BigEndian::read_u64 is the model's beVal of the first 8 bytes");
                self.oblige(format!("8 ≤ List.length {}", paren(&v.s)));
                return Ok(Val { s: format!("(beVal (List.take 8 {}))", paren(&v.s)), ty: Ty::U64, bound: None, k: None });
            }
            ("U512::from", 1) => { let v = self.expr(&args[0], None)?; if v.ty != Ty::Limbs(8) { return Err("U512::from".into()); } return Ok(Val::new(format!("(Limb.value B64 {})", paren(&v.s)), Ty::U512)); }
            ("U512", 1) => { let v = self.expr(&args[0], Some(&Ty::B512))?; if v.ty != Ty::B512 { return Err("U512(..) of a non-BigInt".into()); } return Ok(Val::new(v.s, Ty::U512)); }
            ("B512::one", 0) => return Ok(Val::new("1", Ty::B512)),
            ("B512::new", 1) => { let v = self.expr(&args[0], None)?; if v.ty != Ty::Limbs(8) { return Err("B512::new".into()); } return Ok(Val::new(format!("(Limb.value B64 {})", paren(&v.s)), Ty::B512)); }
            ("Fq", 1) | ("Fr", 1) if self.lib.is_some() => {
                let v = self.expr(&args[0], Some(&Ty::Fp))?;
                if v.ty != Ty::Fp { return Err("newtype constructor on a non-field value".into()); }
                if self.lib.as_deref() != Some(f.as_str()) { return Err(format!("{}(..) in impl {}", f, self.lib.clone().unwrap())); }
                return Ok(Val::new(v.s, if f == "Fr" { Ty::LibFr } else { Ty::LibFq }));
            }
            ("Fq", 1) | ("Fr", 1) | ("Fp", 1) | ("Self", 1) if f != "Self" || self.self_ty == Ty::Fp => {
                let v = self.expr(&args[0], Some(&Ty::U256))?;
                if v.ty != Ty::U256 { return Err("field constructor on a non-U256".into()); }
                return Ok(Val::new(v.s, Ty::Fp));
            }
            ("U256", 1) => { let v = self.expr(&args[0], None)?; if v.ty != Ty::B256 { return Err("U256(..) of a non-BigInt".into()); } return Ok(Val::new(v.s, Ty::U256)); }
            ("B256::zero", 0) => return Ok(Val::new("0", Ty::B256)),
            ("B256::one", 0) => return Ok(Val::new("1", Ty::B256)),
            ("B256::new", 1) => { let v = self.expr(&args[0], None)?; if v.ty != Ty::Limbs(4) { return Err("B256::new".into()); } return Ok(Val::new(format!("(U256.ofLimbs {})", paren(&v.s)), Ty::B256)); }
            ("MulBuffer::zeroed", 0) => {
                let seg = &p.path.segments[0];
                let n = quote!(#seg).to_string().replace(' ', "");
                if n != "MulBuffer::<4>" { return Err(format!("{}: only MulBuffer::<4> is supported", n)); }
                return Ok(Val::new("([0, 0, 0, 0, 0, 0, 0, 0] : List Nat)", Ty::MulBuf));
            }
            ("U256::from", 1) => {
                let v = self.expr(&args[0], None)?;
                return match v.ty {
                    Ty::Limbs(4) => Ok(Val::new(format!("(U256.ofLimbs {})", paren(&v.s)), Ty::U256)),
                    Ty::Fp => { self.pre.push((&args[0] as *const Expr, v)); let r = self.call_named("Fp", "into_u256", None, &args); self.pre.clear(); r }
                    t => Err(format!("U256::from({:?})", t)),
                };
            }
            _ => {}
        }
        if segs.len() == 1 { return self.call_named("", &segs[0], None, &args); }
        if let Some(l) = self.lib.clone() {
            if segs.len() == 3 && segs[0] == "fields" {
                if segs[1] != l { return Err(format!("{} in impl {}", f, l)); }
                return self.call_named("Fp", &segs[2], None, &args);
            }
            if segs.len() == 2 && (segs[0] == "Fr" || segs[0] == "Fq" || segs[0] == "Self") {
                let tk = match segs[0].as_str() { "Fr" => "LibFr", "Fq" => "LibFq", _ => tykey(&self.self_ty) }.to_string();
                if tk != format!("Lib{}", l) { return Err(format!("{} in impl {}", f, l)); }
                return self.call_named(&tk, &segs[1], None, &args);
            }
        }
        if segs.len() == 2 {
            let tk = match segs[0].as_str() { "Self" => tykey(&self.self_ty).to_string(), "Fq" | "Fr" | "Fp" => "Fp".into(), "U256" => "U256".into(), "U512" => "U512".into(), o => return Err(format!("call {}::{}", o, segs[1])) };
            if (segs[0] == "Fq" || segs[0] == "Fr") && self.p_arg.as_deref() != Some(&format!("{}.P", segs[0])) { return Err(format!("{} in the context of another field", f)); }
            if tk == "Fp" && segs[0] != "Self" && segs[0] != "Fp" && self.in_macro { return Err(format!("{} inside field_impl", f)); }
            return self.call_named(&tk, &segs[1], None, &args);
        }
        Err(format!("call {}", f))
    }

    fn macro_expr(&mut self, mac: &Macro) -> R<Val> {
        let name = path_str(&mac.path);
        let (lean, n) = match name.as_str() { "mac_with_carry" => ("Limb.mac B64", 4), "adc" => ("Limb.adc B64", 3), _ => return Err(format!("macro {}!", name)) };
        let args: Vec<Expr> = mac.parse_body_with(punctuated::Punctuated::<Expr, Token![,]>::parse_terminated).map_err(|e| format!("macro arguments: {}", e))?.into_iter().collect();
        if args.len() != n { return Err(format!("{}! with {} arguments", name, args.len())); }
        let last = &args[n - 1];
        if !matches!(last, Expr::Reference(r) if r.mutability.is_some()) { return Err(format!("last argument of {}! is not `&mut carry`", name)); }
        let cv = self.place_var(last)?;
        self.resolve_lit_var(last, &Ty::U64);
        let mut parts = vec![lean.to_string()];
        for a in &args[..n - 1] {
            let v = self.expr(a, Some(&Ty::U64))?;
            self.resolve_lit_var(a, &Ty::U64);
            let vt = if v.ty == Ty::Lit { Ty::U64 } else { v.ty.clone() };
            if vt != Ty::U64 { return Err(format!("{}! argument of type {:?}", name, v.ty)); }
            parts.push(paren(&v.s));
        }
        let c = self.expr(last, Some(&Ty::U64))?;
        if c.ty != Ty::U64 { return Err(format!("{}! carry of type {:?}", name, c.ty)); }
        parts.push(paren(&c.s));
        let lo = self.fresh("lo");
        self.emit(St::Let(format!("({}, {})", lo, ident(&cv)), parts.join(" ")));
        self.rebind_mark(&cv, false)?;
        Ok(Val { s: lo, ty: Ty::U64, bound: None, k: None })
    }
}

// ==================================================================== statements
struct SeqItem { enum_idx: Option<u128>, val: u128, val2: Option<u128> }
enum IterSpec { Static(Vec<SeqItem>, Option<(String, u128)>), Dynamic { list: String, elem: Ty }, Zip }

fn compound_op(op: &BinOp) -> Option<BinOp> {
    use BinOp::*;
    Some(match op {
        AddAssign(_) => Add(Default::default()), SubAssign(_) => Sub(Default::default()), MulAssign(_) => Mul(Default::default()),
        BitOrAssign(_) => BitOr(Default::default()), BitAndAssign(_) => BitAnd(Default::default()),
        ShlAssign(_) => Shl(Default::default()), ShrAssign(_) => Shr(Default::default()),
        _ => return None,
    })
}

impl<'a> Fx<'a> {
    fn pat_names(&self, p: &Pat) -> R<(Vec<(String, bool)>, Option<Ty>)> {
        match p {
            Pat::Ident(i) => Ok((vec![(i.ident.to_string(), i.mutability.is_some())], None)),
            Pat::Wild(_) => Ok((vec![("_".into(), false)], None)),
            Pat::Type(t) => { let (n, _) = self.pat_names(&t.pat)?; let ty = &t.ty; if quote!(#ty).to_string().contains('_') { Ok((n, None)) } else { Ok((n, Some(self.ty_of(&t.ty)?))) } }
            Pat::Tuple(t) => {
                let mut v = vec![];
                for e in &t.elems { let (n, _) = self.pat_names(e)?; if n.len() != 1 { return Err("nested tuple pattern".into()); } v.extend(n); }
                Ok((v, None))
            }
            Pat::Reference(r) => self.pat_names(&r.pat),
            _ => Err(format!("pattern {}", short(p))),
        }
    }
    fn lean_pat(names: &[(String, bool)]) -> String { tuple_of(&names.iter().map(|(n, _)| if n == "_" { "_".to_string() } else { ident(n) }).collect::<Vec<_>>()) }
    fn declare_pat(&mut self, names: &[(String, bool)], is_tuple: bool, v: &Val) -> R<()> {
        if !is_tuple {
            let (n, m) = &names[0];
            if n != "_" { self.declare(n, Var { ty: v.ty.clone(), kind: Kind::Plain, bound: if *m { None } else { v.ub() }, view_of: None, mutable: *m, id: 0, kc: if *m { None } else { v.k } }); }
            return Ok(());
        }
        let Ty::Tuple(ts) = &v.ty else { return Err(format!("tuple pattern for a value of type {:?}", v.ty)) };
        if ts.len() != names.len() { return Err("tuple pattern arity".into()); }
        for ((n, m), t) in names.iter().zip(ts.iter()) { if n != "_" { self.declare(n, Self::plain(t.clone(), *m)); } }
        Ok(())
    }

    fn local(&mut self, l: &Local) -> R<()> {
        let (names, ann) = self.pat_names(&l.pat)?;
        let is_tuple = matches!(&l.pat, Pat::Tuple(_)) || matches!(&l.pat, Pat::Type(t) if matches!(&*t.pat, Pat::Tuple(_)));
        let init = l.init.as_ref().ok_or("`let` without initialiser")?;
        if init.diverge.is_some() { return Err("let-else".into()); }
        // limb views: let a = x.as_ref() / x.as_mut()
        if let Expr::MethodCall(m) = strip(&init.expr) {
            if (m.method == "as_ref" || m.method == "as_mut") && m.args.is_empty() && !is_tuple {
                if let Ok(target) = self.place_var(&m.receiver) {
                    let tv = self.lookup(&target).unwrap().1.clone();
                    if matches!(tv.ty, Ty::U256 | Ty::B256) {
                        let n = names[0].0.clone();
                        self.emit(St::Let(ident(&n), format!("U256.limbs {}", ident(&target))));
                        self.declare(&n, Var { ty: Ty::Limbs(4), kind: Kind::Plain, bound: None, view_of: Some((target, m.method == "as_mut")), mutable: false, id: 0, kc: None });
                        return Ok(());
                    }
                }
            }
        }
        let mut v = self.expr(&init.expr, ann.as_ref())?;
        if let Some(t) = &ann { v.ty = self.unify(&v.ty, t)?; }
        self.emit(St::Let(Self::lean_pat(&names), v.s.clone()));
        self.declare_pat(&names, is_tuple, &v)?;
        if !is_tuple && (v.ty == Ty::Bytes || v.ty == Ty::FpArr) && names[0].0 != "_" { if let Some(k) = v.k { let d = self.scopes.len(); self.facts.push((d, format!("List.length {} = {}", ident(&names[0].0), k))); } }
        if !is_tuple && !names[0].1 && v.ty == Ty::Usize && names[0].0 != "_" && !v.s.contains('\n') {
            let d = self.scopes.len();
            self.facts.push((d, format!("{} = {}", ident(&names[0].0), v.s)));
        }
        Ok(())
    }

    fn assign(&mut self, lhs: &Expr, rhs: &Expr) -> R<()> {
        match strip(lhs) {
            Expr::Index(ix) => {
                let v = self.expr(rhs, Some(&Ty::U64))?;
                self.resolve_lit_var(rhs, &Ty::U64);
                let vt = if v.ty == Ty::Lit { Ty::U64 } else { v.ty.clone() };
                if vt != Ty::U64 { return Err(format!("limb assignment of a value of type {:?}", v.ty)); }
                if let Some(k) = v.k { if k > U64MAX { return Err("limb literal out of range".into()); } }
                let idx = self.expr(&ix.index, Some(&Ty::Usize))?;
                if !idx.ty.is_int() { return Err("non-integer index".into()); }
                let base = strip(&ix.expr);
                // r.b0[i] / r.b1[i]
                if let Expr::Field(f) = base {
                    if let Member::Named(n) = &f.member {
                        let r = self.place_var(&f.base)?;
                        if self.lookup(&r).unwrap().1.ty != Ty::MulBuf { return Err("field of a non-MulBuffer".into()); }
                        let off = match n.to_string().as_str() { "b0" => None, "b1" => Some("4"), _ => return Err("MulBuffer field".into()) };
                        self.check_index(&idx, 4, &short(&ix.expr))?;
                        let i = match off { Some(o) => format!("({} + {})", o, idx.s), None => paren(&idx.s) };
                        self.emit(St::Let(ident(&r), format!("List.set {} {} {}", ident(&r), i, paren(&v.s))));
                        return self.rebind_mark(&r, false);
                    }
                    // x.0.0[i]: a limb of a U256
                    let bv = self.expr(base, None)?;
                    if bv.ty == Ty::Limbs(4) {
                        if let Member::Unnamed(_) = &f.member {
                            let x = self.place_var(&f.base)?;
                            self.check_index(&idx, 4, &short(&ix.expr))?;
                            self.emit(St::Let(ident(&x), format!("U256.ofLimbs (List.set (U256.limbs {}) {} {})", ident(&x), paren(&idx.s), paren(&v.s))));
                            return self.rebind_mark(&x, false);
                        }
                    }
                    return Err(format!("assignment target {}", short(lhs)));
                }
                let r = self.place_var(base)?;
                let var = self.lookup(&r).unwrap().1.clone();
                match var.ty {
                    Ty::MulBuf => { self.check_index(&idx, 8, &r)?; }
                    Ty::Limbs(n) => { self.check_index(&idx, n as u128, &r)?; }
                    Ty::U256 => {
                        self.check_index(&idx, 4, &r)?;
                        self.emit(St::Let(ident(&r), format!("U256.ofLimbs (List.set (U256.limbs {}) {} {})", ident(&r), paren(&idx.s), paren(&v.s))));
                        return self.rebind_mark(&r, false);
                    }
                    t => return Err(format!("indexed assignment into {:?}", t)),
                }
                self.emit(St::Let(ident(&r), format!("List.set {} {} {}", ident(&r), paren(&idx.s), paren(&v.s))));
                self.rebind_mark(&r, false)?;
                match var.view_of {
                    Some((target, true)) => { self.emit(St::Let(ident(&target), format!("U256.ofLimbs {}", ident(&r)))); self.rebind_mark(&target, true)?; }
                    Some((_, false)) => return Err("write through an immutable view".into()),
                    None => {}
                }
                Ok(())
            }
            Expr::Field(f) if matches!(&f.member, Member::Named(_)) => {
                let x = self.place_var(&f.base)?;
                if self.lookup(&x).unwrap().1.ty != Ty::BitIter { return Err(format!("assignment target {}", short(lhs))); }
                let Member::Named(id) = &f.member else { unreachable!() };
                match id.to_string().as_str() {
                    "n" => { let v = self.expr(rhs, Some(&Ty::Usize))?; if !v.ty.is_int() { return Err("BitIterator.n".into()); } self.emit(St::Let(ident(&x), format!("({}.1, {})", ident(&x), v.s))); }
                    "int" => { let v = self.expr(rhs, Some(&Ty::U256))?; if v.ty != Ty::U256 { return Err("BitIterator.int".into()); } self.emit(St::Let(ident(&x), format!("({}, {}.2)", v.s, ident(&x)))); }
                    _ => return Err("BitIterator field".into()),
                }
                self.rebind_mark(&x, false)
            }
            _ => {
                let x = self.place_var(lhs)?;
                let var = self.lookup(&x).unwrap().1.clone();
                let exp = if var.ty == Ty::Lit { None } else { Some(var.ty.clone()) };
                let v = self.expr(rhs, exp.as_ref())?;
                let vt = if v.ty == Ty::Lit && var.ty.is_int() { var.ty.clone() } else { v.ty.clone() };
                if var.ty == Ty::Lit { self.resolve_lit_var(lhs, &vt); } else { self.unify(&var.ty, &vt)?; }
                if let (Some(m), Some(k)) = (var.ty.max(), v.k) { if k > m { return Err("literal out of range".into()); } }
                if var.view_of.is_some() { return Err("assignment to a limb view".into()); }
                self.emit(St::Let(ident(&x), v.s));
                self.rebind_mark(&x, false)
            }
        }
    }

    fn stmt(&mut self, st: &Stmt) -> R<()> {
        match st {
            Stmt::Local(l) => self.local(l),
            Stmt::Expr(e, _) => self.expr_stmt(e),
            Stmt::Macro(m) => {
                let n = path_str(&m.mac.path);
                if n == "debug_assert" {
                    // the asserted condition becomes a component of the result (as in the model)
                    let args: Vec<Expr> = m.mac.parse_body_with(punctuated::Punctuated::<Expr, Token![,]>::parse_terminated).map_err(|e| format!("debug_assert!: {}", e))?.into_iter().collect();
                    if args.is_empty() { return Err("empty debug_assert!".into()); }
                    let saved = std::mem::take(&mut self.assert_flags);
                    self.in_assert = true;
                    let v = self.expr(&args[0], Some(&Ty::Bool));
                    self.in_assert = false;
                    let fl = std::mem::replace(&mut self.assert_flags, saved);
                    let v = v?;
                    if v.ty != Ty::Bool { return Err("debug_assert! of a non-bool".into()); }
                    let d = self.fresh("dbg");
                    let text = if fl.is_empty() { v.s } else { format!("({} && {})", fl.join(" && "), v.s) };
                    self.emit(St::Let(d.clone(), text));
                    self.dbg.push(d);
                    Ok(())
                }
                else { self.macro_expr(&m.mac).map(|_| ()) }
            }
            _ => Err(format!("unsupported statement {}", short(st))),
        }
    }

    fn expr_stmt(&mut self, e: &Expr) -> R<()> {
        match e {
            Expr::Assign(a) => self.assign(&a.left, &a.right),
            Expr::Binary(b) if compound_op(&b.op).is_some() => {
                let nb = Expr::Binary(ExprBinary { attrs: vec![], left: b.left.clone(), op: compound_op(&b.op).unwrap(), right: b.right.clone() });
                self.assign(&b.left, &nb)
            }
            Expr::If(i) => self.if_stmt(i),
            Expr::ForLoop(f) => self.for_loop(f),
            Expr::While(w) => self.while_loop(w),
            Expr::Block(b) => {
                let (sts, muts) = self.sub_block_raw(|fx| { for s in &b.block.stmts { fx.stmt(s)?; } Ok(()) })?;
                self.emit_block(sts, &muts)
            }
            Expr::MethodCall(_) | Expr::Call(_) | Expr::Macro(_) => self.expr(e, None).map(|_| ()),
            Expr::Return(r) => {
                // `return None` inside a block of a function returning Option: the block evaluates to `none`
                let is_none = matches!(r.expr.as_deref().map(strip), Some(Expr::Path(p)) if path_str(&p.path) == "None");
                if is_none && matches!(self.ret, Ty::Opt(_)) && !self.partial && !self.panics && self.recv != Recv::RefMut && self.mut_params.is_empty() && !self.has_dbg {
                    self.retnone = true;
                    self.emit(St::Abort);
                    Ok(())
                } else { Err("`return` in a non-tail position".into()) }
            }
            Expr::Match(m) => self.match_stmt(m),
            _ => Err(format!("unsupported statement {}", short(e))),
        }
    }

    fn if_stmt(&mut self, i: &ExprIf) -> R<()> {
        if matches!(&*i.cond, Expr::Let(_)) { return Err("if-let".into()); }
        let c = self.cond(&i.cond)?;
        let (sa, ma) = self.sub_block_raw(|fx| {
            let d = fx.scopes.len(); fx.conds.push((d, c.clone()));
            for s in &i.then_branch.stmts { fx.stmt(s)?; }
            Ok(())
        })?;
        let (sb, mb) = match &i.else_branch {
            None => (vec![], BTreeSet::new()),
            Some((_, el)) => self.sub_block_raw(|fx| {
                let d = fx.scopes.len(); fx.conds.push((d, format!("¬ ({})", c)));
                match &**el {
                    Expr::Block(b) => { for s in &b.block.stmts { fx.stmt(s)?; } Ok(()) }
                    Expr::If(i2) => fx.if_stmt(i2),
                    _ => Err("else branch".into()),
                }
            })?,
        };
        let muts: BTreeSet<String> = ma.union(&mb).cloned().collect();
        if muts.is_empty() { if Self::is_partial(&sa) || Self::is_partial(&sb) { return Err("partial call in an `if` without effect".into()); } return Ok(()); }
        let pat = tuple_of(&self.ordered(&muts).iter().map(|m| ident(m)).collect::<Vec<_>>());
        let mut both = sa.clone(); both.extend(sb.iter().cloned());
        let eff = eff_of(&both)?;
        let partial = eff.is_some();
        let fin = eff_ret(eff, &pat);
        let text = format!("if {} then\n{}\nelse\n{}", c, indent(&render(&sa, &fin), 2), indent(&render(&sb, &fin), 2));
        if partial { self.emit(St::Bind(pat, text, eff.unwrap())); } else { self.emit(St::Let(pat, text)); }
        for m in &muts { self.rebind_mark(m, true)?; }
        Ok(())
    }

    fn iter_seq(&mut self, e: &Expr) -> R<IterSpec> {
        match e {
            Expr::Paren(p) => self.iter_seq(&p.expr),
            Expr::Group(p) => self.iter_seq(&p.expr),
            Expr::Range(r) => {
                if !matches!(r.limits, RangeLimits::HalfOpen(_)) { return Err("inclusive range".into()); }
                let (Some(lo), Some(hi)) = (&r.start, &r.end) else { return Err("open range".into()) };
                if let (Expr::Path(p), Some(t)) = (strip(hi), &self.zip_generic) { if path_str(&p.path) == *t && lit_u128(lo) == Some(0) { return Ok(IterSpec::Zip); } }
                let l = self.expr(lo, Some(&Ty::Usize))?;
                let h = self.expr(hi, Some(&Ty::Usize))?;
                match (l.k, h.k) {
                    (Some(a), Some(b)) => Ok(IterSpec::Static((a..b.max(a)).map(|v| SeqItem { enum_idx: None, val: v, val2: None }).collect(), None)),
                    (Some(0), None) => { if !h.ty.is_int() { return Err("range bound".into()); } Ok(IterSpec::Dynamic { list: format!("(List.range {})", paren(&h.s)), elem: Ty::Usize }) }
                    _ => Err(format!("range {}", short(e))),
                }
            }
            Expr::MethodCall(m) => {
                let name = m.method.to_string();
                let argk = if m.args.len() == 1 { lit_u128(&m.args[0]) } else { None };
                match (name.as_str(), m.args.len()) {
                    ("iter", 0) => {
                        let v = self.expr(&m.receiver, None)?;
                        let Ty::Limbs(n) = v.ty else { return Err(format!("iter() on {:?}", v.ty)) };
                        Ok(IterSpec::Static((0..n as u128).map(|v| SeqItem { enum_idx: None, val: v, val2: None }).collect(), Some((v.s, n as u128))))
                    }
                    ("rev", 0) => match self.iter_seq(&m.receiver)? {
                        IterSpec::Static(mut v, s) => { v.reverse(); Ok(IterSpec::Static(v, s)) }
                        IterSpec::Dynamic { list, elem } => Ok(IterSpec::Dynamic { list: format!("(List.reverse {})", list), elem }),
                        IterSpec::Zip => Err("rev of a zipped fold".into()),
                    },
                    ("enumerate", 0) => match self.iter_seq(&m.receiver)? {
                        IterSpec::Static(mut v, s) => { if v.iter().any(|i| i.enum_idx.is_some()) { return Err("double enumerate".into()); } for (k, it) in v.iter_mut().enumerate() { it.enum_idx = Some(k as u128); } Ok(IterSpec::Static(v, s)) }
                        _ => Err("enumerate over a dynamic range".into()),
                    },
                    ("take", 1) | ("skip", 1) => {
                        let k = argk.ok_or("take/skip with a non-literal argument")? as usize;
                        match self.iter_seq(&m.receiver)? {
                            IterSpec::Static(mut v, s) => { if name == "take" { v.truncate(k); } else { v = v.into_iter().skip(k).collect(); } Ok(IterSpec::Static(v, s)) }
                            _ => Err("take/skip over a dynamic range".into()),
                        }
                    }
                    ("zip", 1) => {
                        let a = self.iter_seq(&m.receiver)?;
                        let b = self.iter_seq(&m.args[0])?;
                        match (a, b) {
                            (IterSpec::Static(x, None), IterSpec::Static(y, None)) => {
                                if x.iter().chain(y.iter()).any(|i| i.enum_idx.is_some() || i.val2.is_some()) { return Err("zip of enumerated / zipped sequences".into()); }
                                Ok(IterSpec::Static(x.iter().zip(y.iter()).map(|(p, q)| SeqItem { enum_idx: None, val: p.val, val2: Some(q.val) }).collect(), None))
                            }
                            _ => Err("zip of non-literal sequences".into()),
                        }
                    }
                    ("map", 1) => {
                        // (a..b).map(|i| <constant expression in i>)
                        let Expr::Closure(cl) = &m.args[0] else { return Err("map with a non-closure".into()) };
                        if cl.inputs.len() != 1 { return Err("map closure arity".into()); }
                        let (pn, _) = self.pat_names(&cl.inputs[0])?;
                        match self.iter_seq(&m.receiver)? {
                            IterSpec::Static(v, None) => {
                                let mut out = vec![];
                                for it in v {
                                    if it.enum_idx.is_some() || it.val2.is_some() { return Err("map over pairs".into()); }
                                    self.scopes.push(Scope::default());
                                    if pn[0].0 != "_" { self.declare(&pn[0].0, Var { ty: Ty::Usize, kind: Kind::Const(it.val), bound: Some(it.val), view_of: None, mutable: false, id: 0, kc: None }); }
                                    let n0 = self.bufs.last().map(|b| b.len()).unwrap_or(0);
                                    let r = self.expr(&cl.body, Some(&Ty::Usize));
                                    self.scopes.pop();
                                    let r = r?;
                                    if self.bufs.last().map(|b| b.len()).unwrap_or(0) != n0 { return Err("effect in an iterator map".into()); }
                                    out.push(SeqItem { enum_idx: None, val: r.k.ok_or("iterator map with a non-constant body")?, val2: None });
                                }
                                Ok(IterSpec::Static(out, None))
                            }
                            _ => Err("map over a non-literal range".into()),
                        }
                    }
                    ("chars", 0) => {
                        let v = self.expr(&m.receiver, None)?;
                        if v.ty != Ty::Chars { return Err("chars() on a non-str".into()); }
                        Ok(IterSpec::Dynamic { list: v.s, elem: Ty::Char })
                    }
                    _ => {
                        // an iterator-valued call, translated as the list it yields
                        let v = self.expr(e, None)?;
                        match v.ty { Ty::BoolList => Ok(IterSpec::Dynamic { list: v.s, elem: Ty::Bool }), _ => Err(format!("iterator adaptor {}", name)) }
                    }
                }
            }
            _ => Err(format!("loop iterator {}", short(e))),
        }
    }

    fn for_loop(&mut self, f: &ExprForLoop) -> R<()> {
        let spec = self.iter_seq(&f.expr)?;
        let (names, _) = self.pat_names(&f.pat)?;
        match spec {
            IterSpec::Zip => Err("for loop over the const generic bound".into()),
            IterSpec::Static(items, src) => {
                for it in items {
                    let mut label = vec![];
                    let (sts, muts) = {
                        let names = names.clone(); let src = src.clone();
                        let label_ref = &mut label;
                        self.sub_block_raw(|fx| {
                            let mut ns = names.iter();
                            if let Some(k) = it.enum_idx {
                                if names.len() != 2 { return Err("enumerate() needs a pair pattern".into()); }
                                let n = &ns.next().unwrap().0;
                                if n != "_" { fx.declare(n, Var { ty: Ty::Usize, kind: Kind::Const(k), bound: Some(k), view_of: None, mutable: false, id: 0, kc: None }); label_ref.push(format!("{} = {}", n, k)); }
                            } else if let Some(v2) = it.val2 {
                                if names.len() != 2 { return Err("zip needs a pair pattern".into()); }
                                let n = &ns.next().unwrap().0;
                                if n != "_" { fx.declare(n, Var { ty: Ty::Usize, kind: Kind::Const(it.val), bound: Some(it.val), view_of: None, mutable: false, id: 0, kc: None }); label_ref.push(format!("{} = {}", n, it.val)); }
                                let n = &ns.next().unwrap().0;
                                if n != "_" { fx.declare(n, Var { ty: Ty::Usize, kind: Kind::Const(v2), bound: Some(v2), view_of: None, mutable: false, id: 0, kc: None }); label_ref.push(format!("{} = {}", n, v2)); }
                                for s in &f.body.stmts { fx.stmt(s)?; }
                                return Ok(());
                            } else if names.len() != 1 { return Err("loop pattern".into()); }
                            let n = &ns.next().unwrap().0;
                            match &src {
                                None => { if n != "_" { fx.declare(n, Var { ty: Ty::Usize, kind: Kind::Const(it.val), bound: Some(it.val), view_of: None, mutable: false, id: 0, kc: None }); label_ref.push(format!("{} = {}", n, it.val)); } }
                                Some((list, len)) => {
                                    if it.val >= *len { return Err("element index out of range".into()); }
                                    if n != "_" { fx.emit(St::Let(ident(n), format!("U256.getL {} {}", paren(list), it.val))); fx.declare(n, Self::plain(Ty::U64, false)); }
                                }
                            }
                            for s in &f.body.stmts { fx.stmt(s)?; }
                            Ok(())
                        })?
                    };
                    if !muts.is_empty() { self.emit(St::Comment(label.join(", "))); }
                    self.emit_block(sts, &muts)?;
                }
                Ok(())
            }
            IterSpec::Dynamic { list, elem } => {
                if names.len() != 1 { return Err("loop pattern".into()); }
                let n = names[0].0.clone();
                // dry run: which variables does the body assign?  facts about them do not hold at the loop head
                let pre_muts = {
                    let snap = self.clone();
                    self.facts.clear(); self.conds.clear();
                    let el = elem.clone(); let n2 = n.clone();
                    let r = self.sub_block_raw(|fx| {
                        if n2 != "_" { fx.declare(&n2, Self::plain(el, false)); }
                        for s in &f.body.stmts { fx.stmt(s)?; }
                        Ok(())
                    });
                    *self = snap;
                    r?.1
                };
                let saved = (self.facts.clone(), self.conds.clone());
                for m in &pre_muts { self.forget(m); }
                let el = elem.clone();
                let r = self.sub_block_raw(|fx| {
                    if n != "_" { fx.declare(&n, Self::plain(el, false)); }
                    for s in &f.body.stmts { fx.stmt(s)?; }
                    Ok(())
                });
                self.facts = saved.0; self.conds = saved.1;
                let (sts, muts) = r?;
                if muts.is_empty() { return Err("dynamic loop without effect".into()); }
                let om = self.ordered(&muts);
                let mnames: Vec<String> = om.iter().map(|m| ident(m)).collect();
                let tys: Vec<String> = om.iter().map(|m| self.lookup(m).unwrap().1.ty.lean()).collect();
                let pat = tuple_of(&mnames);
                let ty = if tys.len() == 1 { tys[0].clone() } else { format!("({})", tys.join(" × ")) };
                let iv = if n == "_" { "_".to_string() } else { ident(&n) };
                let eff = eff_of(&sts)?;
                // the loop body becomes a named definition over its free variables
                let ws = words(&render(&sts, ""));
                let mut frees: BTreeSet<String> = BTreeSet::new();
                for sc in &self.scopes { for (vn, v) in &sc.vars { if matches!(v.kind, Kind::Plain) && ws.contains(&ident(vn)) && !muts.contains(vn) && *vn != n { frees.insert(vn.clone()); } } }
                let mut params: Vec<(String, String)> = vec![];
                if self.p_arg.as_deref() == Some("P") && ws.contains("P") { params.push(("P".into(), "MontParams".into())); }
                for v in &self.ordered(&frees) { params.push((ident(v), self.lookup(v).unwrap().1.ty.lean())); }
                self.for_count += 1;
                let name = format!("{}.for{}", self.lean_name, self.for_count);
                let binders = params.iter().map(|p| format!("({} : {})", p.0, p.1)).collect::<Vec<_>>().join(" ");
                let args = params.iter().map(|p| p.0.clone()).collect::<Vec<_>>().join(" ");
                let mut d = String::new();
                writeln!(d, "/-- body of `for` loop #{} of `{}` (state: the variables it assigns) -/", self.for_count, self.key).unwrap();
                match eff {
                    None => {
                        let body = render(&sts, &pat);
                        writeln!(d, "def {} {} : {} → {} → {} :=\n  fun ({} : {}) ({} : {}) =>\n{}\n", name, binders, paren(&ty), elem.lean(), paren(&ty), pat, ty, iv, elem.lean(), indent(&body, 4)).unwrap();
                        self.emit(St::Let(pat.clone(), format!("List.foldl (fun st x => {} {} st x) {} {}", name, args, pat, paren(&list))));
                    }
                    Some(k) => {
                        let (m, unit) = if k { ("Outcome", "Outcome.ok") } else { ("Option", "some") };
                        let body = render(&sts, &eff_ret(eff, &pat));
                        writeln!(d, "def {} {} : {} {} → {} → {} {} :=\n  fun (st : {} {}) ({} : {}) =>\n    {}.bind st (fun {} =>\n{})\n", name, binders, m, paren(&ty), elem.lean(), m, paren(&ty), m, paren(&ty), iv, elem.lean(), m, pat, indent(&body, 6)).unwrap();
                        self.emit(St::Bind(pat.clone(), format!("List.foldl (fun st x => {} {} st x) ({} {}) {}", name, args, unit, pat, paren(&list)), k));
                    }
                }
                self.aux_defs.push_str(&d);
                self.aux_names.push(format!("{} {}", name, binders));
                for m in &muts { self.rebind_mark(m, true)?; }
                Ok(())
            }
        }
    }
}

// ==================================================================== while loops, folds, function bodies
impl<'a> Fx<'a> {
    fn while_loop(&mut self, w: &ExprWhile) -> R<()> {
        if matches!(&*w.cond, Expr::Let(_)) { return Err("while-let".into()); }
        self.loop_count += 1;
        let idx = self.loop_count;
        let fuel = self.fuels.get(idx - 1).cloned().ok_or_else(|| format!("no fuel configured for while loop #{} of {}", idx, self.key))?;
        if self.lookup("fuel").is_some() && fuel != "fuel" { return Err("a variable named `fuel`".into()); }
        let name = format!("{}.loop{}", self.lean_name, idx);
        let saved = (std::mem::take(&mut self.facts), std::mem::take(&mut self.conds));
        let mut split = 0usize;
        let mut ctext = String::new();
        let r = {
            let (split_ref, ctext_ref) = (&mut split, &mut ctext);
            self.sub_block_raw(|fx| {
                *ctext_ref = fx.cond(&w.cond)?;
                *split_ref = fx.bufs.last().unwrap().len();
                let (bs, bm) = fx.sub_block_raw(|fx2| { for s in &w.body.stmts { fx2.stmt(s)?; } Ok(()) })?;
                fx.emit_block(bs, &bm)
            })
        };
        self.facts = saved.0; self.conds = saved.1;
        let (sts, muts) = r?;
        if muts.is_empty() { return Err("while loop without effect".into()); }
        let (pre, body) = sts.split_at(split);
        // free variables: in-scope variables mentioned in the loop
        let probe = render(&sts, &ctext);
        let ws = words(&probe);
        let mut params: Vec<(String, String)> = vec![];
        let om = self.ordered(&muts);
        for m in &om { params.push((ident(m), self.lookup(m).unwrap().1.ty.lean())); }
        let mut frees: BTreeSet<String> = BTreeSet::new();
        for sc in &self.scopes { for (n, v) in &sc.vars { if matches!(v.kind, Kind::Plain) && ws.contains(&ident(n)) && !muts.contains(n) { frees.insert(n.clone()); } } }
        for n in &self.ordered(&frees) { params.push((ident(n), self.lookup(n).unwrap().1.ty.lean())); }
        if self.p_arg.as_deref() == Some("P") && ws.contains("P") { params.push(("P".into(), "MontParams".into())); }
        let pat = tuple_of(&om.iter().map(|m| ident(m)).collect::<Vec<_>>());
        let sty = { let t: Vec<String> = om.iter().map(|m| self.lookup(m).unwrap().1.ty.lean()).collect(); if t.len() == 1 { t[0].clone() } else { format!("({})", t.join(" × ")) } };
        let argnames: Vec<String> = params.iter().map(|p| p.0.clone()).collect();
        let rec = format!("{} fuel {}", name, argnames.join(" "));
        let then_text = render(body, &rec);
        let inner = render(pre, &format!("if {} then\n{}\nelse some {}", ctext, indent(&then_text, 2), pat));
        let mut d = String::new();
        writeln!(d, "/-- `while` loop #{} of `{}` (fuel-recursive; `none` = fuel exhausted) -/", idx, self.key).unwrap();
        writeln!(d, "def {} : Nat → {} → Option {}", name, params.iter().map(|p| paren(&p.1)).collect::<Vec<_>>().join(" → "), paren(&sty)).unwrap();
        writeln!(d, "  | 0, {} => none", vec!["_"; params.len()].join(", ")).unwrap();
        writeln!(d, "  | fuel + 1, {} =>\n{}\n", argnames.join(", "), indent(&inner, 4)).unwrap();
        self.aux_defs.push_str(&d);
        self.aux_names.push(format!("{} {}", name, params.iter().map(|p| format!("({} : {})", p.0, p.1)).collect::<Vec<_>>().join(" ")));
        if eff_of(&sts)? == Some(true) { return Err("panic inside a while loop".into()); }
        self.emit(St::Bind(pat, format!("{} {} {}", name, fuel, argnames.join(" ")), false));
        for m in &muts { self.rebind_mark(m, true)?; }
        Ok(())
    }

    /// closure body: statements and a tail value, no effect on outer variables
    fn closure_value(&mut self, body: &Expr, decl: Vec<(String, Var)>) -> R<(String, Ty)> {
        let mut out: Option<Val> = None;
        let (sts, muts) = {
            let out_ref = &mut out;
            self.sub_block_raw(|fx| {
                for (n, v) in decl { fx.declare(&n, v); }
                match body {
                    Expr::Block(b) => {
                        let n = b.block.stmts.len();
                        if n == 0 { return Err("empty closure".into()); }
                        for s in &b.block.stmts[..n - 1] { fx.stmt(s)?; }
                        match &b.block.stmts[n - 1] { Stmt::Expr(e, None) => { *out_ref = Some(fx.expr(e, None)?); Ok(()) } _ => Err("closure without tail value".into()) }
                    }
                    e => { *out_ref = Some(fx.expr(e, None)?); Ok(()) }
                }
            })?
        };
        if !muts.is_empty() { return Err("closure mutates captured variables".into()); }
        if Self::is_partial(&sts) { return Err("partial call inside a closure".into()); }
        let v = out.unwrap();
        Ok((render(&sts, &v.s), v.ty))
    }

    fn fold(&mut self, m: &ExprMethodCall, _exp: Option<&Ty>) -> R<Val> {
        if m.args.len() != 2 { return Err("fold arity".into()); }
        let Expr::Closure(cl) = &m.args[1] else { return Err("fold with a non-closure".into()) };
        if cl.inputs.len() != 2 { return Err("fold closure arity".into()); }
        let (accn, _) = self.pat_names(&cl.inputs[0])?;
        let (idxn, _) = self.pat_names(&cl.inputs[1])?;
        if idxn.len() != 1 { return Err("fold index pattern".into()); }
        let acc_tuple = matches!(&cl.inputs[0], Pat::Tuple(_));
        let spec = self.iter_seq(&m.receiver)?;
        let init = self.expr(&m.args[0], None)?;
        let acc_tys: Vec<Ty> = if acc_tuple { match &init.ty { Ty::Tuple(ts) if ts.len() == accn.len() => ts.clone(), _ => return Err("fold accumulator shape".into()) } } else { vec![init.ty.clone()] };
        // integer-literal components of the initial value take their type from the first use
        let decls = |tys: &[Ty]| -> Vec<(String, Var)> { accn.iter().zip(tys.iter()).filter(|(n, _)| n.0 != "_").map(|(n, t)| (n.0.clone(), Self::plain(t.clone(), true))).collect() };
        let pat = Self::lean_pat(&accn);
        match spec {
            IterSpec::Static(items, None) => {
                let mut tys = acc_tys.clone();
                let mut sts = vec![St::Let(pat.clone(), init.s.clone())];
                for it in items {
                    let mut d = decls(&tys);
                    if idxn[0].0 != "_" { d.push((idxn[0].0.clone(), Var { ty: Ty::Usize, kind: Kind::Const(it.val), bound: Some(it.val), view_of: None, mutable: false, id: 0, kc: None })); }
                    let (text, ty) = self.closure_value(&cl.body, d)?;
                    let rt: Vec<Ty> = if acc_tuple { match ty { Ty::Tuple(ts) if ts.len() == accn.len() => ts, _ => return Err("fold closure result shape".into()) } } else { vec![ty] };
                    for (a, b) in tys.iter_mut().zip(rt.iter()) { if *a == Ty::Lit { *a = b.clone(); } else if *b != Ty::Lit && a != b { return Err("fold state changes type".into()); } }
                    sts.push(St::Comment(format!("{} = {}", idxn[0].0, it.val)));
                    sts.push(St::Let(pat.clone(), text));
                }
                let ty = if acc_tuple { Ty::Tuple(tys) } else { tys[0].clone() };
                Ok(Val::new(render(&sts, &pat), ty))
            }
            IterSpec::Zip => {
                let mut arrs: Vec<String> = vec![];
                for sc in &self.scopes { for (n, v) in &sc.vars { if v.ty == Ty::FpArr { arrs.push(n.clone()); } } }
                arrs.sort();
                if arrs.len() != 2 { return Err("zipped fold needs exactly two field arrays in scope".into()); }
                if idxn[0].0 == "_" { return Err("zipped fold ignores its index".into()); }
                let mut zm = BTreeMap::new();
                for a in &arrs { zm.insert(a.clone(), format!("{}_{}", ident(a), idxn[0].0)); }
                let mut d = decls(&acc_tys);
                d.push((idxn[0].0.clone(), Var { ty: Ty::Usize, kind: Kind::ZipIdx(zm.clone()), bound: None, view_of: None, mutable: false, id: 0, kc: None }));
                for el in zm.values() { d.push((el.clone(), Self::plain(Ty::Fp, false))); }
                let (text, ty) = self.closure_value(&cl.body, d)?;
                let rt: Vec<Ty> = if acc_tuple { match ty { Ty::Tuple(ts) if ts.len() == accn.len() => ts, _ => return Err("fold closure result shape".into()) } } else { vec![ty] };
                let sty = format!("{}", rt.iter().map(|t| t.lean()).collect::<Vec<_>>().join(" × "));
                let els: Vec<String> = arrs.iter().map(|a| zm[a].clone()).collect();
                let s = format!("List.foldl (fun (({}) : {}) (({}) : Nat × Nat) =>\n{}) {} (List.zip {} {})", pat.trim_start_matches('(').trim_end_matches(')'), sty, els.join(", "), indent(&text, 2), paren(&init.s), ident(&arrs[0]), ident(&arrs[1]));
                Ok(Val::new(s, if acc_tuple { Ty::Tuple(rt) } else { rt[0].clone() }))
            }
            _ => Err("fold over an unsupported iterator".into()),
        }
    }

    fn wrap(&self, v: Option<&Val>) -> String {
        let mut parts: Vec<String> = vec![];
        if self.recv == Recv::RefMut { parts.push("self".into()); }
        for p in &self.mut_params { parts.push(ident(p)); }
        if let Some(v) = v { parts.push(v.s.clone()); }
        if self.has_dbg { parts.push(if self.dbg.is_empty() { "true".to_string() } else { format!("({})", self.dbg.join(" && ")) }); }
        let t = if parts.is_empty() { "()".to_string() } else { tuple_of(&parts) };
        if self.retnone { return t; }
        if self.partial { format!("some {}", paren(&t)) } else if self.panics { format!("Outcome.ok {}", paren(&t)) } else { t }
    }

    fn ends_in_return(b: &Block) -> bool { matches!(b.stmts.last(), Some(Stmt::Expr(Expr::Return(_), _))) }

    /// translate the remainder of a function body to one Lean term
    fn tail(&mut self, stmts: &[Stmt]) -> R<String> {
        self.bufs.push(vec![]);
        let r = self.tail_inner(stmts);
        let sts = self.bufs.pop().unwrap();
        let fin = r?;
        match eff_of(&sts)? {
            Some(false) if !self.partial && !self.retnone => return Err("__needs_partial".into()),
            Some(true) if !self.panics => return Err("__needs_panic".into()),
            Some(false) if self.panics => return Err("fuel and panic effects in one function".into()),
            Some(true) if self.partial || self.retnone => return Err("fuel and panic effects in one function".into()),
            _ => {}
        }
        Ok(render(&sts, &fin))
    }
    fn branch_tail(&mut self, stmts: &[Stmt], cond: Option<String>) -> R<String> {
        self.scopes.push(Scope::default());
        if let Some(c) = cond { let d = self.scopes.len(); self.conds.push((d, c)); }
        let r = self.tail(stmts);
        self.scopes.pop();
        let d = self.scopes.len();
        self.facts.retain(|f| f.0 <= d); self.conds.retain(|f| f.0 <= d);
        r
    }
    fn tail_inner(&mut self, stmts: &[Stmt]) -> R<String> {
        for (k, st) in stmts.iter().enumerate() {
            let last = k + 1 == stmts.len();
            match st {
                Stmt::Expr(Expr::Return(r), _) => {
                    return Ok(match &r.expr { Some(e) => { let rt = self.ret.clone(); let v = self.expr(e, Some(&rt))?; self.wrap(Some(&v)) } None => self.wrap(None) });
                }
                Stmt::Expr(Expr::If(i), _) if i.else_branch.is_none() && Self::ends_in_return(&i.then_branch) => {
                    let c = self.cond(&i.cond)?;
                    let t = self.branch_tail(&i.then_branch.stmts, Some(c.clone()))?;
                    let d = self.scopes.len(); self.conds.push((d, format!("¬ ({})", c)));
                    let rest = self.tail(&stmts[k + 1..])?;
                    return Ok(format!("if {} then\n{}\nelse\n{}", c, indent(&t, 2), indent(&rest, 2)));
                }
                Stmt::Expr(Expr::If(i), None) if last && i.else_branch.is_some() && self.ret != Ty::Unit => {
                    return self.tail_if(i);
                }
                Stmt::Expr(Expr::Match(m), None) if last && self.ret != Ty::Unit => {
                    return self.tail_match(m);
                }
                Stmt::Expr(e, None) if last && self.ret != Ty::Unit => {
                    let rt = self.ret.clone();
                    let v = self.expr(e, Some(&rt))?;
                    let vt = if v.ty == Ty::Lit { rt.clone() } else { v.ty.clone() };
                    if !self.ret_compatible(&vt, &rt) { return Err(format!("result of type {:?}, expected {:?}", v.ty, rt)); }
                    return Ok(self.wrap(Some(&v)));
                }
                _ => self.stmt(st)?,
            }
        }
        if self.ret != Ty::Unit { return Err("function body without a result".into()); }
        Ok(self.wrap(None))
    }
    fn ret_compatible(&self, a: &Ty, b: &Ty) -> bool {
        match (a, b) {
            (Ty::Opt(x), Ty::Opt(y)) => **x == Ty::Lit || self.ret_compatible(x, y),
            (Ty::Tuple(x), Ty::Tuple(y)) => x.len() == y.len() && x.iter().zip(y.iter()).all(|(p, q)| self.ret_compatible(p, q)),
            _ => self.unify(a, b).is_ok(),
        }
    }
    /// arms of a `match` on an Option / Result: (Lean pattern, bound variable, body)
    fn option_arms<'b>(&self, m: &'b ExprMatch) -> R<Vec<(String, Option<String>, &'b Expr)>> {
        let mut v = vec![];
        for arm in &m.arms {
            if arm.guard.is_some() { return Err("match guard".into()); }
            match &arm.pat {
                Pat::TupleStruct(ts) if matches!(path_str(&ts.path).as_str(), "Some" | "Ok") && ts.elems.len() == 1 => {
                    match &ts.elems[0] { Pat::Ident(i) => v.push((format!("some {}", ident(&i.ident.to_string())), Some(i.ident.to_string()), &*arm.body)), Pat::Wild(_) => v.push(("some _".into(), None, &*arm.body)), _ => return Err("match pattern".into()) }
                }
                Pat::TupleStruct(ts) if path_str(&ts.path) == "Err" => v.push(("none".into(), None, &*arm.body)),
                Pat::Ident(i) if i.ident == "None" => v.push(("none".into(), None, &*arm.body)),
                Pat::Path(p) if path_str(&p.path) == "None" => v.push(("none".into(), None, &*arm.body)),
                _ => return Err(format!("match pattern {}", short(&arm.pat))),
            }
        }
        if v.len() != 2 || v.iter().filter(|a| a.0 == "none").count() != 1 { return Err("match on an Option needs one `Some`/`Ok` and one `None`/`Err` arm".into()); }
        Ok(v)
    }
    /// `match n { a..=b => .., c => .., _ => .. }` on an integer: a chain of `if`s
    fn tail_match_int(&mut self, m: &ExprMatch, sc: &Val) -> R<String> {
        fn lit(e: &Expr) -> Option<u128> { lit_u128(e) }
        let mut out = String::new();
        let mut depth = 0usize;
        let n = m.arms.len();
        for (k, arm) in m.arms.iter().enumerate() {
            if arm.guard.is_some() { return Err("match guard".into()); }
            let cond: Option<String> = match &arm.pat {
                Pat::Wild(_) => None,
                Pat::Lit(l) => { let v = lit(&Expr::Lit(ExprLit { attrs: vec![], lit: l.lit.clone() })).ok_or("match literal")?; Some(format!("{} = {}", sc.s, v)) }
                Pat::Range(r) => {
                    let (Some(lo), Some(hi)) = (&r.start, &r.end) else { return Err("open range pattern".into()) };
                    let (lo, hi) = (lit(lo).ok_or("range pattern bound")?, lit(hi).ok_or("range pattern bound")?);
                    match r.limits { RangeLimits::Closed(_) => Some(format!("{} ≤ {} ∧ {} ≤ {}", lo, sc.s, sc.s, hi)), RangeLimits::HalfOpen(_) => Some(format!("{} ≤ {} ∧ {} < {}", lo, sc.s, sc.s, hi)) }
                }
                p => return Err(format!("match pattern {}", short(p))),
            };
            let stmts: Vec<Stmt> = match &*arm.body { Expr::Block(b) => b.block.stmts.clone(), e => vec![Stmt::Expr(e.clone(), None)] };
            match cond {
                Some(c) => {
                    if k + 1 == n { return Err("integer match without a final `_` arm".into()); }
                    let t = self.branch_tail(&stmts, Some(c.clone()))?;
                    write!(out, "{}if {} then\n{}\n{}else\n", " ".repeat(depth), c, indent(&t, depth + 2), " ".repeat(depth)).unwrap();
                    // the following arms are reached only if this pattern did not match
                    self.scopes.push(Scope::default());
                    let d = self.scopes.len(); self.conds.push((d, format!("¬ ({})", c)));
                    depth += 2;
                }
                None => {
                    if k + 1 != n { return Err("`_` arm is not the last one".into()); }
                    let t = self.branch_tail(&stmts, None)?;
                    out.push_str(&indent(&t, depth));
                }
            }
        }
        for _ in 0..(depth / 2) { self.scopes.pop(); }
        let d = self.scopes.len(); self.facts.retain(|f| f.0 <= d); self.conds.retain(|f| f.0 <= d);
        Ok(out)
    }
    fn tail_match(&mut self, m: &ExprMatch) -> R<String> {
        let sc = self.expr(&m.expr, None)?;
        if sc.ty.is_int() && sc.ty != Ty::Lit { return self.tail_match_int(m, &sc); }
        let Ty::Opt(inner) = sc.ty.clone() else { return Err(format!("match on {:?}", sc.ty)) };
        let arms = self.option_arms(m)?;
        let mut text = format!("match {} with", sc.s);
        for (pat, var, body) in arms {
            self.scopes.push(Scope::default());
            if let Some(v) = &var { self.declare(v, Self::plain((*inner).clone(), false)); }
            let stmts: Vec<Stmt> = match body { Expr::Block(b) => b.block.stmts.clone(), e => vec![Stmt::Expr(e.clone(), None)] };
            let r = self.tail(&stmts);
            self.scopes.pop();
            let d = self.scopes.len(); self.facts.retain(|f| f.0 <= d); self.conds.retain(|f| f.0 <= d);
            write!(text, "\n| {} =>\n{}", pat, indent(&r?, 2)).unwrap();
        }
        Ok(text)
    }
    fn match_stmt(&mut self, m: &ExprMatch) -> R<()> {
        let sc = self.expr(&m.expr, None)?;
        let Ty::Opt(inner) = sc.ty.clone() else { return Err(format!("match on {:?}", sc.ty)) };
        let arms = self.option_arms(m)?;
        let mut blocks = vec![];
        let mut muts: BTreeSet<String> = BTreeSet::new();
        let mut all: Vec<St> = vec![];
        for (pat, var, body) in arms {
            let inner2 = (*inner).clone();
            let (sts, mu) = self.sub_block_raw(|fx| {
                if let Some(v) = &var { fx.declare(v, Self::plain(inner2, false)); }
                if !sc.s.contains('\n') { let d = fx.scopes.len(); fx.conds.push((d, match &var { Some(v) => format!("{} = some {}", sc.s, ident(v)), None if pat == "none" => format!("{} = none", sc.s), None => format!("Option.isSome {} = true", sc.s) })); }
                match body { Expr::Block(b) => { for s in &b.block.stmts { fx.stmt(s)?; } Ok(()) } e => fx.expr_stmt(e) }
            })?;
            muts.extend(mu.iter().cloned());
            all.extend(sts.iter().cloned());
            blocks.push((pat, sts));
        }
        let eff = eff_of(&all)?;
        if muts.is_empty() && eff.is_none() { return Ok(()); }
        let pat = if muts.is_empty() { "()".to_string() } else { tuple_of(&self.ordered(&muts).iter().map(|x| ident(x)).collect::<Vec<_>>()) };
        let fin = eff_ret(eff, &pat);
        let mut text = format!("match {} with", sc.s);
        for (p, sts) in &blocks { write!(text, "\n| {} =>\n{}", p, indent(&render(sts, &fin), 2)).unwrap(); }
        let lp = if muts.is_empty() { "_".to_string() } else { pat };
        match eff { Some(k) => self.emit(St::Bind(lp, text, k)), None => self.emit(St::Let(lp, text)) }
        for x in &muts { self.rebind_mark(x, true)?; }
        Ok(())
    }
    fn tail_if(&mut self, i: &ExprIf) -> R<String> {
        if matches!(&*i.cond, Expr::Let(_)) { return Err("if-let".into()); }
        let c = self.cond(&i.cond)?;
        let t = self.branch_tail(&i.then_branch.stmts, Some(c.clone()))?;
        let nc = format!("¬ ({})", c);
        let e = match &i.else_branch {
            Some((_, el)) => match &**el {
                Expr::Block(b) => self.branch_tail(&b.block.stmts, Some(nc))?,
                Expr::If(i2) => { self.scopes.push(Scope::default()); let d = self.scopes.len(); self.conds.push((d, nc)); let r = self.tail_if(i2); self.scopes.pop(); let d = self.scopes.len(); self.conds.retain(|f| f.0 <= d); r? }
                _ => return Err("else branch".into()),
            },
            None => return Err("tail if without else".into()),
        };
        Ok(format!("if {} then\n{}\nelse\n{}", c, indent(&t, 2), indent(&e, 2)))
    }
}

// ==================================================================== driver
fn fuels_of(key: &str) -> Vec<String> {
    match key {
        "U256.add_carry" => vec!["fuel".into()],
        "U256.invert" => vec!["1200".into(), "600".into(), "600".into()],
        _ => vec![],
    }
}

/// model function used when the callee could not be translated: (lean name, partial, fuel_param)
fn model_fallback(key: &str) -> Option<(&'static str, bool, bool)> {
    Some(match key {
        "U256.set_bit" => ("Sm9.U256.set_bit", false, false), "U256.get_bit" => ("Sm9.U256.get_bit", false, false),
        "U256.subtract_modulus_with_carry" => ("Sm9.U256.subtract_modulus_with_carry", false, false),
        "U256.add_carry" => ("Sm9.U256.add_carry", true, true), "U256.add" => ("Sm9.U256.add", false, false), "U256.sub" => ("Sm9.U256.sub", false, false),
        "U256.mul2" => ("Sm9.U256.mul2", false, false), "U256.div2" => ("Sm9.U256.div2", false, false),
        "U256.mul_without_cond_subtract" => ("Sm9.U256.mul_without_cond_subtract", false, false),
        "U256.mul" => ("Sm9.U256.mul", false, false), "U256.square" => ("Sm9.U256.square", false, false), "U256.neg" => ("Sm9.U256.neg", false, false),
        "U256.invert" => ("Sm9.U256.invert", true, false),
        "Fp.into_u256" => ("Sm9.Fp.into_u256", false, false), "Fp.new" => ("Sm9.Fp.new", false, false), "Fp.new_mul_factor" => ("Sm9.Fp.new_mul_factor", false, false),
        "Fp.add_inplace" => ("Sm9.Fp.add", false, false), "Fp.sub_inplace" => ("Sm9.Fp.sub", false, false), "Fp.mul_inplace" => ("Sm9.Fp.mul", false, false), "Fp.neg_inplace" => ("Sm9.Fp.neg", false, false),
        "Fp.double" => ("Sm9.Fp.double", false, false), "Fp.triple" => ("Sm9.Fp.triple", false, false), "Fp.squared" => ("Sm9.Fp.squared", false, false),
        "Fp.inverse" => ("Sm9.Fp.inverse", true, false), "Fp.set_bit" => ("Sm9.Fp.set_bit", false, false),
        _ => return None,
    })
}

fn big_sig(name: &str, recv: Recv, self_ty: Ty, params: Vec<(&str, Ty)>, ret: Ty, lean: &str) -> ((String, String), FnSig) {
    let tk = tykey(&self_ty).to_string();
    ((tk.clone(), name.to_string()), FnSig { lean: lean.to_string(), key: format!("{}.{}", tk, name), recv, self_ty, params: params.into_iter().map(|(n, t)| (n.to_string(), t, false)).collect(), ret, partial: false, panics: false, has_dbg: false, fuel_param: false, takes_p: false, translated: false })
}

fn builtin_sigs() -> HashMap<(String, String), FnSig> {
    let mut m = HashMap::new();
    for (k, v) in [
        big_sig("add_with_carry", Recv::RefMut, Ty::B256, vec![("other", Ty::B256)], Ty::Bool, "Big.add_with_carry"),
        big_sig("sub_with_borrow", Recv::RefMut, Ty::B256, vec![("other", Ty::B256)], Ty::Bool, "Big.sub_with_borrow"),
        big_sig("mul2", Recv::RefMut, Ty::B256, vec![], Ty::Bool, "Big.mul2"),
        big_sig("div2", Recv::RefMut, Ty::B256, vec![], Ty::Unit, "Big.div2"),
        big_sig("is_odd", Recv::Ref, Ty::B256, vec![], Ty::Bool, "Big.is_odd"),
        big_sig("is_even", Recv::Ref, Ty::B256, vec![], Ty::Bool, "Big.is_even"),
        big_sig("get_bit", Recv::Ref, Ty::B256, vec![("i", Ty::Usize)], Ty::Bool, "Big.get_bit"),
        big_sig("mul", Recv::Ref, Ty::B256, vec![("other", Ty::B256)], Ty::Tuple(vec![Ty::B256, Ty::B256]), "Big.mul"),
        big_sig("get_bit", Recv::Ref, Ty::B512, vec![("i", Ty::Usize)], Ty::Bool, "Big.get_bit"),
        big_sig("num_bits", Recv::Ref, Ty::B512, vec![], Ty::U32, "Big.num_bits"),
    ] { m.insert(k, v); }
    m
}

struct Target { key: String, lean: String, tk: String, self_ty: Ty, in_macro: bool, p_arg: Option<String>, takes_p: bool, item: ImplItemFn, generic: Option<String> }

fn subst_macro_body(ts: TokenStream, map: &HashMap<&str, &str>) -> TokenStream {
    let mut out: Vec<TokenTree> = vec![];
    let mut it = ts.into_iter().peekable();
    while let Some(tt) = it.next() {
        match tt {
            TokenTree::Punct(p) if p.as_char() == '$' => {
                if let Some(TokenTree::Ident(id)) = it.peek() {
                    let name = id.to_string();
                    if let Some(r) = map.get(name.as_str()) { out.push(TokenTree::Ident(PIdent::new(r, Span::call_site()))); it.next(); continue; }
                }
                out.push(TokenTree::Punct(p));
            }
            TokenTree::Group(g) => { let mut ng = Group::new(g.delimiter(), subst_macro_body(g.stream(), map)); ng.set_span(g.span()); out.push(TokenTree::Group(ng)); }
            o => out.push(o),
        }
    }
    out.into_iter().collect()
}

/// the transcriber `{ .. }` of the first rule of a `macro_rules!`
fn macro_transcriber(tokens: &TokenStream) -> Option<TokenStream> {
    let mut seen_arrow = 0;
    for tt in tokens.clone() {
        match &tt {
            TokenTree::Punct(p) if p.as_char() == '=' || p.as_char() == '>' => seen_arrow += 1,
            TokenTree::Group(g) if seen_arrow >= 2 && g.delimiter() == Delimiter::Brace => return Some(g.stream()),
            _ => {}
        }
    }
    None
}

fn sig_of(fx: &Fx, t: &Target) -> R<FnSig> {
    let m = &t.item;
    let mut recv = Recv::None;
    let mut params = vec![];
    for a in &m.sig.inputs {
        match a {
            FnArg::Receiver(r) => { recv = if r.reference.is_some() { if r.mutability.is_some() { Recv::RefMut } else { Recv::Ref } } else { Recv::Val }; }
            FnArg::Typed(p) => {
                let n = match &*p.pat { Pat::Ident(i) => i.ident.to_string(), _ => return Err("parameter pattern".into()) };
                let is_mut = matches!(&*p.ty, Type::Reference(r) if r.mutability.is_some());
                params.push((n, fx.ty_of(&p.ty)?, is_mut));
            }
        }
    }
    let ret = match &m.sig.output { ReturnType::Default => Ty::Unit, ReturnType::Type(_, ty) => fx.ty_of(ty)? };
    for p in &m.sig.generics.params {
        match p {
            GenericParam::Const(c) if Some(c.ident.to_string()) == t.generic => {}
            GenericParam::Type(tp) if fx.generic_tys.as_ref().map(|g| g.contains_key(&tp.ident.to_string())).unwrap_or(false) => {}
            GenericParam::Lifetime(_) => {}
            _ => return Err("generic function".into()),
        }
    }
    let has_dbg = { let b = &m.block; quote!(#b).to_string().contains("debug_assert") };
    Ok(FnSig { lean: String::new(), key: t.key.clone(), recv, self_ty: t.self_ty.clone(), params, ret, partial: false, panics: false, has_dbg, fuel_param: false, takes_p: t.takes_p, translated: false })
}

fn new_fx<'a>(g: &'a Global, t: &Target, partial: bool) -> Fx<'a> {
    // type parameters: `R: Rng` is a script of drawn u64s; `I: Into<U256>` is monomorphised at the field type
    let mut gt: HashMap<String, Ty> = HashMap::new();
    for p in &t.item.sig.generics.params {
        if let GenericParam::Type(tp) = p {
            let b = quote!(#tp).to_string().replace(' ', "");
            if b.contains("Rng") { gt.insert(tp.ident.to_string(), Ty::Rng); } else if b.contains("Into<U256>") { gt.insert(tp.ident.to_string(), Ty::Fp); }
        }
    }
    let mut fx = Fx { g, key: t.key.clone(), lean_name: t.lean.clone(), scopes: vec![Scope::default()], bufs: vec![], fresh: 0, self_ty: t.self_ty.clone(), recv: Recv::None, ret: Ty::Unit, mut_params: vec![], p_arg: t.p_arg.clone(), in_macro: t.in_macro, partial, panics: false, dbg: vec![], in_assert: false, assert_flags: vec![], unwrapped: HashMap::new(), payload_mutated: BTreeSet::new(), pre: vec![], for_count: 0, generic_tys: None, retnone: false, lib: None, has_dbg: false, facts: vec![], conds: vec![], obligations: vec![], aux_defs: String::new(), aux_names: vec![], fuels: fuels_of(&t.key), loop_count: 0, notes: vec![], zip_generic: t.generic.clone(), next_id: 0, calls: BTreeSet::new() };
    if !gt.is_empty() { fx.generic_tys = Some(gt); }
    if t.tk == "LibFr" { fx.lib = Some("Fr".into()); } else if t.tk == "LibFq" { fx.lib = Some("Fq".into()); }
    fx
}

struct Done { calls: Vec<String>, def: String, sig: FnSig, params: Vec<(String, String)>, ret: String, obligations: Vec<Obligation>, aux: Vec<String>, notes: Vec<String> }

fn translate(g: &Global, t: &Target, eff: Option<bool>) -> R<Done> {
    let partial = eff == Some(false);
    let mut fx = new_fx(g, t, partial);
    fx.panics = eff == Some(true);
    let mut sig = sig_of(&fx, t)?;
    fx.recv = sig.recv.clone();
    fx.ret = sig.ret.clone();
    fx.has_dbg = sig.has_dbg;
    let m = &t.item;
    let mut lparams: Vec<(String, String)> = vec![];
    let fuels = fuels_of(&t.key);
    if fuels.iter().any(|f| f == "fuel") { lparams.push(("fuel".into(), "Nat".into())); sig.fuel_param = true; }
    if t.takes_p { lparams.push(("P".into(), "MontParams".into())); }
    if sig.recv != Recv::None {
        let mutable = sig.recv == Recv::RefMut || matches!(m.sig.inputs.first(), Some(FnArg::Receiver(r)) if r.mutability.is_some());
        fx.declare("self", Fx::plain(t.self_ty.clone(), mutable));
        lparams.push(("self".into(), t.self_ty.lean()));
    }
    for a in &m.sig.inputs {
        if let FnArg::Typed(p) = a {
            let Pat::Ident(i) = &*p.pat else { return Err("parameter pattern".into()) };
            let n = i.ident.to_string();
            let ty = fx.ty_of(&p.ty)?;
            let is_mut_ref = matches!(&*p.ty, Type::Reference(r) if r.mutability.is_some());
            if is_mut_ref { fx.mut_params.push(n.clone()); }
            fx.declare(&n, Fx::plain(ty.clone(), i.mutability.is_some() || is_mut_ref));
            lparams.push((ident(&n), ty.lean()));
        }
    }
    let body = fx.tail(&m.block.stmts)?;
    let mut comps: Vec<String> = vec![];
    if sig.recv == Recv::RefMut { comps.push(t.self_ty.lean()); }
    for (_, ty, is_mut) in &sig.params { if *is_mut { comps.push(ty.lean()); } }
    if sig.ret != Ty::Unit { comps.push(sig.ret.lean()); }
    let mut ret = if comps.is_empty() { "Unit".to_string() } else { comps.join(" × ") };
    if sig.has_dbg { comps.push("Bool".into()); ret = comps.join(" × "); }
    if partial || fx.panics { let m = if partial { "Option" } else { "Outcome" }; ret = if comps.len() == 1 { format!("{} {}", m, paren(&comps[0])) } else { format!("{} ({})", m, ret) }; }
    let mut def = String::new();
    def.push_str(&fx.aux_defs);
    writeln!(def, "/-- `{}` -/", t.key).unwrap();
    writeln!(def, "def {} {} : {} :=\n{}\n", t.lean, lparams.iter().map(|p| format!("({} : {})", p.0, p.1)).collect::<Vec<_>>().join(" "), ret, indent(&body, 2)).unwrap();
    sig.partial = partial;
    sig.panics = fx.panics;
    sig.translated = true;
    sig.lean = format!("Sm9.Gen.L.{}", t.lean);
    Ok(Done { calls: fx.calls.iter().cloned().collect(), def, sig, params: lparams, ret, obligations: fx.obligations, aux: fx.aux_names, notes: fx.notes })
}

fn jstr(s: &str) -> String { format!("\"{}\"", s.replace('\\', "\\\\").replace('"', "\\\"").replace('\n', " ")) }

fn impl_self_name(im: &ItemImpl) -> Option<String> {
    match &*im.self_ty { Type::Path(p) => p.path.segments.last().map(|s| s.ident.to_string()), _ => None }
}

fn collect_impl_fns(items: &[Item], out: &mut Vec<Target>, in_macro: bool) {
    for it in items {
        let Item::Impl(im) = it else { continue };
        let Some(sn) = impl_self_name(im) else { continue };
        let tr = im.trait_.as_ref().map(|(_, p, _)| quote!(#p).to_string().replace(' ', ""));
        for ii in &im.items {
            let ImplItem::Fn(m) = ii else { continue };
            let name = m.sig.ident.to_string();
            let generic = m.sig.generics.params.iter().find_map(|p| if let GenericParam::Const(c) = p { Some(c.ident.to_string()) } else { None });
            let (ns, tk, self_ty, p_arg, takes_p, lname) = match (sn.as_str(), in_macro, tr.as_deref()) {
                ("U256", false, None) => ("U256", "U256", Ty::U256, None, false, name.clone()),
                ("U512", false, None) => ("U512", "U512", Ty::U512, None, false, name.clone()),
                ("BitIterator", false, Some(t)) if t == "Iterator" && name == "next" => ("BitIterator", "BitIterator", Ty::BitIter, None, false, name.clone()),
                ("U256", true, Some(t)) if t.starts_with("From<") && name == "from" => ("Fp", "Fp", Ty::U256, Some("P".to_string()), true, "into_u256".to_string()),
                ("Fp", true, None) => ("Fp", "Fp", Ty::Fp, Some("P".to_string()), true, name.clone()),
                ("Fp", true, Some(t)) if matches!(t, "Zero" | "One" | "FieldElement") => ("Fp", "Fp", Ty::Fp, Some("P".to_string()), true, name.clone()),
                ("Fq", false, None) => ("Fq", "Fp", Ty::Fp, Some("Fq.P".to_string()), false, name.clone()),
                ("Fr", false, None) => ("Fr", "Fp", Ty::Fp, Some("Fr.P".to_string()), false, name.clone()),
                _ => continue,
            };
            out.push(Target { key: format!("{}.{}", ns, lname), lean: format!("{}.{}", ns, ident(&lname)), tk: tk.to_string(), self_ty, in_macro, p_arg, takes_p, item: m.clone(), generic });
        }
    }
}

fn order_targets(mut ts: Vec<Target>) -> Vec<Target> {
    const ORDER: &[&str] = &["Arith.adc", "Arith.sbb", "Arith.mac", "Arith.mac_discard", "Arith.mac_with_carry_macro", "Arith.adc_macro",
        "U256.zero", "U256.is_zero", "U256.one", "U256.is_one", "U256.is_even", "U256.is_odd", "U256.set_bit", "U256.get_bit", "U256.subtract_modulus_with_carry", "U256.add_carry", "U256.add", "U256.sub", "U256.mul2", "U256.div2", "U256.neg", "U256.mul_without_cond_subtract", "U256.mul", "U256.square", "U256.invert",
        "U256.from_slice", "U256.to_big_endian", "BitIterator.next", "U256.bits", "U256.bits_without_leading_zeros",
        "U512.from_slice", "U512.new", "U512.bit_length", "U512.get_bit", "U512.divrem", "U512.interpret", "U512.random", "U256.random",
        "Fp.into_u256", "Fp.zero", "Fp.is_zero", "Fp.one", "Fp.is_one", "Fp.new", "Fp.new_mul_factor", "Fp.add_inplace", "Fp.sub_inplace", "Fp.mul_inplace", "Fp.neg_inplace", "Fp.inverse", "Fp.double", "Fp.triple", "Fp.squared", "Fp.set_bit", "Fp.modulus",
        "Fp.from_slice", "Fp.to_slice", "Fp.interpret", "Fp.from_str", "Fp.random", "Fp.pow",
        "Fq.div2", "Fq.sqrt", "Fq.sum_of_products", "Fr.from_hash",
        "LibFr.new_mul_factor", "LibFr.to_slice", "LibFr.from_slice", "LibFq.new_mul_factor", "LibFq.into_u256", "LibFq.to_slice", "LibFq.from_slice"];
    let pos = |k: &str| ORDER.iter().position(|o| *o == k).unwrap_or(ORDER.len());
    ts.sort_by_key(|t| pos(&t.key)); // stable: the rest keeps source order
    ts
}

pub fn run(src_dir: &str, out_dir: &str, locals: &crate::rename::Locals) -> (usize, usize) {
    let mut report: BTreeMap<String, String> = BTreeMap::new();
    let mut targets: Vec<Target> = vec![];
    let mut params_defs = String::new();
    let mut params_meta: Vec<(String, Vec<String>)> = vec![];
    let read = |f: &str| -> R<File> {
        let text = std::fs::read_to_string(format!("{}/{}", src_dir, f)).map_err(|e| format!("unreadable: {}", e))?.replace("\r\n", "\n");
        parse_file(&text).map_err(|e| format!("parse error: {}", e))
    };
    // ---- arith.rs: free functions and the two macros
    match read("arith.rs") {
        Err(e) => { report.insert("arith.rs::<file>".into(), e); }
        Ok(file) => for it in &file.items {
            match it {
                Item::Fn(f) => {
                    let name = f.sig.ident.to_string();
                    let m = ImplItemFn { attrs: vec![], vis: Visibility::Inherited, defaultness: None, sig: f.sig.clone(), block: (*f.block).clone() };
                    targets.push(Target { key: format!("Arith.{}", name), lean: format!("Arith.{}", ident(&name)), tk: String::new(), self_ty: Ty::Unit, in_macro: false, p_arg: None, takes_p: false, item: m, generic: None });
                }
                Item::Macro(mc) if path_str(&mc.mac.path) == "macro_rules" => {
                    let Some(id) = &mc.ident else { continue };
                    let name = id.to_string();
                    let (ps, sigtext): (&[&str], &str) = match name.as_str() {
                        "mac_with_carry" => (&["a", "b", "c", "carry"], "fn f(a: u64, b: u64, c: u64, carry: &mut u64) -> u64"),
                        "adc" => (&["a", "b", "carry"], "fn f(a: u64, b: u64, carry: &mut u64) -> u64"),
                        _ => continue,
                    };
                    let key = format!("Arith.{}_macro", name);
                    let map: HashMap<&str, &str> = ps.iter().map(|p| (*p, *p)).collect();
                    let r: R<ImplItemFn> = (|| {
                        let body = macro_transcriber(&mc.mac.tokens).ok_or("macro shape")?;
                        let body = subst_macro_body(body, &map);
                        let text = format!("{} {}", sigtext, body);
                        parse_str::<ImplItemFn>(&text).map_err(|e| format!("macro body: {}", e))
                    })();
                    match r {
                        Ok(m) => targets.push(Target { key: key.clone(), lean: key.clone(), tk: "macro".into(), self_ty: Ty::Unit, in_macro: false, p_arg: None, takes_p: false, item: m, generic: None }),
                        Err(e) => { report.insert(key, format!("skipped: {}", e)); }
                    }
                }
                _ => {}
            }
        },
    }
    for f in ["u256.rs", "u512.rs"] {
        match read(f) { Err(e) => { report.insert(format!("{}::<file>", f), e); } Ok(file) => collect_impl_fns(&file.items, &mut targets, false) }
    }
    match read("fields/fp.rs") {
        Err(e) => { report.insert("fields/fp.rs::<file>".into(), e); }
        Ok(file) => {
            for it in &file.items {
                if let Item::Macro(mc) = it {
                    let pn = path_str(&mc.mac.path);
                    if pn == "macro_rules" && mc.ident.as_ref().map(|i| i == "field_impl").unwrap_or(false) {
                        let map: HashMap<&str, &str> = [("name", "Fp"), ("modulus", "MODULUS__"), ("rsquared", "RSQUARED__"), ("one", "ONE__"), ("inv", "INV__")].into_iter().collect();
                        match macro_transcriber(&mc.mac.tokens).map(|b| subst_macro_body(b, &map)).ok_or("macro shape".to_string()).and_then(|b| parse2::<File>(b).map_err(|e| format!("field_impl body: {}", e))) {
                            Ok(body) => collect_impl_fns(&body.items, &mut targets, true),
                            Err(e) => { report.insert("fields/fp.rs::field_impl".into(), format!("skipped: {}", e)); }
                        }
                    } else if pn == "field_impl" {
                        if let Ok(args) = mc.mac.parse_body_with(punctuated::Punctuated::<Expr, Token![,]>::parse_terminated) {
                            let a: Vec<String> = args.iter().map(|e| quote!(#e).to_string().replace(' ', "").trim_start_matches('*').to_string()).collect();
                            if a.len() == 5 {
                                writeln!(params_defs, "/-- `field_impl!({}, {}, {}, {}, {})` -/\ndef {}.P : MontParams := ⟨Consts.{}, Consts.{}, Consts.{}, Consts.{}⟩\n", a[0], a[1], a[2], a[3], a[4], a[0], a[1], a[2], a[3], a[4]).unwrap();
                                params_meta.push((a[0].clone(), a[1..].to_vec()));
                            }
                        }
                    }
                }
            }
            collect_impl_fns(&file.items, &mut targets, false);
        }
    }
    match read("lib.rs") {
        Err(e) => { report.insert("lib.rs::<file>".into(), e); }
        Ok(file) => for it in &file.items {
            let Item::Impl(im) = it else { continue };
            let tr = im.trait_.as_ref().map(|(_, p, _)| quote!(#p).to_string().replace(' ', ""));
            let selfname = impl_self_name(im);
            let selftxt = { let t = &im.self_ty; quote!(#t).to_string().replace(' ', "") };
            // which wrapper, and how the function is called in the report
            let (wrapper, rename): (Option<&str>, Option<&str>) = match (selfname.as_deref(), tr.as_deref(), selftxt.as_str()) {
                (Some("Fr"), None, _) => (Some("Fr"), None),
                (Some("Fq"), None, _) => (Some("Fq"), None),
                (Some("Fr"), Some("FromStr"), _) => (Some("Fr"), None),
                (Some("Fq"), Some("FromStr"), _) => (Some("Fq"), None),
                (Some("Fr"), Some("TryFrom<&[u8]>"), _) => (Some("Fr"), None),
                (Some("Fq"), Some("TryFrom<&[u8]>"), _) => (Some("Fq"), None),
                (_, Some("From<Fr>"), "[u8;32]") => (Some("Fr"), Some("into_bytes")),
                (_, Some("From<&'aFr>"), "[u8;32]") => (Some("Fr"), Some("into_bytes_ref")),
                (_, Some("From<Fq>"), "[u8;32]") => (Some("Fq"), Some("into_bytes")),
                (_, Some("From<&'aFq>"), "[u8;32]") => (Some("Fq"), Some("into_bytes_ref")),
                _ => (None, None),
            };
            let Some(w) = wrapper else { continue };
            for ii in &im.items {
                let ImplItem::Fn(m) = ii else { continue };
                let name = rename.map(|s| s.to_string()).unwrap_or_else(|| m.sig.ident.to_string());
                let ns = format!("Lib{}", w);
                let self_ty = if rename.is_some() { Ty::Bytes } else if w == "Fr" { Ty::LibFr } else { Ty::LibFq };
                targets.push(Target { key: format!("{}.{}", ns, name), lean: format!("{}.{}", ns, ident(&name)), tk: ns.clone(), self_ty, in_macro: false, p_arg: Some(format!("{}.P", w)), takes_p: false, item: m.clone(), generic: None });
            }
        },
    }
    match read("fields.rs") {
        Err(e) => { report.insert("fields.rs::<file>".into(), e); }
        Ok(file) => for it in &file.items {
            if let Item::Trait(tr) = it {
                if tr.ident != "FieldElement" { continue; }
                for ti in &tr.items {
                    if let TraitItem::Fn(tf) = ti {
                        if tf.sig.ident == "pow" {
                            if let Some(b) = &tf.default {
                                let m = ImplItemFn { attrs: vec![], vis: Visibility::Inherited, defaultness: None, sig: tf.sig.clone(), block: b.clone() };
                                targets.push(Target { key: "Fp.pow".into(), lean: "Fp.pow".into(), tk: "Fp".into(), self_ty: Ty::Fp, in_macro: true, p_arg: Some("P".into()), takes_p: true, item: m, generic: None });
                            }
                        }
                    }
                }
            }
        },
    }
    let targets = order_targets(targets);
    // locals renamed by a maintainer are renamed back to the pinned names (rename.rs): the state order of the loops and
    // the shape of the generated proofs depend on them
    let targets: Vec<Target> = targets.into_iter().map(|mut t| {
        crate::desugar::desugar_fn(&mut t.item);
        if let Some(n) = locals.normalise(&format!("L:{}", t.key), &mut t.item) { report.insert(format!("renamed-locals:{}", t.key), n); }
        t
    }).collect();
    // ---- signatures of everything (so that calls type-check even when the callee is skipped)
    let mut g = Global { sigs: builtin_sigs() };
    for t in &targets {
        if t.tk == "macro" { continue; }
        let name = t.key.split('.').nth(1).unwrap().to_string();
        let fx = new_fx(&g, t, false);
        if let Ok(mut s) = sig_of(&fx, t) {
            if let Some((lean, partial, fuel)) = model_fallback(&t.key) { s.lean = lean.to_string(); s.partial = partial; s.fuel_param = fuel; if t.key.starts_with("Fp.") { s.takes_p = true; } }
            g.sigs.entry((t.tk.clone(), name)).or_insert(s);
        }
    }
    // ---- translate in dependency order
    let mut defs = String::new();
    let mut meta: Vec<String> = vec![];
    let mut obls: Vec<String> = vec![];
    for t in &targets {
        let r = match translate(&g, t, None) { Err(e) if e == "__needs_partial" => translate(&g, t, Some(false)), Err(e) if e == "__needs_panic" => translate(&g, t, Some(true)), o => o };
        match r {
            Ok(d) => {
                defs.push_str(&d.def);
                report.insert(t.key.clone(), "translated".into());
                if t.tk != "macro" { let name = t.key.split('.').nth(1).unwrap().to_string(); g.sigs.insert((t.tk.clone(), name), d.sig.clone()); }
                meta.push(format!("    {{\"key\": {}, \"lean\": {}, \"params\": [{}], \"ret\": {}, \"partial\": {}, \"panics\": {}, \"has_dbg\": {}, \"aux\": [{}], \"notes\": [{}], \"calls\": [{}]}}", jstr(&t.key), jstr(&d.sig.lean),
                    d.params.iter().map(|p| format!("[{}, {}]", jstr(&p.0), jstr(&p.1))).collect::<Vec<_>>().join(", "), jstr(&d.ret), d.sig.partial, d.sig.panics, d.sig.has_dbg,
                    d.aux.iter().map(|a| jstr(a)).collect::<Vec<_>>().join(", "), d.notes.iter().map(|a| jstr(a)).collect::<Vec<_>>().join(", "), d.calls.iter().map(|a| jstr(a)).collect::<Vec<_>>().join(", ")));
                for o in &d.obligations { obls.push(format!("    {{\"name\": {}, \"binders\": {}, \"hyps\": [{}], \"goal\": {}}}", jstr(&o.name), jstr(&o.binders), o.hyps.iter().map(|h| jstr(h)).collect::<Vec<_>>().join(", "), jstr(&o.goal))); }
            }
            Err(e) => { report.entry(t.key.clone()).or_insert(format!("skipped: {}", e)); }
        }
    }
    let header = "-- GENERATED by rs2lean (limb.rs) from /repo/src/{arith,u256,u512,fields/fp}.rs on every run — do not edit.\nimport Sm9.Model.Mont\nset_option linter.unusedVariables false\nnamespace Sm9.Gen.L\nopen Sm9\n\n/-- the list an iterator yields: `next` is called until it returns `none` (at most `fuel` times) -/\ndef iterList {σ α : Type} (next : σ → σ × Option α) : Nat → σ → List α\n  | 0, _ => []\n  | fuel + 1, s => match next s with\n    | (s', some a) => a :: iterList next fuel s'\n    | (_, none) => []\n\n";
    let text = format!("{}{}{}\nend Sm9.Gen.L\n", header, params_defs, defs);
    super::write_if_changed(&format!("{}/LimbRust.lean", out_dir), &text);
    let mut rep = String::from("{\n");
    let n = report.len();
    for (i, (k, v)) in report.iter().enumerate() { writeln!(rep, "  {}: {}{}", jstr(k), jstr(v), if i + 1 < n { "," } else { "" }).unwrap(); }
    rep.push_str("}\n");
    super::write_if_changed(&format!("{}/limb_report.json", out_dir), &rep);
    let pm: Vec<String> = params_meta.iter().map(|(n, a)| format!("    {{\"name\": {}, \"args\": [{}]}}", jstr(n), a.iter().map(|x| jstr(x)).collect::<Vec<_>>().join(", "))).collect();
    let metatext = format!("{{\n  \"fns\": [\n{}\n  ],\n  \"obligations\": [\n{}\n  ],\n  \"params\": [\n{}\n  ]\n}}\n", meta.join(",\n"), obls.join(",\n"), pm.join(",\n"));
    super::write_if_changed(&format!("{}/limb_meta.json", out_dir), &metatext);
    let ok = report.values().filter(|v| *v == "translated").count();
    (ok, report.len() - ok)
}
