//! Desugaring of a few Rust idioms into the forms the translators already understand (applied to the parsed function
//! before translation, after `inline.rs`):
//!   `if let PAT = E { A } else { B }`      ->  `match E { PAT => A, _ => B }`      (no `else`: `_ => {}`)
//!   `let PAT = E else { DIVERGE };`        ->  `let x = match E { PAT => x, _ => DIVERGE };`   (PAT binds exactly one name x)
//! Both are the definitions of these forms in the Rust reference; nothing is approximated.
use syn::visit_mut::{self, VisitMut};
use syn::*;

struct OneBinder { names: Vec<Ident> }
impl<'ast> syn::visit::Visit<'ast> for OneBinder {
    fn visit_pat_ident(&mut self, p: &'ast PatIdent) {
        if !p.ident.to_string().chars().next().map_or(false, |c| c.is_uppercase()) { self.names.push(p.ident.clone()); }
    }
}

pub struct Desugar;
impl VisitMut for Desugar {
    fn visit_expr_mut(&mut self, e: &mut Expr) {
        visit_mut::visit_expr_mut(self, e);
        if let Expr::If(i) = e {
            if let Expr::Let(l) = &*i.cond {
                let pat = &l.pat; let scrut = &l.expr; let then = &i.then_branch;
                let new: Expr = match &i.else_branch {
                    Some((_, el)) => parse_quote!(match #scrut { #pat => #then, _ => #el }),
                    None => parse_quote!(match #scrut { #pat => #then, _ => {} }),
                };
                *e = new;
            }
        }
    }
    fn visit_block_mut(&mut self, b: &mut Block) {
        visit_mut::visit_block_mut(self, b);
        for st in b.stmts.iter_mut() {
            if let Stmt::Local(l) = st {
                let Some(init) = &l.init else { continue };
                let Some((_, div)) = &init.diverge else { continue };
                let mut ob = OneBinder { names: vec![] };
                syn::visit::Visit::visit_pat(&mut ob, &l.pat);
                if ob.names.len() != 1 { continue; }
                let x = &ob.names[0]; let pat = &l.pat; let scrut = &init.expr;
                // `else { return r; }` / `else { return; }`: a single diverging statement becomes the arm's expression
                let arm: Expr = match &**div {
                    Expr::Block(bl) if bl.block.stmts.len() == 1 => match &bl.block.stmts[0] { Stmt::Expr(ex, _) => ex.clone(), _ => (**div).clone() },
                    o => o.clone(),
                };
                let new: Stmt = parse_quote!(let #x = match #scrut { #pat => #x, _ => #arm };);
                *st = new;
            }
        }
    }
}

pub fn desugar_fn(m: &mut ImplItemFn) { Desugar.visit_impl_item_fn_mut(m); }
