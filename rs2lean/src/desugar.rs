//! Desugaring of a few Rust idioms into the forms the translators already understand (applied to the parsed function
//! before translation, after `inline.rs`):
//!   `if let PAT = E { A } else { B }`      ->  `match E { PAT => A, _ => B }`      (no `else`: `_ => {}`)
//!   `let PAT = E else { DIVERGE };`        ->  `let x = match E { PAT => x, _ => DIVERGE };`   (PAT binds exactly one name x)
//!   `let mut it = E; ..lets..; while let Some(P) = it.next() { B }`  ->  `..lets..; for P in E { B }`   (`it` used nowhere else; see `while_let_next`)
//!   `let x = if C { CALL } else { LIT };`  ->  `let mut x = LIT; if C { x = CALL; }`   (LIT a literal: evaluating it first is unobservable; see `let_if_literal`)
//! Both are the definitions of these forms in the Rust reference; nothing is approximated.
use syn::visit_mut::{self, VisitMut};
use syn::*;

struct OneBinder { names: Vec<Ident> }
impl<'ast> syn::visit::Visit<'ast> for OneBinder {
    fn visit_pat_ident(&mut self, p: &'ast PatIdent) {
        if !p.ident.to_string().chars().next().map_or(false, |c| c.is_uppercase()) { self.names.push(p.ident.clone()); }
    }
}

pub struct Desugar;
impl VisitMut for Desugar {
    fn visit_expr_mut(&mut self, e: &mut Expr) {
        visit_mut::visit_expr_mut(self, e);
        if let Expr::If(i) = e {
            if let Expr::Let(l) = &*i.cond {
                let pat = &l.pat; let scrut = &l.expr; let then = &i.then_branch;
                let new: Expr = match &i.else_branch {
                    Some((_, el)) => parse_quote!(match #scrut { #pat => #then, _ => #el }),
                    None => parse_quote!(match #scrut { #pat => #then, _ => {} }),
                };
                *e = new;
            }
        }
    }
    fn visit_block_mut(&mut self, b: &mut Block) {
        visit_mut::visit_block_mut(self, b);
        while_let_next(b);
        let_if_literal(b);
        for st in b.stmts.iter_mut() {
            if let Stmt::Local(l) = st {
                let Some(init) = &l.init else { continue };
                let Some((_, div)) = &init.diverge else { continue };
                let mut ob = OneBinder { names: vec![] };
                syn::visit::Visit::visit_pat(&mut ob, &l.pat);
                if ob.names.len() != 1 { continue; }
                let x = &ob.names[0]; let pat = &l.pat; let scrut = &init.expr;
                // `else { return r; }` / `else { return; }`: a single diverging statement becomes the arm's expression
                let arm: Expr = match &**div {
                    Expr::Block(bl) if bl.block.stmts.len() == 1 => match &bl.block.stmts[0] { Stmt::Expr(ex, _) => ex.clone(), _ => (**div).clone() },
                    o => o.clone(),
                };
                let new: Stmt = parse_quote!(let #x = match #scrut { #pat => #x, _ => #arm };);
                *st = new;
            }
        }
    }
}

fn idents_of(ts: proc_macro2::TokenStream, acc: &mut Vec<String>) {
    for t in ts { match t { proc_macro2::TokenTree::Ident(i) => acc.push(i.to_string()), proc_macro2::TokenTree::Group(g) => idents_of(g.stream(), acc), _ => {} } }
}

/// `let mut it = E; S1; ..; Sk; while let Some(P) = it.next() { B }`  ->  `S1; ..; Sk; for P in E { B }`
/// — the definition of `for` (`loop { match it.next() { Some(P) => B, None => break } }` over `IntoIterator::into_iter(E)`, the
/// identity on an iterator) read backwards.  Exact under the conditions checked here: `it` is a plain local that occurs nowhere
/// else in its scope (so neither `B` nor the code after the loop can observe or advance it), the loop has no label, and the
/// statements `S1..Sk` between the `let` and the loop are `let`s that neither bind nor mention any identifier of `E` (moving the
/// evaluation of `E` behind them cannot change any value; the translated code has no effects but panics, which are not ordered).
fn while_let_next(b: &mut Block) {
    loop {
        let mut hit: Option<(usize, usize)> = None;
        'search: for (j, st) in b.stmts.iter().enumerate() {
            let Stmt::Expr(Expr::While(w), _) = st else { continue };
            if w.label.is_some() { continue; }
            let Expr::Let(l) = &*w.cond else { continue };
            let Pat::TupleStruct(ts) = &*l.pat else { continue };
            if !ts.path.is_ident("Some") || ts.elems.len() != 1 { continue; }
            let Expr::MethodCall(mc) = &*l.expr else { continue };
            if mc.method != "next" || !mc.args.is_empty() || mc.turbofish.is_some() { continue; }
            let Expr::Path(rp) = &*mc.receiver else { continue };
            let Some(x) = rp.path.get_ident().map(|i| i.to_string()) else { continue };
            for i in (0..j).rev() {
                let Stmt::Local(loc) = &b.stmts[i] else { continue };
                let Pat::Ident(pi) = &loc.pat else { continue };
                if pi.ident != x.as_str() { continue; }
                if pi.by_ref.is_some() || pi.subpat.is_some() { continue 'search; }
                let Some(init) = &loc.init else { continue 'search };
                if init.diverge.is_some() { continue 'search; }
                // `it` occurs exactly once after its declaration (in the loop condition)
                let mut after = vec![];
                for s in &b.stmts[i + 1..] { idents_of(quote::quote!(#s), &mut after); }
                if after.iter().filter(|n| **n == x).count() != 1 { continue 'search; }
                let e = &init.expr;
                // only expression forms that can stand in the head of a `for` without parentheses
                if !matches!(&**e, Expr::MethodCall(_) | Expr::Call(_) | Expr::Path(_) | Expr::Field(_) | Expr::Paren(_) | Expr::Reference(_)) { continue 'search; }
                let mut e_ids = vec![];
                idents_of(quote::quote!(#e), &mut e_ids);
                if e_ids.iter().any(|n| *n == x) { continue 'search; }
                for s in &b.stmts[i + 1..j] {
                    let Stmt::Local(_) = s else { continue 'search };
                    let mut ids = vec![];
                    idents_of(quote::quote!(#s), &mut ids);
                    if ids.iter().any(|n| n != "let" && n != "mut" && e_ids.contains(n)) { continue 'search; }
                }
                hit = Some((i, j));
                break 'search;
            }
        }
        let Some((i, j)) = hit else { return };
        let Stmt::Local(loc) = b.stmts[i].clone() else { unreachable!() };
        let e = loc.init.unwrap().expr;
        let Stmt::Expr(Expr::While(w), _) = b.stmts[j].clone() else { unreachable!() };
        let Expr::Let(l) = &*w.cond else { unreachable!() };
        let Pat::TupleStruct(ts) = &*l.pat else { unreachable!() };
        let p = &ts.elems[0];
        let body = &w.body;
        b.stmts[j] = parse_quote!(for #p in #e #body);
        b.stmts.remove(i);
    }
}

/// `let x = if C { E } else { LIT };` with `E` a method call (it may mutate its receiver and return a flag) and `LIT` a literal
/// ->  `let mut x = LIT; if C { x = E; }`.  Exact: a literal has no effects, `C` and `E` are evaluated in the same order and under
/// the same condition, and `x` ends up with the same value on both paths.  (The form the limb-level translator understands:
/// a statement-level `if` that assigns.)
fn let_if_literal(b: &mut Block) {
    let mut i = 0;
    while i < b.stmts.len() {
        let mut repl: Option<(Stmt, Stmt)> = None;
        if let Stmt::Local(l) = &b.stmts[i] {
            if let (Pat::Ident(pi), Some(init)) = (&l.pat, &l.init) {
                if pi.by_ref.is_none() && pi.subpat.is_none() && init.diverge.is_none() {
                    if let Expr::If(iff) = &*init.expr {
                        if !matches!(&*iff.cond, Expr::Let(_)) {
                            if let Some((_, el)) = &iff.else_branch {
                                if let Expr::Block(eb) = &**el {
                                    let then_e = match iff.then_branch.stmts.as_slice() { [Stmt::Expr(e, None)] => Some(e), _ => None };
                                    let else_e = match eb.block.stmts.as_slice() { [Stmt::Expr(e, None)] => Some(e), _ => None };
                                    if let (Some(te), Some(ee)) = (then_e, else_e) {
                                        if matches!(te, Expr::MethodCall(_)) && matches!(ee, Expr::Lit(_)) && eb.label.is_none() {
                                            let x = &pi.ident; let c = &iff.cond;
                                            repl = Some((parse_quote!(let mut #x = #ee;), parse_quote!(if #c { #x = #te; })));
                                        }
                                    }
                                }
                            }
                        }
                    }
                }
            }
        }
        if let Some((a, bb)) = repl { b.stmts[i] = a; b.stmts.insert(i + 1, bb); i += 2; } else { i += 1; }
    }
}

fn diverges(e: &Expr) -> bool {
    match e {
        Expr::Return(_) => true,
        Expr::Block(b) => matches!(b.block.stmts.last(), Some(Stmt::Expr(Expr::Return(_), _))),
        _ => false,
    }
}

/// `let PAT = match S { P1 => E1, .., Pk => return R, .. }; REST`  ->  `match S { P1 => { let PAT = E1; REST }, .., Pk => return R, .. }`
/// (the continuation is duplicated into the arms that produce a value; only when some arm diverges and the form is not
/// the `Some(a) => a, None => return` one the translator reads directly).  Applied to the first such `let` of a block;
/// the duplicated `REST` is itself desugared recursively.
/// applied to the function's top-level block and, recursively, to the arm blocks it creates — all of them are in tail
/// position of the function, so a `return` in a sibling arm and the value of the block coincide
fn letmatch_block(b: &mut Block) {
    let pos = b.stmts.iter().position(|st| match st {
        Stmt::Local(l) => match &l.init {
            Some(init) if init.diverge.is_none() => match &*init.expr {
                Expr::Match(mm) => mm.arms.iter().any(|a| diverges(&a.body)) && mm.arms.iter().all(|a| a.guard.is_none())
                    && !(mm.arms.len() == 2 && mm.arms.iter().any(|a| matches!(&a.pat, Pat::TupleStruct(_))) && mm.arms.iter().any(|a| matches!(&*a.body, Expr::Return(r) if r.expr.is_none()))),
                _ => false,
            },
            _ => false,
        },
        _ => false,
    });
    let Some(i) = pos else { return };
    // only when nothing before it can leave the block early in a way the duplication would disturb: plain `let`s / expression statements
    let rest: Vec<Stmt> = b.stmts.split_off(i + 1);
    let Some(Stmt::Local(l)) = b.stmts.pop() else { unreachable!() };
    let pat = l.pat.clone();
    let Some(init) = l.init else { unreachable!() };
    let Expr::Match(mut mm) = *init.expr else { unreachable!() };
    for arm in mm.arms.iter_mut() {
        if diverges(&arm.body) { continue; }
        let body = &arm.body;
        let mut nb: Block = parse_quote!({ let #pat = #body; #(#rest)* });
        letmatch_block(&mut nb);
        arm.body = Box::new(Expr::Block(ExprBlock { attrs: vec![], label: None, block: nb }));
        if arm.comma.is_none() { arm.comma = Some(Default::default()); }
    }
    b.stmts.push(Stmt::Expr(Expr::Match(mm), None));
}

pub fn desugar_fn(m: &mut ImplItemFn) { Desugar.visit_impl_item_fn_mut(m); letmatch_block(&mut m.block); }
