#!/usr/bin/env python3
"""developer tool: write TASK.md for seed sub-agents.  usage: gen_seed_tasks.py <dir> <flavours.json>
   (flavours.json: {"Cxx": "flavour text", ...}); each agent is given only the property text and its own worktree <dir>/Cxx."""
import json, sys
root, flav = sys.argv[1], json.load(open(sys.argv[2]))
for l in open('/verif/properties.jsonl'):
    p = json.loads(l)
    if p['id'] not in flav: continue
    wt = f"{root}/{p['id']}"
    txt = f"""# Task: plant a subtle, realistic defect in the Rust crate SM9_core

You are working ONLY inside the git worktree `{wt}` (a checkout of the crate John-Yu/SM9_core: a pure-Rust SM9
BN-curve pairing library — Montgomery prime fields, tower Fq2/Fq4/Fq12, Jacobian G1/G2, point encodings, R-ate pairing).
Do not read or write anything under /verif or /repo, and do not look at other directories under {root}.
No network. Build with `CARGO_NET_OFFLINE=true cargo build --offline` and test with `CARGO_NET_OFFLINE=true cargo test --offline`
(all of that works in the worktree; the first build takes about half a minute).

## The property your change must break

**{p['title']}**

{p['statement']}

Quantified over: {p['quantifier']['text']}

## What to produce

A change to the crate's source (`src/**`, nothing else — do not edit existing tests, Cargo.toml or Cargo.lock) that

1. still compiles without new warnings-as-errors, and **the whole existing test suite still passes** with it
   (`cargo test --offline`: 56 lib tests + 10 integration tests + 2 doctests), in the dev profile; ideally also `--release`;
2. makes the property above FALSE for some input / call sequence — a genuine violation of the statement as written,
   observable through the crate's public API (`sm9_core::…`);
3. looks like something a real contributor could plausibly write (an optimisation, a refactoring, a "simplification",
   a fast path, a misguided fix) — not a `if input == MAGIC`-style backdoor, and not a change any ordinary use would
   expose at once;
4. is of this flavour: {flav[p['id']]}.

Be inventive: prefer a change in plumbing, glue, a helper, a trait impl, a macro, a constant, or an interaction between
two places over a one-character flip in an arithmetic formula.  Read the relevant source first.

Then write a demonstration: an integration test file `tests/zz_demo.rs` (using only the public API of `sm9_core`, plus
`hex_literal`/`rand` if the crate's dev-dependencies already provide them) whose tests **pass on the unchanged crate
and fail with your change** (in `cargo test --offline --test zz_demo`; if the failure shows only in `--release`, say so).
The demo should check the property on the specific inputs your change needs, phrased as the property (e.g. against an
independent computation or an algebraic law), not as "output equals this hard-coded blob from the old code" where that
can be avoided.

## Deliverables — put them in `{wt}/OUT/`

* `patch.diff` — output of `git diff -- src` in the worktree (must apply with `git apply` to a clean checkout);
* `demo.rs` — a copy of your `tests/zz_demo.rs`;
* `meta.json` — `{{"property": "{p['id']}", "summary": "<what the change does and why it breaks the property>",
  "needs": "<exactly what is required for the violation to manifest>", "demo_profile": "debug|release|both",
  "ran": ["<each command you ran and its outcome>"]}}`.

Before finishing, verify all of it yourself: (a) `git stash` / checkout the clean source, run the demo → passes;
(b) apply the patch, run the full suite → all pass; (c) run the demo → fails.  Leave the worktree with the clean source
restored (`git checkout -- src`) and `tests/zz_demo.rs` removed; only `OUT/` should remain as untracked content.
Your final message: 5 lines at most — what the change is, what it needs to manifest, and the verification outcome.
"""
    open(wt + '/TASK.md', 'w').write(txt)
    print('wrote', wt + '/TASK.md')
