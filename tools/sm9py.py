"""Plain-Python arithmetic used only by the case *generators* (never as an oracle):
integers mod q, Fq2 = Fq[u]/(u^2+2), affine points of E: y^2=x^3+5 and of the twist
E': y^2=x^3+5u, and the text encoding of the line protocol."""
import random

t = 0x600000000058F98A
q = 36*t**4 + 36*t**3 + 24*t**2 + 6*t + 1
r = 36*t**4 + 36*t**3 + 18*t**2 + 6*t + 1
R = 1 << 256
FQ_INV = 0x892BC42C2F2EE42B
FR_INV = 0x1D02662351974B53
FQ_R2 = R * R % q
FR_R2 = R * R % r
TWIST_COFACTOR = 2*q - r       # #E'(Fq2) = r * (2q - r)
assert q == 0xB640000002A3A6F1D603AB4FF58EC74521F2934B1A7AEEDBE56F9B27E351457D
assert r == 0xB640000002A3A6F1D603AB4FF58EC74449F2934B18EA8BEEE56EE19CD69ECF25

P1 = (0x93DE051D62BF718FF5ED0704487D01D6E1E4086909DC3280E8C4E4817C66DDDD,
      0x21FE8DDA4F21E607631065125C395BBC1C1C00CBFA6024350C464CD70A3EA616)
P2 = ((0x3722755292130B08D2AAB97FD34EC120EE265948D19C17ABF9B7213BAF82D65B,
       0x85AEF3D078640C98597B6027B441A01FF1DD2C190F5E93C454806C11D8806141),
      (0xA7CF28D519BE3DA65F3170153D278FF247EFBA98A71A08116215BBA5C999A7C7,
       0x17509B092E845C1266BA0D262CBEE6ED0736A96FA347C8BD856DC76B84EBEB96))


def h32(n):
    return '%064x' % n


def hb(b):
    return b.hex() if len(b) else '-'


# ---------------------------------------------------------------- fields
class K1:
    """Fq"""
    zero = 0
    one = 1
    b = 5
    @staticmethod
    def add(a, b): return (a + b) % q
    @staticmethod
    def sub(a, b): return (a - b) % q
    @staticmethod
    def mul(a, b): return a * b % q
    @staticmethod
    def neg(a): return (-a) % q
    @staticmethod
    def inv(a): return pow(a, -1, q)
    @staticmethod
    def is_zero(a): return a % q == 0
    @staticmethod
    def of(n): return n % q
    @staticmethod
    def rand(rng): return rng.randrange(q)
    @staticmethod
    def enc(a): return h32(a)
    @staticmethod
    def sqrt(a):
        a %= q
        if a == 0:
            return 0
        if pow(a, (q - 1) // 2, q) != 1:
            return None
        # q = 5 mod 8
        x = pow(a, (q + 3) // 8, q)
        if x * x % q != a:
            x = x * pow(2, (q - 1) // 4, q) % q
        assert x * x % q == a
        return min(x, q - x)


class K2:
    """Fq2, elements (re, im)"""
    zero = (0, 0)
    one = (1, 0)
    b = (0, 5)
    @staticmethod
    def add(a, b): return ((a[0] + b[0]) % q, (a[1] + b[1]) % q)
    @staticmethod
    def sub(a, b): return ((a[0] - b[0]) % q, (a[1] - b[1]) % q)
    @staticmethod
    def mul(a, b): return ((a[0]*b[0] - 2*a[1]*b[1]) % q, (a[0]*b[1] + a[1]*b[0]) % q)
    @staticmethod
    def neg(a): return ((-a[0]) % q, (-a[1]) % q)
    @staticmethod
    def inv(a):
        n = pow((a[0]*a[0] + 2*a[1]*a[1]) % q, -1, q)
        return (a[0] * n % q, (-a[1]) * n % q)
    @staticmethod
    def is_zero(a): return a[0] % q == 0 and a[1] % q == 0
    @staticmethod
    def of(n): return (n % q, 0)
    @staticmethod
    def rand(rng): return (rng.randrange(q), rng.randrange(q))
    @staticmethod
    def enc(a): return h32(a[1]) + h32(a[0])
    @staticmethod
    def pow(a, e):
        res = (1, 0)
        while e:
            if e & 1:
                res = K2.mul(res, a)
            a = K2.mul(a, a)
            e >>= 1
        return res
    @staticmethod
    def sqrt(a):
        if K2.is_zero(a):
            return (0, 0)
        if K2.pow(a, (q*q - 1) // 2) != (1, 0):
            return None
        n = K1.sqrt((a[0]*a[0] + 2*a[1]*a[1]) % q)
        inv2 = pow(2, -1, q)
        for w in (n, (-n) % q):
            c0 = K1.sqrt((a[0] + w) * inv2 % q)
            if c0 is None:
                continue
            if c0 == 0:
                c1 = K1.sqrt((-a[0]) * inv2 % q)
                if c1 is not None and K2.mul((0, c1), (0, c1)) == a:
                    return (0, c1)
                continue
            c1 = a[1] * pow(2 * c0, -1, q) % q
            if K2.mul((c0, c1), (c0, c1)) == a:
                return (c0, c1)
        raise AssertionError('sqrt in Fq2 failed')


# ---------------------------------------------------------------- curves (affine; None = infinity)
def pt_add(K, P, Q):
    if P is None:
        return Q
    if Q is None:
        return P
    x1, y1 = P
    x2, y2 = Q
    if K.is_zero(K.sub(x1, x2)):
        if K.is_zero(K.add(y1, y2)):
            return None
        lam = K.mul(K.mul(K.of(3), K.mul(x1, x1)), K.inv(K.add(y1, y1)))
    else:
        lam = K.mul(K.sub(y2, y1), K.inv(K.sub(x2, x1)))
    x3 = K.sub(K.mul(lam, lam), K.add(x1, x2))
    return (x3, K.sub(K.mul(lam, K.sub(x1, x3)), y1))


def pt_neg(K, P):
    return None if P is None else (P[0], K.neg(P[1]))


def pt_mul(K, k, P):
    acc = None
    while k:
        if k & 1:
            acc = pt_add(K, acc, P)
        P = pt_add(K, P, P)
        k >>= 1
    return acc


def on_curve(K, P):
    x, y = P
    return K.mul(y, y) == K.add(K.mul(K.mul(x, x), x), K.b)


def random_curve_point(K, rng):
    while True:
        x = K.rand(rng)
        y = K.sqrt(K.add(K.mul(K.mul(x, x), x), K.b))
        if y is not None:
            if rng.random() < 0.5:
                y = K.neg(y)
            return (x, y)


_cache = {}


def small_order_twist_point(order, rng):
    """a point of E'(Fq2) of exactly the given order (13, 1621 or 13*1621)"""
    key = ('small', order)
    if key not in _cache:
        cof = (r * TWIST_COFACTOR) // order
        assert (r * TWIST_COFACTOR) % order == 0
        det = random.Random(order)
        while True:
            P = pt_mul(K2, cof, random_curve_point(K2, det))
            if P is None:
                continue
            ok = all(pt_mul(K2, order // f, P) is not None for f in (13, 1621) if order % f == 0)
            if ok:
                _cache[key] = P
                break
    P = _cache[key]
    k = rng.randrange(1, order)
    while any(k % f == 0 for f in (13, 1621) if order % f == 0):
        k = rng.randrange(1, order)
    return pt_mul(K2, k, P)


# ---------------------------------------------------------------- Jacobian text
def jac(K, P, lam=None):
    """text `x:y:z` of an affine point in the representation scaled by lam (None -> z = 1)"""
    if P is None:
        return K.enc(K.zero) + ':' + K.enc(K.one) + ':' + K.enc(K.zero)
    if lam is None:
        return K.enc(P[0]) + ':' + K.enc(P[1]) + ':' + K.enc(K.one)
    l2 = K.mul(lam, lam)
    return K.enc(K.mul(P[0], l2)) + ':' + K.enc(K.mul(P[1], K.mul(l2, lam))) + ':' + K.enc(lam)


def jac_raw(K, x, y, z):
    return K.enc(x) + ':' + K.enc(y) + ':' + K.enc(z)


def enc_aff(K, P):
    return K.enc(P[0]) + K.enc(P[1])


# ---------------------------------------------------------------- value classes
def limbs_to_int(l):
    return sum(x << (64 * i) for i, x in enumerate(l))


def boundary_values(p):
    """canonical values whose *Montgomery* representation hits limb boundaries, plus
    boundary canonical values"""
    Rinv = pow(R, -1, p)
    pl = [(p >> (64 * i)) & (2**64 - 1) for i in range(4)]
    limb_choices = [0, 1, 2**63, 2**64 - 1]
    stored = []
    for l0 in limb_choices:
        for l3 in limb_choices:
            stored.append(limbs_to_int([l0, 2**64 - 1, 0, l3]))
            stored.append(limbs_to_int([l0, l0, l3, l3]))
    for i in range(4):
        for d in (-1, 1):
            l = list(pl)
            l[i] = (l[i] + d) % 2**64
            stored.append(limbs_to_int(l))
    stored += [0, 1, p - 1, p - 2, (p - 1) // 2, (p + 1) // 2, R - p, (R - p) - 1, (R - p) + 1, R % p, 2**255, 2**255 - 1]
    stored = [s % p for s in stored]
    canon = [0, 1, 2, p - 1, p - 2, (p - 1) // 2, (p + 1) // 2, R - p, 2**255 % p, 2**128, 2**64 - 1, 2**64, R % p, (R * R) % p]
    vals = set(canon) | {s * Rinv % p for s in stored}
    return sorted(vals)


def field_value(rng, p):
    """(class label, canonical value)"""
    c = rng.random()
    if c < 0.45:
        return 'boundary', rng.choice(BOUNDARY[p])
    if c < 0.55:
        bits = rng.randrange(1, 256)
        return 'sparse', (1 << bits) % p
    if c < 0.65:
        lo = rng.randrange(0, 200)
        hi = rng.randrange(lo + 1, 256)
        return 'run', (((1 << hi) - 1) ^ ((1 << lo) - 1)) % p
    return 'uniform', rng.randrange(p)


BOUNDARY = {q: boundary_values(q), r: boundary_values(r)}


def scalar_value(rng):
    c = rng.random()
    if c < 0.35:
        return 'boundary', rng.choice([0, 1, 2, 3, r - 1, r - 2, (r - 1) // 2, (r + 1) // 2, 2**255 % r, 2**128, 2**64, 2**64 - 1])
    if c < 0.47:
        # scalars whose *stored* (Montgomery) form is special: raw limbs 1, 2^63, limb boundaries, R - r, ...
        # (a shortcut that tests the raw representation instead of the value fires on exactly these)
        return 'mont-boundary', rng.choice(BOUNDARY[r])
    if c < 0.55:
        return 'pow2', 1 << rng.randrange(0, 255)
    if c < 0.65:
        lo = rng.randrange(0, 200)
        hi = rng.randrange(lo + 1, 255)
        return 'run', (((1 << hi) - 1) ^ ((1 << lo) - 1)) % r
    return 'uniform', rng.randrange(r)
