"""Source fingerprints: the tie between the *hand-written* parts of the Lean model and
the exact Rust text they were written from and validated against.

For every `fn` of /repo/src (unit tests excluded) a SHA-256 of its normalised token
stream (comments and whitespace removed) is compared with the committed golden table
`/verif/fingerprints.json`.  A function whose tokens changed, disappeared or appeared
breaks the correspondence for the properties that rest on it (rules below): the check
then searches for a failing input and otherwise reports the violation with
`no-failing-input-found`, naming the function.

    python3 tools/fingerprint.py --update     # re-pin after re-validating the model
"""
import re, os, sys, json, hashlib

FILES = ['arith.rs', 'u256.rs', 'u512.rs', 'fields.rs', 'fields/fp.rs', 'fields/utils.rs', 'fields/fq2.rs',
         'fields/fq4.rs', 'fields/fq12.rs', 'groups.rs', 'pairings.rs', 'lib.rs']

TOKEN = re.compile(r'''
    "(?:\\.|[^"\\])*"            # string
  | '(?:\\.|[^'\\])'             # char
  | [A-Za-z_][A-Za-z0-9_]*!?     # ident / macro
  | 0x[0-9a-fA-F_]+ | [0-9][0-9_]*(?:\.[0-9]+)?[a-z0-9]*
  | '[a-z_]+                     # lifetime
  | ::|->|=>|==|!=|<=|>=|&&|\|\||<<=|>>=|<<|>>|\+=|-=|\*=|/=|%=|\^=|&=|\|=|\.\.=|\.\.
  | [{}()\[\];,.<>:=+\-*/%&|^!?#@$~]
''', re.X)


def strip_comments(s):
    out = []
    i = 0
    n = len(s)
    while i < n:
        c = s[i]
        if c == '"':
            j = i + 1
            while j < n and s[j] != '"':
                j += 2 if s[j] == '\\' else 1
            out.append(s[i:j + 1]); i = j + 1
        elif s.startswith('//', i):
            j = s.find('\n', i)
            i = n if j < 0 else j
        elif s.startswith('/*', i):
            j = s.find('*/', i + 2)
            i = n if j < 0 else j + 2
        else:
            out.append(c); i += 1
    return ''.join(out)


def functions(text, spans=None):
    """[(context, name, token-hash)] for every fn in the text; with `spans` a list, also appends (context, name, first, last)
    token positions of each function (positions in the token list returned as spans[0] = ('<toks>', toks))"""
    text = re.split(r'#\[cfg\(test\)\]\s*mod\s+\w+', text.replace('\r\n', '\n'))[0]   # unit-test modules are not library code
    toks = TOKEN.findall(strip_comments(text))
    if spans is not None:
        spans.append(('<toks>', toks))
    res = []
    # context stack of (label, depth)
    depth = 0
    ctx = []
    i = 0
    pending = None
    n = len(toks)
    while i < n:
        t = toks[i]
        if t in ('impl', 'trait', 'mod') or t == 'macro_rules!':
            # collect header up to the next `{`
            j = i
            hdr = []
            while j < n and toks[j] != '{' and toks[j] != ';':
                hdr.append(toks[j]); j += 1
            if j < n and toks[j] == '{':
                pending = ' '.join(hdr)
                pending = re.sub(r"< '[a-z_]+( , '[a-z_]+)* >", '', pending)
        if t == 'fn' and i + 1 < n:
            name = toks[i + 1]
            j = i
            nest = 0          # `;` inside `[T; N]` of the signature is not the end of a declaration
            while j < n and not (nest == 0 and toks[j] in ('{', ';')):
                if toks[j] in ('(', '['):
                    nest += 1
                elif toks[j] in (')', ']'):
                    nest -= 1
                j += 1
            if j < n and toks[j] == '{':
                d = 0
                k = j
                while k < n:
                    if toks[k] == '{':
                        d += 1
                    elif toks[k] == '}':
                        d -= 1
                        if d == 0:
                            break
                    k += 1
                body = toks[i:k + 1]
                label = ' / '.join(c[0] for c in ctx)
                res.append((label, name, hashlib.sha256(' '.join(body).encode()).hexdigest()[:24]))
                if spans is not None:
                    spans.append((label, name, i, k))
                # do not skip: nested fns/closures are part of the body hash; continue after header
        if t == '{':
            depth += 1
            if pending is not None:
                ctx.append((pending, depth)); pending = None
        elif t == '}':
            if ctx and ctx[-1][1] == depth:
                ctx.pop()
            depth -= 1
        i += 1
    return res


def table(repo):
    tab = {}
    for rel in FILES:
        path = os.path.join(repo, 'src', rel)
        if not os.path.exists(path):
            tab[f'{rel}::<file missing>'] = 'missing'
            continue
        seen = {}
        for ctx, name, h in functions(open(path, newline='').read()):
            key = f'{rel}::{ctx}::{name}'
            seen[key] = seen.get(key, 0) + 1
            if seen[key] > 1:
                key += f'#{seen[key]}'
            tab[key] = h
    return tab


# which properties rest on which hand-modelled functions: (file regex, "ctx::name" regex, properties)
RULES = [
    (r'arith\.rs', r'.*', 'C06 C07 C12 C18'),
    (r'u256\.rs', r'.*', 'C06 C07 C13 C18'),
    (r'u256\.rs', r'.*(bits|BitIterator|next).*', 'C05 C11'),
    (r'u512\.rs', r'.*', 'C07 C13 C18'),
    (r'fields/fp\.rs', r'.*', 'C06 C07 C13'),
    (r'fields/fp\.rs', r'.*::sqrt$', 'C14'),
    (r'fields/fp\.rs', r'.*::(sum_of_products|div2)$', 'C12'),
    (r'fields/utils\.rs', r'.*', 'C06 C12'),
    (r'fields\.rs', r'.*::pow$', 'C06 C11 C14'),
    (r'fields/fq2\.rs', r'.*', 'C12'),
    (r'fields/fq2\.rs', r'.*::sqrt$', 'C14'),
    (r'fields/fq2\.rs', r'.*::from_slice$', 'C08 C18'),
    (r'fields/fq2\.rs', r'.*::to_slice$', 'C10'),
    (r'fields/fq4\.rs', r'.*', 'C17 C11'),
    (r'fields/fq12\.rs', r'.*', 'C17 C11'),
    (r'fields/fq(4|12)\.rs', r'.*::to_slice$', 'C02'),
    (r'groups\.rs', r'.*', 'C04 C16'),
    (r'groups\.rs', r'.*::(mul|one|double)$', 'C05'),
    (r'groups\.rs', r'.*AffineG.*::new$', 'C09 C08'),
    (r'groups\.rs', r'.*::(eq|to_affine|to_jacobian|is_zero|zero)$', 'C15 C10'),
    (r'pairings\.rs', r'.*', 'C01 C02 C03'),
    (r'pairings\.rs', r'.*(pow|final_exp|final_exponentiation|miller_loop|frobenius|g_line|g_tangent|eval_g|point_pi|get_fq12|from|bit).*', 'C17'),
    (r'lib\.rs', r'impl Fr\b.*|impl Fq\b.*|impl FromStr for F[rq].*|impl TryFrom .* for F[rq]\b.*|impl From < & ?F[rq] > .*', 'C06 C07 C13'),
    (r'lib\.rs', r'impl Fq2\b.*|impl TryFrom .* for Fq2.*|impl From < Fq2 >.*', 'C12 C14'),
    (r'lib\.rs', r'::from(#\d+)?', 'C06 C12 C13'),     # `impl From<Fr|&Fr|Fq|Fq2> for [u8; N]` (header contains `;`)
    (r'lib\.rs', r'impl G[12]\b.*::(from_|to_).*', 'C08 C10 C18 C16'),
    (r'lib\.rs', r'impl G[12]\b.*::from_compressed', 'C14'),
    (r'lib\.rs', r'impl G[12]::(?!from_|to_).*|impl Group for G[12].*|impl (Add|Sub|Neg|Mul) .*G[12].*', 'C04 C05 C15 C16'),
    (r'lib\.rs', r'impl Gt\b.*|impl Mul < Gt >.*', 'C11'),
    (r'lib\.rs', r'impl Group for G[12]::normalize', 'C01 C02 C03'),
    # any other trait impl on a public type (a hand-written `PartialEq`, `Clone`, `Default`, `Hash`, ... replacing a derive)
    (r'lib\.rs', r'impl .* for (G[12]|AffineG[12])::.*', 'C04 C05 C10 C15 C16'),
    (r'lib\.rs', r'impl .* for Gt::.*', 'C11'),
    (r'lib\.rs', r'impl .* for Fq2::.*', 'C12 C14'),
    (r'lib\.rs', r'impl .* for F[rq]::.*', 'C06 C07 C13'),
    (r'groups\.rs', r'impl .* for (G|AffineG) < P >::.*', 'C04 C15 C16'),
    (r'lib\.rs', r'impl AffineG[12]\b.*|impl From < AffineG[12] >.*', 'C09 C15'),
    (r'lib\.rs', r'impl From < G2 > for G2Prepared.*|impl G2Prepared.*|::pairing$|::fast_pairing$', 'C01 C02 C03 C16'),
]


# Layers: a property about a higher layer also rests on everything the code of that layer calls (a pairing is only
# right if the tower, the group law and the limb arithmetic below it are).  RULES above names the functions a property
# is *about*; LAYERS/PROP_LAYERS close that under "is computed with".
_U256_CORE = (r'.*::(add|sub|neg|mul|mul_without_cond_subtract|square|invert|div2|mul2|is_zero|is_one|is_even|is_odd|one|zero|'
              r'subtract_modulus_with_carry|add_carry|cmp|partial_cmp|index|index_mut|as_ref|as_mut|from)(#\d+)?')
_FP_CORE = (r'.*::(add_inplace|sub_inplace|mul_inplace|neg_inplace|double|triple|squared|inverse|is_zero|zero|one|is_one|div2|'
            r'sum_of_products|modulus|new|raw|index)')
LAYERS = {
    'FQ': [(r'arith\.rs', r'.*'), (r'u256\.rs', _U256_CORE), (r'fields/fp\.rs', _FP_CORE), (r'fields/utils\.rs', r'.*')],
    'BITS': [(r'u256\.rs', r'.*(bits|BitIterator|next|get_bit).*'), (r'fields/fp\.rs', r'.*From < \$ name > for U256::from')],
    'POW': [(r'fields\.rs', r'.*::pow$')],
    'CODEC': [(r'u256\.rs', r'.*::(from_slice|to_big_endian)'), (r'fields/fp\.rs', r'.*::(from_slice|to_slice|new_mul_factor|from)(#\d+)?')],
    'FQSQRT': [(r'fields/fp\.rs', r'.*::sqrt$')],
    'FQ2': [(r'fields/fq2\.rs', r'(?!.*::(sqrt|from_slice|to_slice|to_u512|random)$).*')],
    'FQ2SQRT': [(r'fields/fq2\.rs', r'.*::sqrt$')],
    'FQ2CODEC': [(r'fields/fq2\.rs', r'.*::(from_slice|to_slice)$')],
    'TOWER': [(r'fields/fq(4|12)\.rs', r'.*')],
    'GROUPS': [(r'groups\.rs', r'.*')],
    'PAIR': [(r'pairings\.rs', r'.*')],
    'LIBGROUP': [(r'lib\.rs', r'impl G[12]::(?!from_|to_).*|impl Group for G[12].*|impl (Add|Sub|Neg|Mul) .*G[12].*|impl .* for (G[12]|AffineG[12])::.*')],
    'LIBPAIR': [(r'lib\.rs', r'impl From < G2 > for G2Prepared.*|impl G2Prepared.*|::pairing$|::fast_pairing$|impl Group for G[12]::normalize')],
    'LIBCODEC': [(r'lib\.rs', r'impl G[12]\b.*::(from_|to_).*|impl AffineG[12]\b.*|impl From < AffineG[12] >.*')],
    # the field wrappers of lib.rs that the point codecs are written with (`Fq::from_slice`, `to_big_endian`, `is_even`, `Fq2::from_slice`,
    # `to_slice`, `is_even`, `real`, `imaginary`, `Fq::sqrt`, `Fq2::sqrt`)
    'LIBFIELD': [(r'lib\.rs', r'impl Fq\b.*|impl Fq2\b.*|impl TryFrom .* for Fq2.*|impl From < Fq2 >.*|impl .* for Fq2::.*|impl .* for Fq::.*')],
    'ALL': [(r'.*', r'.*')],
}
PROP_LAYERS = {
    'C01': 'PAIR LIBPAIR TOWER FQ2 GROUPS LIBGROUP FQ BITS', 'C02': 'PAIR LIBPAIR TOWER FQ2 GROUPS FQ CODEC',
    'C03': 'PAIR LIBPAIR TOWER FQ2 GROUPS FQ', 'C04': 'GROUPS LIBGROUP FQ2 FQ', 'C05': 'GROUPS LIBGROUP FQ2 FQ BITS',
    'C07': 'FQ2 FQ2SQRT FQ2CODEC FQSQRT POW',
    'C08': 'LIBCODEC LIBFIELD GROUPS FQ2 FQ2SQRT FQ2CODEC FQSQRT POW BITS CODEC FQ', 'C09': 'LIBCODEC LIBFIELD GROUPS FQ2 FQ2SQRT FQ2CODEC FQSQRT POW BITS CODEC FQ',
    'C10': 'LIBCODEC LIBFIELD GROUPS FQ2 FQ2SQRT FQ2CODEC FQSQRT POW BITS CODEC FQ', 'C11': 'TOWER FQ2 FQ BITS CODEC',
    'C12': 'FQ2 FQ2CODEC FQ CODEC', 'C14': 'FQSQRT FQ2SQRT FQ2 FQ POW BITS LIBFIELD', 'C15': 'GROUPS LIBGROUP FQ2 FQ',
    'C16': 'PAIR LIBPAIR TOWER FQ2 FQ2SQRT FQ2CODEC GROUPS LIBGROUP LIBCODEC LIBFIELD FQ FQSQRT POW BITS CODEC',
    'C17': 'TOWER PAIR FQ2 FQ', 'C18': 'ALL',
}


def _in_layer(layer, rel, rest):
    return any(re.fullmatch(fre, rel) and re.fullmatch(cre, rest) for fre, cre in LAYERS[layer])


def props_of(key, layered=True):
    rel, _, rest = key.partition('::')
    ps = set()
    if re.search(r'impl .*fmt :: (Debug|Display) for ', rest):
        return ps            # formatting for humans: no property is about it
    if rest.startswith('mod verif_hooks'):
        return ps            # my own cfg-guarded accessors: compiled out of the crate the properties are about
    for fre, cre, pr in RULES:
        if re.fullmatch(fre, rel) and re.fullmatch(cre, rest):
            ps |= set(pr.split())
    if layered:
        for p, ls in PROP_LAYERS.items():
            if p not in ps and any(_in_layer(l, rel, rest) for l in ls.split()):
                ps.add(p)
    return ps


def all_tokens(repo):
    toks = []
    for rel in FILES:
        path = os.path.join(repo, 'src', rel)
        if os.path.exists(path):
            text = re.split(r'#\[cfg\(test\)\]\s*mod\s+\w+', open(path, newline='').read().replace('\r\n', '\n'))[0]
            toks += TOKEN.findall(strip_comments(text))
    return toks


def unreferenced_addition(key, toks):
    """a function that is new, is an inherent method or free function (no trait dispatch can reach it
    implicitly) and whose name occurs nowhere else in the library: it cannot influence existing behaviour"""
    rel, _, rest = key.partition('::')
    ctx, _, fn = rest.rpartition('::')
    fn = re.sub(r'#\d+$', '', fn)
    if ' for ' in ctx or ctx.startswith('trait') or 'macro_rules!' in ctx:
        return False
    return toks.count(fn) <= 1


def uncovered_occurrences(repo, differing):
    """for every identifier: the number of its occurrences in the library that lie OUTSIDE the bodies of the functions
    whose fingerprint differs from the pinned table (changed or added)"""
    from collections import Counter
    cnt = Counter()
    for rel in FILES:
        path = os.path.join(repo, 'src', rel)
        if not os.path.exists(path):
            continue
        sp = []
        functions(open(path, newline='').read(), sp)
        toks = sp[0][1]
        covered = bytearray(len(toks))
        seen = {}
        for ctx, name, a, b in sp[1:]:
            key = f'{rel}::{ctx}::{name}'
            seen[key] = seen.get(key, 0) + 1
            if seen[key] > 1:
                key += f'#{seen[key]}'
            if key in differing:
                for i in range(a, b + 1):
                    covered[i] = 1
        for i, t in enumerate(toks):
            if not covered[i]:
                cnt[t] += 1
    return cnt


def referenced_only_from_differing(key, uncovered):
    """a NEW inherent method or free function all of whose uses lie inside functions that are themselves new or changed:
    it can influence existing behaviour only through those callers, and each of them is reported (or re-proved) on its own
    account for the properties it belongs to.  Not for trait impls / trait items / macro bodies (reached without their name
    being written), and not when the name also occurs in an unchanged function (an inherent method can shadow a trait
    method of the same name in unchanged callers)."""
    rel, _, rest = key.partition('::')
    ctx, _, fn = rest.rpartition('::')
    fn = re.sub(r'#\d+$', '', fn)
    if ' for ' in ctx or ctx.startswith('trait') or 'macro_rules!' in ctx:
        return False
    return uncovered.get(fn, 0) == 0


def check(repo, golden_path, prop):
    if not os.path.exists(golden_path):
        return {'checked': 0, 'changed': ['<no golden fingerprint table>']}
    golden = json.load(open(golden_path))
    now = table(repo)
    changed = []
    ignored = []
    checked = 0
    toks = None
    differing = {k for k in set(golden) | set(now) if golden.get(k) != now.get(k)}
    uncovered = None
    for key in sorted(set(golden) | set(now)):
        if prop not in props_of(key):
            continue
        checked += 1
        if golden.get(key) != now.get(key):
            what = 'changed' if key in golden and key in now else ('removed' if key in golden else 'added')
            if what == 'added':
                toks = toks if toks is not None else all_tokens(repo)
                if unreferenced_addition(key, toks):
                    ignored.append(f'{key} (added, referenced nowhere)')
                    continue
                uncovered = uncovered if uncovered is not None else uncovered_occurrences(repo, differing)
                if referenced_only_from_differing(key, uncovered):
                    ignored.append(f'{key} (added, referenced only from new or changed functions, which answer for themselves)')
                    continue
            changed.append(f'{key} ({what})')
    return {'checked': checked, 'changed': changed, 'ignored_additions': ignored}


if __name__ == '__main__':
    here = os.path.dirname(os.path.dirname(os.path.abspath(__file__)))
    repo = os.environ.get('VERIF_REPO', '/repo')
    if '--update' in sys.argv:
        json.dump(table(repo), open(os.path.join(here, 'fingerprints.json'), 'w'), indent=0, sort_keys=True)
        print('pinned', len(table(repo)), 'functions')
    else:
        for p in ['C%02d' % i for i in range(1, 19)]:
            r = check(repo, os.path.join(here, 'fingerprints.json'), p)
            print(p, r['checked'], r['changed'][:3])
