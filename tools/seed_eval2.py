#!/usr/bin/env python3
"""Evaluate a seeded change in a private clone (developer tool): apply seeded/<id>/patch.diff to the clone's repo copy,
run the clone's checks, undo, and record the result in /verif/seeded/<id>/meta.json.
usage: seed_eval2.py <seed-id> <prop> [<prop>...]   (env EVAL_VERIF=/tmp/vf2 EVAL_REPO=/tmp/repo2)"""
import sys, subprocess, os, json
sid = sys.argv[1]; props = sys.argv[2:]
EV = os.environ.get('EVAL_VERIF', '/tmp/vf2'); ER = os.environ.get('EVAL_REPO', '/tmp/repo2')
sd = os.path.join('/verif/seeded', sid)
def run(cmd, cwd=EV):
    p = subprocess.run(cmd, cwd=cwd, shell=True, stdout=subprocess.PIPE, stderr=subprocess.STDOUT, text=True,
                       env=dict(os.environ, VERIF_REPO=ER))
    return p.returncode, p.stdout
run(f'git -C {ER} checkout -- .')
rc, o = run(f'git -C {ER} apply {sd}/patch.diff')
if rc != 0:
    print('patch does not apply', o); sys.exit(2)
results = {}
try:
    for p in props:
        rc, o = run(f'./check {p} --tier quick')
        lines = [l for l in o.splitlines() if l.startswith('VIOLATION') or l.startswith(p + ':')]
        results[p] = {'exit': rc, 'lines': [l[:400] for l in lines[-3:]]}
        print(sid, p, rc, *[l[:300] for l in lines[-3:]], sep='\n   ', flush=True)
finally:
    run(f'git -C {ER} checkout -- .')
mp = os.path.join(sd, 'meta.json')
m = json.load(open(mp))
m.setdefault('checks_run', {}).update(results)
m['caught_by'] = sorted(p for p, r in m['checks_run'].items() if r['exit'] == 1)
json.dump(m, open(mp, 'w'), indent=1)
