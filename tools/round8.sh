#!/bin/sh
# usage: round8.sh Hxx Cxx prop...   confirm the sub-agent's change in /tmp/w8/Hxx, store it as seeded/Cxx-h, evaluate, remove the worktree
w=$1; pid=$2; shift; shift
python3 /verif/tools/confirm7.py /tmp/w8/$w $pid-h > /tmp/w8/$w.confirm.json 2>&1 || { echo "$w NOT CONFIRMED"; tail -20 /tmp/w8/$w.confirm.json; exit 1; }
python3 /verif/tools/seed_eval2.py $pid-h "$@"
git -C /repo worktree remove --force /tmp/w8/$w
