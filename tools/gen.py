"""Case generators for the correspondence / oracle runs, one per property.

Each generator returns a list of (class_label, op_line).  All randomness comes from the
`random.Random` passed in (seeded from VERIF_SEED), so a run replays exactly."""
from sm9py import *

FORMS = ['vv', 'rv', 'vr', 'rr', 'av', 'ar']


# ------------------------------------------------------------------ field operands
def pair_values(rng, p):
    """(label, a, b) pairs in the relations C06 names"""
    Rinv = pow(R, -1, p)
    c = rng.random()
    la, a = field_value(rng, p)
    if c < 0.12:
        return 'a+b=p', a, (p - a) % p
    if c < 0.22:
        # stored (Montgomery) representatives summing to exactly 2^256 or p
        sa = rng.choice([R - p + rng.randrange(0, 4), p - 1 - rng.randrange(0, 4), rng.randrange(R - p, p)])
        sb = (R - sa) if (R - sa) < p and rng.random() < 0.5 else (p - sa) % p
        return 'stored-sum-boundary', sa * Rinv % p, sb * Rinv % p
    if c < 0.30:
        return 'a=b', a, a
    if c < 0.36:
        return 'b=0', a, 0
    if c < 0.42:
        return 'a=0', 0, a
    lb, b = field_value(rng, p)
    return la + '/' + lb, a, b


def stored_value(rng, p):
    """(label, stored limbs value < p) for the raw-level ops"""
    c = rng.random()
    if c < 0.5:
        pl = [(p >> (64 * i)) & (2**64 - 1) for i in range(4)]
        ch = [0, 1, 2**63, 2**64 - 1]
        l = [rng.choice(ch + [pl[i], (pl[i] + 1) % 2**64, (pl[i] - 1) % 2**64]) for i in range(4)]
        v = limbs_to_int(l)
        if v >= p:
            v = limbs_to_int(l[:3] + [rng.choice([0, 1, pl[3] - 1, pl[3] >> 1])])
        if v >= p:
            v %= p
        return 'limb-boundary', v
    if c < 0.65:
        return 'near-p', p - 1 - rng.randrange(0, 3)
    if c < 0.75:
        return 'near-2^256-p', (R - p + rng.randrange(-2, 3)) % p
    return 'uniform', rng.randrange(p)


def gen_C06(rng, n):
    out = []
    for _ in range(n):
        for name, p in (('fr', r), ('fq', q)):
            lab, a, b = pair_values(rng, p)
            op = rng.choice(['add', 'sub', 'mul'])
            form = rng.choice(FORMS)
            out.append((f'{name}.{op}:{lab}', f'{name}.{op}@{form} {h32(a)} {h32(b)}'))
        name, p = rng.choice([('fr', r), ('fq', q)])
        la, a = field_value(rng, p)
        k = rng.random()
        if k < 0.2:
            out.append((f'{name}.neg:{la}', f'{name}.neg@{rng.choice(["v", "r"])} {h32(a)}'))
        elif k < 0.45:
            out.append((f'{name}.inv:{la}', f'{name}.inv {h32(a)}'))
        elif k < 0.6:
            le, e = field_value(rng, p)
            out.append((f'{name}.pow:{la}^{le}', f'{name}.pow {h32(a)} {h32(e)}'))
        elif k < 0.7:
            out.append((f'{name}.is_zero:{la}', f'{name}.is_zero {h32(a)}'))
        elif k < 0.8:
            out.append((f'fq.is_even:{la}', f'fq.is_even {h32(a % q)}'))
        else:
            out.append((f'{name}.to_slice:{la}', f'{name}.to_slice@{rng.choice(["", "into"])} {h32(a)}'))
        # raw (Montgomery) level through the hooks
        raw, p, inv, r2 = rng.choice([('fqraw', q, FQ_INV, FQ_R2), ('frraw', r, FR_INV, FR_R2)])
        la, a = stored_value(rng, p)
        lb, b = stored_value(rng, p)
        if rng.random() < 0.25:
            b = (R - a) % p if rng.random() < 0.5 else (p - a) % p
            lb = 'complement'
        op = rng.choice(['add', 'sub', 'mul', 'neg', 'squared', 'into'] + (['double', 'triple', 'div2', 'inverse'] if raw == 'fqraw' else []))
        if op in ('add', 'sub', 'mul'):
            out.append((f'{raw}.{op}:{la}/{lb}', f'{raw}.{op} {h32(a)} {h32(b)}'))
        else:
            out.append((f'{raw}.{op}:{la}', f'{raw}.{op} {h32(a)}'))
        op = rng.choice(['add', 'sub', 'mul2', 'div2', 'neg', 'mul', 'square', 'invert'])
        if op in ('add', 'sub'):
            out.append((f'u256.{op}:{la}/{lb}', f'u256.{op} {h32(a)} {h32(b)} {h32(p)}'))
        elif op in ('mul2', 'div2', 'neg'):
            out.append((f'u256.{op}:{la}', f'u256.{op} {h32(a)} {h32(p)}'))
        elif op == 'mul':
            out.append((f'u256.mul:{la}/{lb}', f'u256.mul {h32(a)} {h32(b)} {h32(p)} {inv:x}'))
        elif op == 'square':
            out.append((f'u256.square:{la}', f'u256.square {h32(a)} {h32(p)} {inv:x}'))
        elif a != 0:
            out.append((f'u256.invert:{la}', f'u256.invert {h32(a)} {h32(p)} {h32(r2)}'))
    return out


def sop_operands(rng, T):
    """operands steered towards 0, 1 or 2 carry folds of the interleaved reduction"""
    c = rng.random()
    if c < 0.15:
        # a non-zero sum of products that is 0 mod q: the reduction must return 0, not q
        a = [rng.randrange(1, q) for _ in range(T)]
        b = [rng.randrange(1, q) for _ in range(T)]
        s = sum(x * y for x, y in zip(a[:-1], b[:-1])) % q
        b[-1] = (-s) * pow(a[-1], -1, q) % q
        return 'sum=0-mod-q', a, b
    if c < 0.4:
        # all operands within 1% of q (the accumulator can then exceed 2^256 + q before the last fold, depending on the
        # Montgomery quotient): offsets of every magnitude, so that the quotient varies from case to case
        k = rng.choice([2, 8, 16, 64, 128, 200, 240, 248])
        a = [q - 1 - rng.randrange(0, 1 << k) for _ in range(T)]
        b = [q - 1 - rng.randrange(0, 1 << k) for _ in range(T)]
        return 'all-near-p', a, b
    if c < 0.6:
        a = [stored_value(rng, q)[1] for _ in range(T)]
        b = [stored_value(rng, q)[1] for _ in range(T)]
        return 'boundary', a, b
    if c < 0.7:
        a = [0] * T
        b = [stored_value(rng, q)[1] for _ in range(T)]
        return 'zero-row', a, b
    a = [rng.randrange(q) for _ in range(T)]
    b = [rng.randrange(q) for _ in range(T)]
    return 'uniform', a, b


def fq2_value(rng):
    c = rng.random()
    la, a = field_value(rng, q)
    lb, b = field_value(rng, q)
    if c < 0.12:
        return 'im=0', (a, 0)
    if c < 0.24:
        return 're=0', (0, b)
    if c < 0.3:
        return 'zero', (0, 0)
    return f'{la}+{lb}u', (a, b)


def gen_C12(rng, n):
    out = []
    for _ in range(n):
        lx, x = fq2_value(rng)
        ly, y = fq2_value(rng)
        op = rng.choice(['add', 'sub', 'mul', 'mul'])
        c = rng.random()
        if c < 0.08:
            y, ly, op = (x[0], (-x[1]) % q), 'conjugate', 'mul'
        elif c < 0.16 and not K2.is_zero(x):
            y, ly, op = K2.inv(x), 'inverse', 'mul'
        elif c < 0.22:
            y, ly, op = ((2 * x[1]) % q, x[0]), '(2b+au)', 'mul'
        elif c < 0.28:
            y, ly, op = K2.neg(x), 'negation', 'add'
        out.append((f'fq2.{op}:{lx}*{ly}', f'fq2.{op}@{rng.choice(FORMS)} {K2.enc(x)} {K2.enc(y)}'))
        k = rng.random()
        if k < 0.25:
            out.append((f'fq2.neg:{lx}', f'fq2.neg@{rng.choice(["v", "r"])} {K2.enc(x)}'))
        elif k < 0.5:
            out.append((f'fq2.parts:{lx}', f'fq2.parts {K2.enc(x)}'))
        elif k < 0.65:
            out.append((f'fq2.new:{lx}', f'fq2.new@{rng.choice(["", "into"])} {h32(x[0])} {h32(x[1])}'))
        elif k < 0.8:
            out.append((f'fq2.square-vs-mul:{lx}', f'fq2.mul@vv {K2.enc(x)} {K2.enc(x)}'))
        else:
            bs = bytes.fromhex(K2.enc(x))
            out.append((f'fq2.from_slice:{lx}', f'fq2.from_slice@{rng.choice(["", "try"])} {hb(bs)}'))
        T = rng.choice([2, 4])
        lab, a, b = sop_operands(rng, T)
        out.append((f'sop{T}:{lab}', f'fqraw.sop{T} ' + ' '.join(h32(v) for v in a + b)))
    return out


# ------------------------------------------------------------------ conversions (C13)
def byte_string(rng, n, p):
    c = rng.random()
    if c < 0.15:
        return 'zeros', bytes(n)
    if c < 0.3:
        return 'ff', b'\xff' * n
    if c < 0.6 and n > 0:
        base = rng.choice([p - 1, p, p + 1, R - 1, R, p * (R // p), (r - 1) * ((1 << 512) // (r - 1)), (1 << 512) - 1,
                           p * ((1 << 512) // p), p * ((1 << 512) // p) - 1, r - 1, r - 2,
                           # upper half equal to the modulus (or to r-1, the modulus of from_hash)
                           (p << 256) + rng.getrandbits(256), p << 256, ((r - 1) << 256) + rng.getrandbits(250), ((p - 1) << 256) + rng.getrandbits(256)])
        v = base % (1 << (8 * n))
        return 'boundary', v.to_bytes(n, 'big')
    if c < 0.68 and n >= 32:
        # ties with the modulus on its most significant limb(s): only the lower limbs decide `< p`
        k = rng.choice([192, 192, 128, 64])
        v = ((p >> k) << k) | rng.getrandbits(k)
        return 'toplimb-tie', v.to_bytes(32, 'big').rjust(n, b'\x00')
    if c < 0.82 and n >= 9:
        # sparse 64-bit limbs (zero / all-ones / one / random per limb): zero interior limbs under a non-zero higher limb,
        # carries that run through several limbs
        nl = (n + 7) // 8
        v = 0
        for i in range(nl):
            v |= rng.choice([0, 0, (1 << 64) - 1, 1, rng.getrandbits(64), rng.getrandbits(64)]) << (64 * i)
        if v >> (64 * (nl - 1)) == 0:
            v |= rng.choice([1, (1 << 64) - 1, rng.getrandbits(64) | 1]) << (64 * (nl - 1))
        return 'sparse-limbs', (v % (1 << (8 * n))).to_bytes(n, 'big')
    return 'uniform', bytes(rng.randrange(256) for _ in range(n))


def text_string(rng):
    c = rng.random()
    digits = ''.join(rng.choice('0123456789') for _ in range(rng.randrange(0, 160)))
    if c < 0.35:
        return 'digits', digits
    if c < 0.45:
        return 'empty', ''
    if c < 0.55:
        return 'leading-zeros', '0' * rng.randrange(1, 80) + digits[:40]
    if c < 0.65:
        return 'decimal-p', str(rng.choice([q, r, q - 1, r - 1, q + 1, r + 1, R, R * R]))
    bad = rng.choice(['-', '+', ' ', 'a', 'x', '.', '１', '١', '²', '\n', 'e', '_'])
    pos = rng.randrange(0, len(digits) + 1)
    return 'malformed:' + repr(bad), digits[:pos] + bad + digits[pos:]


def gen_C13(rng, n):
    out = []
    # every length 0..=70 for every byte decoder, every round
    for ln in range(0, 71):
        for name, p in (('fr', r), ('fq', q)):
            lab, bs = byte_string(rng, ln, p)
            out.append((f'{name}.from_slice:len{ln}:{lab}', f'{name}.from_slice@{rng.choice(["", "try"])} {hb(bs)}'))
        lab, bs = byte_string(rng, ln, r)
        out.append((f'fr.from_hash:len{ln}:{lab}', f'fr.from_hash {hb(bs)}'))
        la, a = field_value(rng, q)
        out.append((f'fq.to_big_endian:buf{ln}', f'fq.to_big_endian {h32(a)} {ln}'))
    for _ in range(n):
        name, p = rng.choice([('fr', r), ('fq', q)])
        lab, bs = byte_string(rng, 64, p)
        out.append((f'{name}.interpret:{lab}', f'{name}.interpret {hb(bs)}'))
        lab, s = text_string(rng)
        out.append((f'{name}.from_str:{lab}', f'{name}.from_str {hb(s.encode())}'))
        la, a = field_value(rng, r)
        i = rng.choice([rng.randrange(0, 301), 255, 254, 256, 0, 63, 64, 300])
        out.append((f'fr.set_bit:{la}:bit{"<256" if i < 256 else ">=256"}', f'fr.set_bit {h32(a)} {i} {rng.choice([0, 1])}'))
        out.append((f'fr.to_slice:{la}', f'fr.to_slice@{rng.choice(["", "into", "intoref"])} {h32(a)}'))
        # hash boundaries: h = 0, r-2, r-1 (→ 1), multiples of r-1
        hv = rng.choice([0, 1, r - 2, r - 1, r, 2 * (r - 1), (r - 1) * ((1 << 320) // (r - 1)), (1 << 320) - 1])
        ln = rng.choice([32, 40, 64])
        out.append(('fr.from_hash:boundary', f'fr.from_hash {hb((hv % (1 << (8*ln))).to_bytes(ln, "big"))}'))
        # 512-bit division
        m = rng.choice([q, r, r - 1])
        nv = rng.choice([m * m - 1, m * (m - 1), m * R - 1, (1 << 512) - 1, m, m - 1, 0, rng.randrange(1 << 512), m * rng.randrange(m),
                         # the upper 256 bits equal to / adjacent to the modulus (a quotient digit decided by a tie on the high half)
                         (m << 256) + rng.getrandbits(256), m << 256, ((m - 1) << 256) + rng.getrandbits(256), ((m + 1) << 256) + rng.getrandbits(255)])
        out.append((f'u512.divrem', f'u512.divrem {nv % (1 << 512):0128x} {h32(m)}'))
        # scripted RNG, including constant streams
        c = rng.random()
        if c < 0.3:
            w = [rng.choice([0, 2**64 - 1, 1])] * 8
            lab = 'constant-stream'
        elif c < 0.6:
            v = rng.choice([r, r - 1, 2 * r, r * ((1 << 512) // r), (r << 256) + rng.getrandbits(256), r << 256,
                            ((r - 1) << 256) + rng.getrandbits(256)])
            w = [(v >> (64 * i)) & (2**64 - 1) for i in range(8)]
            lab = 'multiple-of-r'
        else:
            w = [rng.randrange(2**64) for _ in range(8)]
            lab = 'uniform'
        out.append((f'fr.random:{lab}', 'fr.random ' + ' '.join(f'{x:x}' for x in w)))
    return out


def gen_C07(rng, n):
    # every constructor (C13's stream) plus operation sequences
    out = gen_C13(rng, max(1, n // 4))
    for _ in range(n):
        out.append(gen_prog_field(rng))
        # Fq2 values: products whose components vanish from non-zero terms must still be canonical
        lx, x = fq2_value(rng)
        c = rng.random()
        if c < 0.3:
            y, ly = (x[0], (-x[1]) % q), 'conjugate'
        elif c < 0.55 and not K2.is_zero(x):
            y, ly = K2.inv(x), 'inverse'
        elif c < 0.75:
            y, ly = ((2 * x[1]) % q, x[0]), '(2b+au)'
        else:
            ly, y = fq2_value(rng)
        out.append((f'fq2.law:{lx}*{ly}', f'fq2.law {K2.enc(x)} {K2.enc(y)}'))
    return out


def gen_prog_field(rng):
    """a random program over registers of one field type"""
    kind, p = rng.choice([('fr', r), ('fq', q)])
    steps = []
    nreg = 0
    for _ in range(rng.randrange(3, 14)):
        c = rng.random()
        if nreg < 2 or c < 0.25:
            la, a = field_value(rng, p)
            k = rng.random()
            if k < 0.5:
                steps.append(f'const:{h32(a)}')
            elif k < 0.7:
                ln = rng.randrange(1, 65)
                steps.append(f'slice:{hb(byte_string(rng, ln, p)[1])}')
            elif k < 0.85:
                steps.append(f'str:{hb(str(a * rng.choice([1, p, p + 1])).encode())}')
            elif kind == 'fr':
                if rng.random() < 0.5:
                    steps.append(f'hash:{hb(byte_string(rng, rng.randrange(0, 65), r)[1])}')
                else:
                    w = [rng.choice([0, 2**64 - 1, rng.randrange(2**64)]) for _ in range(8)]
                    steps.append('random:' + ','.join(f'{x:x}' for x in w))
            else:
                steps.append(f'const:{h32(a)}')
            nreg += 1
        else:
            i = rng.randrange(nreg)
            j = rng.randrange(nreg)
            op = rng.choice(['add', 'sub', 'mul', 'neg', 'inv', 'pow', 'dup'] + (['setbit'] * 2 if kind == 'fr' else ['sqrt']))
            if op in ('add', 'sub', 'mul', 'pow'):
                steps.append(f'{op}:{i},{j}')
            elif op == 'setbit':
                steps.append(f'setbit:{i},{rng.choice([255, 254, 253, 0, rng.randrange(0, 300)])},{rng.choice([0, 1])}')
            else:
                steps.append(f'{op}:{i}')
            nreg += 1
    return (f'prog.{kind}', f'prog.{kind} ' + ' '.join(steps))


# ------------------------------------------------------------------ square roots (C14)
def gen_C14(rng, n):
    out = []
    for _ in range(n):
        la, a = field_value(rng, q)
        c = rng.random()
        if c < 0.5:
            out.append((f'fq.sqrt:square-of-{la}', f'fq.sqrt {h32(a * a % q)}'))
        elif c < 0.8:
            out.append((f'fq.sqrt:{la}', f'fq.sqrt {h32(a)}'))
        else:
            out.append(('fq.sqrt:small', f'fq.sqrt {h32(rng.choice([0, 1, q - 1, q - 2, 2, 4, q - 4]))}'))
        lx, x = fq2_value(rng)
        c = rng.random()
        if c < 0.35:
            out.append((f'fq2.sqrt:square-of:{lx}', f'fq2.sqrt {K2.enc(K2.mul(x, x))}'))
        elif c < 0.6:
            # imaginary part zero: residues and non-residues of Fq on both sides of q/2
            v = rng.choice([a, q - a, a * a % q, q - a * a % q, 2, q - 4, 4, q - 2, q - 1, 1])
            out.append((f'fq2.sqrt:im=0:{"hi" if v > q // 2 else "lo"}:{"QR" if pow(v, (q-1)//2, q) == 1 else "NR"}', f'fq2.sqrt {K2.enc((v % q, 0))}'))
        elif c < 0.75:
            out.append(('fq2.sqrt:re=0', f'fq2.sqrt {K2.enc((0, a))}'))
        else:
            out.append((f'fq2.sqrt:{lx}', f'fq2.sqrt {K2.enc(x)}'))
        # consequence: decompression succeeds for every x carrying a point
        if rng.random() < 0.5:
            P = pt_mul(K1, scalar_value(rng)[1] or 1, P1)
            pre = 2 + (P[1] & 1)
            out.append(('g1.from_compressed:valid', f'g1.from_compressed {pre:02x}{h32(P[0])}'))
            Pt = random_curve_point(K1, rng)
            out.append(('g1.from_compressed:random-x-on-curve', f'g1.from_compressed {2 + (Pt[1] & 1):02x}{h32(Pt[0])}'))
        else:
            Q = pt_mul(K2, rng.randrange(1, r), P2)
            pre = 2 + (Q[1][0] & 1)
            out.append(('g2.from_compressed:valid', f'g2.from_compressed {pre:02x}{K2.enc(Q[0])}'))
    return out


# ------------------------------------------------------------------ points
def _cube_root_of_unity():
    g = 2
    while True:
        b = pow(g, (q - 1) // 3, q)
        if b != 1:
            return b
        g += 1


BETA = _cube_root_of_unity()
REP_CLASSES = {'z=1': 0.1, 'z=-1': 0.4, 'z=small': 0.5, 'z=1+bu': 0.6, 'z=mont1': 0.65, 'z=lambda': 0.9}


def rep(rng, K, P, force=None):
    """a representative of affine P: (label, text)"""
    c = rng.random() if force is None else REP_CLASSES[force]
    if P is None:
        if c < 0.3:
            return 'O:canonical', jac(K, None)
        if c < 0.4:
            # identities with a vanishing coordinate: (0,0,0) is what an in-place rescaling by 1/z := 0 leaves behind;
            # cross-multiplied comparisons are trivially true against it
            k = rng.randrange(3)
            x, y = (K.zero, K.zero) if k == 0 else ((K.rand(rng), K.zero) if k == 1 else (K.zero, K.rand(rng)))
            return 'O:(0,0,0)|(x,0,0)|(0,y,0)', jac_raw(K, x, y, K.zero)
        if c < 0.7:
            # what P - P leaves behind: (rho^2, -rho^3, 0)
            rho = K.rand(rng)
            return 'O:(rho^2,-rho^3,0)', jac_raw(K, K.mul(rho, rho), K.neg(K.mul(rho, K.mul(rho, rho))), K.zero)
        if c < 0.85:
            return 'O:(x,y,0)', jac_raw(K, K.rand(rng), K.rand(rng), K.zero)
        # an identity whose raw x, y are the coordinates of a genuine point (e.g. a point with its z overwritten by 0)
        Pt = pt_mul(K, rng.randrange(1, r), P1 if K is K1 else P2)
        return 'O:(px,py,0)', jac_raw(K, Pt[0], Pt[1], K.zero)
    if c < 0.35:
        return 'z=1', jac(K, P)
    if c < 0.45:
        return 'z=-1', jac(K, P, K.neg(K.one))
    if c < 0.53:
        return 'z=small', jac(K, P, K.of(rng.choice([2, 3, 4])))
    if c < 0.63 and K is K2:
        # "almost one": real part 1 (or 0), imaginary part non-zero — looks normalised to a careless test
        return 'z=1+bu', jac(K, P, (rng.choice([1, 1, 0]), rng.choice([1, q - 1, rng.randrange(1, q)])))
    if c < 0.70:
        # z whose *stored Montgomery form* is 1 or 2 (the value 2^-256 resp. 2^-255 mod q): what a test on the raw limbs
        # instead of the value mistakes for "normalised"
        v = pow(2, -256, q) * rng.choice([1, 1, 2]) % q
        return 'z=mont1', jac(K, P, v if K is K1 else (v, 0))
    return 'z=lambda', jac(K, P, nonzero(rng, K))


def nonzero(rng, K):
    while True:
        v = K.rand(rng)
        if not K.is_zero(v):
            return v


def group_point(rng, K, G):
    c = rng.random()
    if c < 0.1:
        return 'O', None
    if c < 0.3:
        k = rng.choice([1, 2, 3, r - 1, r - 2])
        return f'{k if k < 10 else "r-" + str(r - k)}G', pt_mul(K, k, G)
    return 'kG', pt_mul(K, rng.randrange(1, r), G)


def point_pair(rng, K, G):
    la, A = group_point(rng, K, G)
    c = rng.random()
    if c < 0.2:
        return 'equal', A, A
    if c < 0.4:
        return 'opposite', A, pt_neg(K, A)
    if c < 0.5:
        return 'doubled', A, pt_add(K, A, A)
    if c < 0.56 and A is not None:
        # same y, different x: the image of A under (x, y) -> (beta*x, y), beta a primitive cube root of unity
        # of Fq — the case in which only ONE of the two "equal points" tests of a chord addition fires
        beta = BETA if rng.random() < 0.5 else BETA * BETA % q
        return 'same-y', A, (K.mul(K.of(beta), A[0]), A[1])
    if c < 0.6:
        return 'identity-right', A, None
    if c < 0.7:
        return 'identity-left', None, A
    lb, Bp = group_point(rng, K, G)
    return 'independent', A, Bp


def gen_group_ops(rng, n, which):
    out = []
    # identities with vanishing coordinates against a genuine point, both operand orders (fixed cases: a cross-multiplied
    # comparison without the identity early-outs is trivially true against (0,0,0))
    for g, K, G in (('g1', K1, P1), ('g2', K2, P2)):
        A = pt_mul(K, rng.randrange(1, r), G)
        ta = rep(rng, K, A)[1]
        for lab, x, y in (('(0,0,0)', K.zero, K.zero), ('(x,0,0)', K.rand(rng), K.zero), ('(0,y,0)', K.zero, K.rand(rng))):
            o = jac_raw(K, x, y, K.zero)
            if which in ('C15', 'C04', 'C16'):
                out.append((f'{g}.eq:point/O:{lab}', f'{g}.eq {ta} {o}'))
                out.append((f'{g}.eq:O:{lab}/point', f'{g}.eq {o} {ta}'))
            if which == 'C15':
                out.append((f'{g}.normalize:O:{lab}', f'{g}.normalize {o}'))
            if which == 'C04':
                out.append((f'{g}.add:point+O:{lab}', f'{g}.add {ta} {o}'))
                out.append((f'{g}.sub:O:{lab}-point', f'{g}.sub {o} {ta}'))
    for _ in range(n):
        g, K, G = rng.choice([('g1', K1, P1), ('g2', K2, P2)])
        rel, A, Bp = point_pair(rng, K, G)
        ra, ta = rep(rng, K, A)
        rb, tb = rep(rng, K, Bp)
        if which == 'C04':
            op = rng.choice(['add', 'add', 'sub', 'neg'])
            if op == 'neg':
                out.append((f'{g}.neg:{ra}', f'{g}.neg {ta}'))
            else:
                out.append((f'{g}.{op}:{rel}:{ra}/{rb}', f'{g}.{op} {ta} {tb}'))
        elif which == 'C05':
            ls, k = scalar_value(rng)
            out.append((f'{g}.mul:{ls}:{ra}', f'{g}.mul@{rng.choice(["", "rev"])} {ta} {h32(k)}'))
        elif which == 'C15':
            if rng.random() < 0.08 and A is not None:
                # setters / accessors / curve coefficient on raw coordinates
                cc = rng.choice(['x', 'y', 'z'])
                out.append((f'{g}.set:{cc}', f'{g}.set {ta} {cc} {K.enc(K.rand(rng) if rng.random() < 0.7 else K.zero)}'))
                continue
            op = rng.choice(['eq', 'eq', 'is_zero', 'normalize', 'affine'])
            if op == 'eq':
                # same point in two representations, P vs -P, P vs O
                c = rng.random()
                if c < 0.4:
                    rb, tb = rep(rng, K, A)
                    rel = 'same-point'
                elif c < 0.52 and A is not None:
                    # same raw X and Y, different Z: (X, Y, -Z) is -A, (X, Y, wZ) with w^3 = 1 is the point (w x, y)
                    lam = nonzero(rng, K) if rng.random() < 0.6 else K.one
                    l2 = K.mul(lam, lam)
                    X, Y = K.mul(A[0], l2), K.mul(A[1], K.mul(l2, lam))
                    w = K.of(rng.choice([q - 1, BETA, BETA * BETA % q]))
                    ra, ta = 'raw', jac_raw(K, X, Y, lam)
                    rb, tb = 'raw-xy-equal', jac_raw(K, X, Y, K.mul(w, lam))
                    rel = 'same-raw-xy'
                out.append((f'{g}.eq:{rel}:{ra}/{rb}', f'{g}.eq {ta} {tb}'))
            else:
                out.append((f'{g}.{op}:{ra}', f'{g}.{op} {ta}'))
        elif which == 'C10':
            fmt = rng.choice(['to_slice', 'to_uncompressed', 'to_compressed'])
            out.append((f'{g}.{fmt}:{ra}', f'{g}.{fmt} {ta}'))
            if A is not None:
                # and decode the encoding back
                if fmt == 'to_slice':
                    out.append((f'{g}.from_slice:roundtrip', f'{g}.from_slice {enc_aff(K, A)}'))
                elif fmt == 'to_uncompressed':
                    out.append((f'{g}.from_uncompressed:roundtrip', f'{g}.from_uncompressed 04{enc_aff(K, A)}'))
                else:
                    par = (A[1] if K is K1 else A[1][0]) & 1
                    out.append((f'{g}.from_compressed:roundtrip:parity{par}', f'{g}.from_compressed {2 + par:02x}{K.enc(A[0])}'))
    return out


def gen_C04(rng, n): return gen_group_ops(rng, n, 'C04')
def gen_C05(rng, n):
    out = gen_group_ops(rng, n, 'C05')
    # fixed scalars, both groups, both operand orders: the scalars whose *stored* Montgomery form is 1 / 2 / 2^64
    # (a shortcut keyed on the raw limbs fires exactly there), and r-1, r-2 on an un-normalised point
    rinv = pow(2**256, -1, r)
    for k in [rinv, 2 * rinv % r, (2**64) * rinv % r, r - 1, r - 2]:
        for g, K, G in [('g1', K1, P1), ('g2', K2, P2)]:
            A = pt_mul(K, rng.randrange(2, r), G)
            ra, ta = rep(rng, K, A, rng.choice(['z=1', 'z=lambda']))
            out.append((f'{g}.mul:fixed:{ra}', f'{g}.mul@{rng.choice(["", "rev"])} {ta} {h32(k)}'))
    return out
def gen_C15(rng, n): return gen_group_ops(rng, n, 'C15')
def gen_C10(rng, n): return gen_group_ops(rng, n, 'C10')


def twist_point_axis_y(rng, imaginary):
    """a point of the twist whose y is purely imaginary (Re y = 0: the parity rule of the compressed format cannot tell y from -y)
    or purely real: x = a + b*u with Im(x^3 + 5u) = 3a^2 b - 2b^3 + 5 = 0, and the real number x^3 + 5u a non-residue (resp. a
    residue) of Fq.  Such points are ordinary twist points, outside the order-r subgroup (up to an unsearchable accident)."""
    while True:
        b = rng.randrange(1, q)
        a = K1.sqrt((2 * b * b * b - 5) * pow(3 * b, -1, q) % q)
        if a is None:
            continue
        if rng.random() < 0.5:
            a = (-a) % q
        x = (a, b)
        y2 = K2.add(K2.mul(K2.mul(x, x), x), K2.b)
        assert y2[1] == 0
        y = K2.sqrt(y2)
        if y is None:
            continue
        if (y[0] == 0) == imaginary and not K2.is_zero(y):
            if rng.random() < 0.5:
                y = K2.neg(y)
            assert on_curve(K2, (x, y))
            return (x, y)


def outside_subgroup_point(rng):
    c = rng.random()
    if c < 0.12:
        im = rng.random() < 0.7
        return ('twist-point-imaginary-y' if im else 'twist-point-real-y'), twist_point_axis_y(rng, im)
    c = (c - 0.12) / 0.88
    if c < 0.25:
        o = rng.choice([13, 1621, 13 * 1621])
        return f'order-{o}', small_order_twist_point(o, rng)
    if c < 0.45:
        return 'random-twist-point', random_curve_point(K2, rng)
    if c < 0.6:
        o = rng.choice([13, 1621])
        return f'subgroup+order-{o}', pt_add(K2, pt_mul(K2, rng.randrange(1, r), P2), small_order_twist_point(o, rng))
    if c < 0.7:
        return 'cofactor-cleared', pt_mul(K2, TWIST_COFACTOR, random_curve_point(K2, rng))
    Q = pt_mul(K2, rng.randrange(1, r), P2)
    if c < 0.8:
        return 'near-miss:y+1', (Q[0], K2.add(Q[1], K2.one))
    if c < 0.9:
        return 'near-miss:x+1', (K2.add(Q[0], K2.one), Q[1])
    # a point of y^2 = x^3 + 5 (wrong b) with coordinates in Fq embedded
    P = pt_mul(K1, rng.randrange(1, r), P1)
    return 'untwisted-curve-point', ((P[0], 0), (P[1], 0))


def gen_C09(rng, n):
    out = []
    for _ in range(n):
        c = rng.random()
        if c < 0.3:
            P = pt_mul(K1, rng.randrange(1, r), P1)
            k = rng.random()
            if k < 0.5:
                out.append(('aff1.new:on-curve', f'aff1.new {h32(P[0])} {h32(P[1])}'))
            elif k < 0.75:
                out.append(('aff1.new:y+1', f'aff1.new {h32(P[0])} {h32((P[1] + 1) % q)}'))
            else:
                out.append(('aff1.new:random', f'aff1.new {h32(rng.randrange(q))} {h32(rng.randrange(q))}'))
        elif c < 0.45:
            Q = pt_mul(K2, rng.randrange(1, r), P2)
            out.append(('aff2.new:subgroup', f'aff2.new {K2.enc(Q[0])} {K2.enc(Q[1])}'))
        else:
            lab, Q = outside_subgroup_point(rng)
            if Q is None:
                continue
            k = rng.random()
            if k < 0.4:
                out.append((f'aff2.new:{lab}', f'aff2.new {K2.enc(Q[0])} {K2.enc(Q[1])}'))
            elif k < 0.6:
                out.append((f'g2.from_slice:{lab}', f'g2.from_slice {enc_aff(K2, Q)}'))
            elif k < 0.8:
                out.append((f'g2.from_uncompressed:{lab}', f'g2.from_uncompressed 04{enc_aff(K2, Q)}'))
            else:
                out.append((f'g2.from_compressed:{lab}', f'g2.from_compressed {2 + (Q[1][0] & 1):02x}{K2.enc(Q[0])}'))
    return out


def mutate_bytes(rng, bs):
    c = rng.random()
    b = bytearray(bs)
    if c < 0.3 and len(b):
        i = rng.randrange(len(b))
        b[i] ^= 1 << rng.randrange(8)
        return 'bit-flip', bytes(b)
    if c < 0.5 and len(b):
        i = rng.randrange(len(b))
        b[i] = rng.randrange(256)
        return 'byte-set', bytes(b)
    if c < 0.6:
        return 'truncated', bytes(b[:-1])
    if c < 0.7:
        return 'extended', bytes(b) + bytes([rng.randrange(256)])
    if c < 0.8 and len(b):
        b[0] = rng.randrange(256)
        return 'prefix-byte', bytes(b)
    if c < 0.9:
        return 'valid', bytes(b)
    return 'random-same-length', bytes(rng.randrange(256) for _ in range(len(b)))


def gen_C08(rng, n, exhaustive_prefix=True):
    out = []
    P = pt_mul(K1, 7, P1)
    Q = pt_mul(K2, 7, P2)
    if exhaustive_prefix:
        for pre in range(256):
            out.append((f'g1.from_compressed:prefix', f'g1.from_compressed {pre:02x}{h32(P[0])}'))
            out.append((f'g2.from_compressed:prefix', f'g2.from_compressed {pre:02x}{K2.enc(Q[0])}'))
            out.append((f'g1.from_uncompressed:prefix', f'g1.from_uncompressed {pre:02x}{enc_aff(K1, P)}'))
            out.append((f'g2.from_uncompressed:prefix', f'g2.from_uncompressed {pre:02x}{enc_aff(K2, Q)}'))
        for ln in range(0, 141):
            bs = bytes(rng.randrange(256) for _ in range(ln))
            for dec in ('g1.from_slice', 'g1.from_uncompressed', 'g1.from_compressed', 'g2.from_slice', 'g2.from_uncompressed', 'g2.from_compressed'):
                z = rng.choice([bs, bytes(ln), b'\xff' * ln, b'\x04' + bs[1:] if ln else bs, b'\x02' + bs[1:] if ln else bs])
                out.append((f'{dec}:len{ln}', f'{dec} {hb(z)}'))
    # special coordinates at the exact lengths: all-zero ("is (0,0) the point at infinity?"), one coordinate zero,
    # all-ones, a valid coordinate next to a zero one
    for g, K, A, cl in (('g1', K1, P, 32), ('g2', K2, Q, 64)):
        xz, yz = bytes(cl), bytes(cl)
        xa, ya = bytes.fromhex(K.enc(A[0])), bytes.fromhex(enc_aff(K, A))[cl:]
        for lab, x, y in (('zero,zero', xz, yz), ('x,zero', xa, yz), ('zero,y', xz, ya), ('ff,ff', b'\xff' * cl, b'\xff' * cl)):
            out.append((f'{g}.from_slice:special:{lab}', f'{g}.from_slice {hb(x + y)}'))
            out.append((f'{g}.from_uncompressed:special:{lab}', f'{g}.from_uncompressed 04{hb(x + y)}'))
        for pre in (2, 3):
            out.append((f'{g}.from_compressed:special:zero', f'{g}.from_compressed {pre:02x}{hb(xz)}'))
            out.append((f'{g}.from_compressed:special:ff', f'{g}.from_compressed {pre:02x}{hb(bytes([255]) * cl)}'))
    # G2 decoders on points of the twist that are NOT in the order-r subgroup: every small-order class
    # (13, 1621, 13*1621), a subgroup point plus a small-order point, a random twist point — each through all three formats
    offs = [('order-13', small_order_twist_point(13, rng)), ('order-1621', small_order_twist_point(1621, rng)),
            ('order-21073', small_order_twist_point(13 * 1621, rng)),
            ('subgroup+order-13', pt_add(K2, pt_mul(K2, rng.randrange(1, r), P2), small_order_twist_point(13, rng))),
            ('random-twist-point', random_curve_point(K2, rng)),
            # y on an axis: Re y = 0 (the sign bit of the compressed format cannot tell y from -y) / Im y = 0
            ('twist-point-imaginary-y', twist_point_axis_y(rng, True)), ('twist-point-real-y', twist_point_axis_y(rng, False))]
    for lab, T in offs:
        if T is None:
            continue
        out.append((f'g2.from_slice:{lab}', f'g2.from_slice {enc_aff(K2, T)}'))
        out.append((f'g2.from_uncompressed:{lab}', f'g2.from_uncompressed 04{enc_aff(K2, T)}'))
        out.append((f'g2.from_compressed:{lab}', f'g2.from_compressed {2 + (T[1][0] & 1):02x}{K2.enc(T[0])}'))
        if 'axis' in lab or '-y' in lab:
            out.append((f'g2.from_compressed:{lab}:other-prefix', f'g2.from_compressed {3 - (T[1][0] & 1):02x}{K2.enc(T[0])}'))
    for _ in range(n):
        g, K, G = rng.choice([('g1', K1, P1), ('g2', K2, P2)])
        A = pt_mul(K, rng.randrange(1, r), G)
        fmt = rng.choice(['slice', 'uncompressed', 'compressed'])
        if fmt == 'slice':
            bs = bytes.fromhex(enc_aff(K, A))
        elif fmt == 'uncompressed':
            bs = b'\x04' + bytes.fromhex(enc_aff(K, A))
        else:
            par = (A[1] if K is K1 else A[1][0]) & 1
            bs = bytes([2 + par]) + bytes.fromhex(K.enc(A[0]))
        c = rng.random()
        if c < 0.25:
            # a coordinate lifted into [q, 2^256)
            off = 1 if fmt != 'slice' else 0
            ncoord = (len(bs) - off) // 32
            i = rng.randrange(ncoord)
            v = int.from_bytes(bs[off + 32*i: off + 32*i + 32], 'big')
            if v + q < R:
                bs2 = bs[:off + 32*i] + (v + q).to_bytes(32, 'big') + bs[off + 32*i + 32:]
                out.append((f'{g}.from_{fmt}:coord+q', f'{g}.from_{fmt} {hb(bs2)}'))
                continue
        if 0.25 <= c < 0.33:
            # a coordinate that ties with q on the most significant 64-bit limb: only the lower limbs decide `< q`
            # (a comparison that weighs the limbs in the wrong order goes wrong exactly here)
            off = 1 if fmt != 'slice' else 0
            ncoord = (len(bs) - off) // 32
            i = rng.randrange(ncoord)
            v = ((q >> 192) << 192) | rng.getrandbits(192)
            if rng.random() < 0.3:
                v = ((q >> 128) << 128) | rng.getrandbits(128)     # tie on the two top limbs
            bs2 = bs[:off + 32*i] + v.to_bytes(32, 'big') + bs[off + 32*i + 32:]
            out.append((f'{g}.from_{fmt}:coord-toplimb-tie:{"<q" if v < q else ">=q"}', f'{g}.from_{fmt} {hb(bs2)}'))
            continue
        if c < 0.43 and fmt == 'compressed':
            # an x with no point on the curve
            while True:
                x = K.rand(rng)
                if K.sqrt(K.add(K.mul(K.mul(x, x), x), K.b)) is None:
                    break
            out.append((f'{g}.from_compressed:x-without-point', f'{g}.from_compressed {bs[0]:02x}{K.enc(x)}'))
            continue
        lab, bs2 = mutate_bytes(rng, bs)
        out.append((f'{g}.from_{fmt}:{lab}', f'{g}.from_{fmt} {hb(bs2)}'))
    return out


# ------------------------------------------------------------------ pairings
def pairing_operands(rng):
    ls, a = scalar_value(rng)
    lt, b = scalar_value(rng)
    if rng.random() < 0.6:
        a = a or 1
        b = b or 1
    A = pt_mul(K1, a, P1)
    Bq = pt_mul(K2, b, P2)
    ra, ta = rep(rng, K1, A)
    rb, tb = rep(rng, K2, Bq)
    return f'{ls}/{lt}:{ra}/{rb}', ta, tb, a, b


def gen_pairing(rng, n, entry=None):
    out = []
    for _ in range(n):
        lab, ta, tb, a, b = pairing_operands(rng)
        for e in (entry or ['pairing', 'fast', 'prep']):
            out.append((f'pair.{e}:{lab}', f'pair.{e} {ta} {tb}'))
    return out


def gen_rep_sweep(rng):
    """one pair (P, Q), every class of representative of each operand in turn, one entry point per case
    (round robin): the property is about exactly this"""
    out = []
    A = pt_mul(K1, rng.randrange(1, r), P1)
    Q = pt_mul(K2, rng.randrange(1, r), P2)
    k = rng.randrange(3)
    for cls in ['z=-1', 'z=small', 'z=1+bu', 'z=mont1', 'z=lambda']:
        e = ['pairing', 'fast', 'prep'][k % 3]; k += 1
        out.append((f'pair.{e}:sweep:Q:{cls}', f'pair.{e} {rep(rng, K1, A, "z=1")[1]} {rep(rng, K2, Q, cls)[1]}'))
    for cls in ['z=-1', 'z=small', 'z=mont1', 'z=lambda']:
        e = ['pairing', 'fast', 'prep'][k % 3]; k += 1
        out.append((f'pair.{e}:sweep:P:{cls}', f'pair.{e} {rep(rng, K1, A, cls)[1]} {rep(rng, K2, Q, "z=1")[1]}'))
    # the generator itself and its negative (what a cache or a special case would key on), raw and rescaled
    for e, Qg, cls in (('prep', P2, 'z=1'), ('fast', pt_neg(K2, P2), 'z=1'), ('prep', P2, 'z=lambda'), ('fast', P2, 'z=-1')):
        out.append((f'pair.{e}:sweep:generator:{cls}', f'pair.{e} {rep(rng, K1, A, "z=1")[1]} {rep(rng, K2, Qg, cls)[1]}'))
    # the "looks normalised" class against the two entry points that normalise
    for e in ['fast', 'prep']:
        out.append((f'pair.{e}:sweep:Q:z=1+bu', f'pair.{e} {rep(rng, K1, A, "z=lambda")[1]} {rep(rng, K2, Q, "z=1+bu")[1]}'))
    return out


def gen_C02(rng, n):
    # random operands and representatives, plus one sweep over every class of representative of each operand
    return gen_pairing(rng, n) + gen_rep_sweep(rng)


def gen_C03(rng, n):
    out = gen_pairing(rng, n)
    for _ in range(max(1, n // 2)):
        out.append(gen_prepared_reuse(rng))
    for _ in range(max(1, n // 20)):
        out += gen_rep_sweep(rng)
    return out


def gen_prepared_reuse(rng):
    """one prepared value used for several G1 inputs, in an arbitrary order, through the value and a clone;
    the inputs include related points (P, -P, P again in another representation, 2P, O): a result
    that depended on the call history would show up"""
    b = rng.randrange(1, r)
    Q = pt_mul(K2, b, P2)
    _, tq = rep(rng, K2, Q)
    A = pt_mul(K1, rng.randrange(1, r), P1)
    pts = [A, pt_neg(K1, A), A, pt_add(K1, A, A), None, pt_mul(K1, rng.randrange(1, r), P1)]
    rng.shuffle(pts)
    pts = pts[:rng.randrange(3, 7)]
    if not any(p_ is not None and pt_neg(K1, p_) in pts for p_ in pts):
        pts += [A, pt_neg(K1, A)]
    ps = [rep(rng, K1, p_)[1] for p_ in pts]
    order = list(range(len(ps))) + list(range(len(ps)))
    rng.shuffle(order)
    return ('pair.reuse', 'pair.reuse ' + tq + ' ' + ','.join(map(str, order)) + ' ' + ' '.join(ps))


def gen_C01(rng, n):
    out = []
    # boundary scalar pairs, each entry point once per round-robin: zero exponents / identity operands
    combos = [(0, 1), (1, 0), (0, 0), (1, 1), (r - 1, 1), (2, r - 1), (r - 1, r - 1), (0, r - 1)]
    for k, (a, b) in enumerate(combos):
        e = ['pairing', 'fast', 'prep'][k % 3]
        out.append((f'law.bilin:{e}:boundary', f'law.bilin@{e} {h32(a)} {h32(b)}'))
    for _ in range(n):
        ls, a = scalar_value(rng)
        lt, b = scalar_value(rng)
        e = rng.choice(['pairing', 'fast', 'prep'])
        out.append((f'law.bilin:{e}:{ls}/{lt}', f'law.bilin@{e} {h32(a)} {h32(b)}'))
        a2 = rng.randrange(r)
        c = rng.randrange(r)
        out.append((f'law.additive:{e}', f'law.additive@{e} {h32(a)} {h32(a2)} {h32(b)} {h32(c)}'))
    # additivity on explicit representatives: the same point twice in two representations (the sum is a doubling that
    # only a representation-independent test recognises), P and -P (the sum is a non-canonical identity), identities
    k = rng.randrange(3)
    for _ in range(max(3, n // 2)):
        e = ['pairing', 'fast', 'prep'][k % 3]; k += 1
        l1, A, A2 = point_pair(rng, K1, P1)
        l2, Bq, B2 = point_pair(rng, K2, P2)
        ra, ta = rep(rng, K1, A); ra2, ta2 = rep(rng, K1, A2)
        rb, tb = rep(rng, K2, Bq); rb2, tb2 = rep(rng, K2, B2)
        out.append((f'law.additive2:{e}:{l1}/{l2}', f'law.additive2@{e} {ta} {ta2} {tb} {tb2}'))
    for e in ['pairing', 'fast', 'prep']:
        A = pt_mul(K1, rng.randrange(1, r), P1); Bq = pt_mul(K2, rng.randrange(1, r), P2)
        out.append((f'law.additive2:{e}:equal-reps', f'law.additive2@{e} {rep(rng, K1, A, "z=lambda")[1]} {rep(rng, K1, A, "z=1")[1]} {rep(rng, K2, Bq, "z=1")[1]} {rep(rng, K2, Bq, "z=lambda")[1]}'))
    # one prepared value queried with P, -P, 2P and P again (state inside the prepared value)
    for _ in range(max(1, n // 4)):
        out.append(('law.prepreuse', f'law.prepreuse {h32(rng.randrange(1, r))} {h32(rng.randrange(1, r))}'))
    for e in ['pairing', 'fast', 'prep']:
        out.append((f'law.identity:{e}', f'law.identity@{e} {rep(rng, K1, None)[1]} {rep(rng, K2, None)[1]}'))
        out.append((f'law.nondegenerate:{e}', f'law.nondegenerate@{e}'))
    return out


def gen_C11(rng, n):
    out = []
    # fixed exponent pairs: zero, one, r-1, exponents with all-zero low limbs, and the exponents whose
    # *Montgomery* form is 1 or 2 (a fast path keyed on the raw limbs fires exactly there)
    rinv = pow(2**256, -1, r)
    for a, b in [(rinv, 1), (0, 2 * rinv % r), (2**64, 2**128), (r - 1, (rinv + 1) % r)]:
        out.append(('gtk:fixed', f'gtk.ops {h32(1)} {h32(1)} {h32(a)} {h32(b)}'))
    for _ in range(n):
        ls, a = scalar_value(rng)
        lt, b = scalar_value(rng)
        k1 = rng.choice([1, 2, rng.randrange(1, r)])
        k2 = rng.choice([1, r - 1, rng.randrange(1, r)])
        out.append((f'gtk:{ls}/{lt}', f'gtk.ops {h32(k1)} {h32(k2)} {h32(a)} {h32(b)}'))
    return out


# ------------------------------------------------------------------ tower (C17)
def fq12_value(rng):
    c = rng.random()
    coeffs = [0] * 12
    if c < 0.08:
        return 'zero', coeffs
    # coefficients are in `to_slice` order: index 11 is c0.c0.c0 (the F_q part), 10 is c0.c0.c1, 8..11 is the F_q^4 part c0
    if c < 0.14:
        coeffs[11] = rng.choice([1, 1, q - 1, 2])
        return {1: 'one', q - 1: 'minus-one', 2: 'two'}[coeffs[11]], coeffs
    if c < 0.28:
        for i in rng.sample(range(12), rng.randrange(1, 4)):
            coeffs[i] = rng.randrange(q)
        return 'sparse', coeffs
    if c < 0.42:
        # elements of the subfields F_q, F_q^2, F_q^4 (operands for which an implementation may take a shortcut)
        k = rng.choice([1, 1, 2, 4])
        for i in range(12 - k, 12):
            coeffs[i] = rng.randrange(1, q)
        return f'subfield-fq{k if k > 1 else ""}', coeffs
    if c < 0.5:
        return 'boundary', [rng.choice(BOUNDARY[q]) for _ in range(12)]
    if c < 0.6:
        return 'all-q-1', [q - 1 - rng.randrange(0, 2) for _ in range(12)]
    return 'uniform', [rng.randrange(q) for _ in range(12)]


def enc12(coeffs):
    """12 Fq coefficients in `to_slice` order"""
    return ''.join(h32(c) for c in coeffs)


def gen_C17(rng, n):
    out = []
    for _ in range(n):
        lx, x = fq12_value(rng)
        ly, y = fq12_value(rng)
        k = rng.random()
        if k < 0.18:
            out.append((f'fq12.mul:{lx}*{ly}', f'fq12.mul {enc12(x)} {enc12(y)}'))
        elif k < 0.3:
            out.append((f'fq12.sq:{lx}', f'fq12.sq {enc12(x)}'))
        elif k < 0.4:
            out.append((f'fq12.inv:{lx}', f'fq12.inv {enc12(x)}'))
        elif k < 0.52:
            kk = rng.choice([1, 2, 3, 6])
            out.append((f'fq12.frob{kk}:{lx}', f'fq12.frob {kk} {enc12(x)}'))
        elif k < 0.62:
            # sparse right operand of mul_015: c0 arbitrary, c1 = 0, c2 = (0, *)
            # to_slice order: c2.c1.c1 c2.c1.c0 c2.c0.c1 c2.c0.c0 | c1... | c0...
            s = [0] * 12
            s[0], s[1] = rng.randrange(q), rng.randrange(q)          # c2.c1
            for i in range(8, 12):
                s[i] = rng.randrange(q)                               # c0
            out.append((f'fq12.mul_015:{lx}', f'fq12.mul_015 {enc12(x)} {enc12(s)}'))
        elif k < 0.72:
            e = rng.choice([0, 1, 2, 9, 0x600000000058F98A, 0x2400000000215d941, 0xd8000000019062ed0000b98b0cb27659,
                            rng.randrange(1 << 128), (1 << 128) - 1, 1 << 127, 1 << rng.randrange(128)])
            out.append((f'fq12.pow:{lx}', f'fq12.pow {enc12(x)} {e:x}'))
        elif k < 0.82:
            out.append((f'fq12.fe:{lx}', f'fq12.fe {enc12(x)}'))
        elif k < 0.92:
            out.append((f'fq12.fexp:{lx}', f'fq12.fexp {enc12(x)}'))
        else:
            a4 = ''.join(h32(rng.randrange(q)) for _ in range(4))
            b4 = ''.join(h32(rng.choice([0, rng.randrange(q)])) for _ in range(4))
            op = rng.choice(['mul', 'sq', 'inv', 'mul_1', 'frob'])
            if op in ('mul', 'mul_1'):
                out.append((f'fq4.{op}', f'fq4.{op} {a4} {b4}'))
            elif op == 'frob':
                out.append((f'fq4.frob', f'fq4.frob {rng.choice([10, 11, 12, 21, 22, 30, 31, 32])} {a4}'))
            else:
                out.append((f'fq4.{op}', f'fq4.{op} {a4}'))
    # the two Miller loops on valid operands (agree after final exponentiation)
    for _ in range(max(1, n // 10)):
        lab, ta, tb, a, b = pairing_operands(rng)
        A = pt_mul(K1, a or 1, P1)
        Bq = pt_mul(K2, b or 1, P2)
        out.append(('miller.g2', f'miller.g2 {jac(K2, Bq)} {jac(K1, A)}'))
        out.append(('miller.prep', f'miller.prep {jac(K2, Bq)} {jac(K1, A)}'))
    # "both Miller-loop variants agree up to factors the final exponentiation removes", at the entry points, on the
    # inputs where the loops are cut short: every representation class of the identity, on either side
    A = pt_mul(K1, rng.randrange(1, r), P1)
    Bq = pt_mul(K2, rng.randrange(1, r), P2)
    for cls in (0.1, 0.5, 0.8, 0.9):
        REP_CLASSES['_tmp'] = cls
        l1, t1 = rep(rng, K1, None, '_tmp')
        l2, t2 = rep(rng, K2, None, '_tmp')
        for e in ['pairing', 'fast', 'prep']:
            out.append((f'pair.{e}:identity-left:{l1}', f'pair.{e} {t1} {rep(rng, K2, Bq)[1]}'))
            out.append((f'pair.{e}:identity-right:{l2}', f'pair.{e} {rep(rng, K1, A)[1]} {t2}'))
    REP_CLASSES.pop('_tmp', None)
    return out


# ------------------------------------------------------------------ histories (C16)
def gen_prog_group(rng, maxlen=14, alphabet=None):
    steps = ['one1', 'one2', 'zero1', 'zero2']
    kinds = ['1', '2', '1', '2']
    for _ in range(rng.randrange(3, maxlen)):
        i = rng.randrange(len(kinds))
        same = [j for j, k in enumerate(kinds) if k == kinds[i]]
        j = rng.choice(same)
        op = rng.choice(['add', 'sub', 'neg', 'mul', 'normalize', 'affine', 'encdec', 'add', 'sub'])
        if op in ('add', 'sub'):
            steps.append(f'{op}:{i},{j}')
        elif op == 'mul':
            k = rng.choice(alphabet) if alphabet else rng.choice([0, 1, 2, r - 1, rng.randrange(r)])
            steps.append(f'mul:{i},{h32(k)}')
        elif op == 'encdec':
            steps.append(f'encdec:{i},{rng.choice(["slice", "uncompressed", "compressed"])}')
        else:
            steps.append(f'{op}:{i}')
        kinds.append(kinds[i])
    return ('prog.group', 'prog.group ' + ' '.join(steps))


def gen_C16(rng, n):
    out = []
    # exhaustive depth-2 over the scalar alphabet {0, 1, 2, r-1} from the generators
    alpha = [0, 1, 2, r - 1]
    for g in ('1', '2'):
        one = 0 if g == '1' else 1
        for k1 in alpha:
            for k2 in alpha:
                for op in ('add', 'sub'):
                    out.append(('prog.group:exhaustive-depth2',
                                f'prog.group one1 one2 zero1 zero2 mul:{one},{h32(k1)} mul:{one},{h32(k2)} {op}:4,5 neg:6 normalize:6 encdec:6,compressed'))
    for _ in range(n):
        out.append(gen_prog_group(rng))
    return out


def gen_C18(rng, n):
    """union of the input classes, to be run in both profiles"""
    out = []
    m = max(1, n // 8)
    out += gen_C06(rng, m) + gen_C12(rng, m) + gen_C13(rng, max(1, m // 4)) + gen_C14(rng, m)
    out += gen_C08(rng, m * 4, exhaustive_prefix=True) + gen_C04(rng, m) + gen_C05(rng, max(1, m // 2))
    out += gen_C09(rng, max(1, m // 2)) + gen_C10(rng, m) + gen_C17(rng, max(1, m // 2))
    out += gen_pairing(rng, max(1, m // 8))
    return out


GENERATORS = {
    'C01': gen_C01, 'C02': gen_C02, 'C03': gen_C03, 'C04': gen_C04, 'C05': gen_C05, 'C06': gen_C06,
    'C07': gen_C07, 'C08': gen_C08, 'C09': gen_C09, 'C10': gen_C10, 'C11': gen_C11, 'C12': gen_C12,
    'C13': gen_C13, 'C14': gen_C14, 'C15': gen_C15, 'C16': gen_C16, 'C17': gen_C17, 'C18': gen_C18,
}

# cases per tier (the numbers are generator rounds, not lines)
SIZES = {
    'quick': {'C01': 8, 'C02': 12, 'C03': 9, 'C04': 150, 'C05': 60, 'C06': 500, 'C07': 150, 'C08': 300, 'C09': 40,
              'C10': 80, 'C11': 8, 'C12': 400, 'C13': 60, 'C14': 60, 'C15': 150, 'C16': 40, 'C17': 120, 'C18': 160},
    'thorough': {'C01': 300, 'C02': 600, 'C03': 400, 'C04': 20000, 'C05': 8000, 'C06': 200000, 'C07': 30000, 'C08': 24000,
                 'C09': 6000, 'C10': 12000, 'C11': 300, 'C12': 150000, 'C13': 30000, 'C14': 12000, 'C15': 20000, 'C16': 4000,
                 'C17': 20000, 'C18': 16000},
}
