#!/usr/bin/env python3
"""confirm a round-7+ seeded change: usage confirm7.py <worktree> <seed-id>
   worktree/OUT/{patch.diff,demo.rs,meta.json}; 1. demo passes on clean tree, 2. with the patch the suite passes and
   the demo fails, 3. restore; on success copy to /verif/seeded/<seed-id>/ and record what was run."""
import sys, subprocess, os, json, shutil
wt, sid = sys.argv[1], sys.argv[2]
env = dict(os.environ, CARGO_NET_OFFLINE='true')
def run(cmd):
    p = subprocess.run(cmd, cwd=wt, env=env, shell=True, stdout=subprocess.PIPE, stderr=subprocess.STDOUT, text=True)
    return p.returncode, p.stdout
od = os.path.join(wt, 'OUT')
for f in os.listdir(os.path.join(wt, 'tests')):
    if f != 'integration_test.rs':
        os.remove(os.path.join(wt, 'tests', f))
run('git checkout -- src')
demo = os.path.join(wt, 'tests', 'zz_demo.rs')
shutil.copy(os.path.join(od, 'demo.rs'), demo)
res = {}
rc, o = run('cargo test --offline --test zz_demo 2>&1 | tail -15')
res['demo_on_clean'] = 'pass' if 'test result: ok' in o and 'FAILED' not in o else 'FAIL: ' + o[-300:]
rc, o = run(f'git apply {od}/patch.diff'); res['apply_rc'] = rc
os.rename(demo, demo + '.off')
rc, o = run('cargo test --offline 2>&1 | grep -E "test result|FAILED|^error" ')
res['suite_with_change'] = o.strip().replace('\n', ' | ')
os.rename(demo + '.off', demo)
rc, o = run('cargo test --offline --test zz_demo 2>&1 | tail -8')
res['demo_with_change'] = 'FAILS(as expected)' if ('FAILED' in o or 'panicked' in o) else 'passes?!'
if res['demo_with_change'] == 'passes?!':
    # a defect that only shows in the optimised profile
    rc, o = run('cargo test --offline --release --test zz_demo 2>&1 | tail -8')
    if 'FAILED' in o or 'panicked' in o:
        res['demo_with_change'] = 'FAILS(as expected) in --release only'
res['demo_tail'] = o[-300:]
run('git checkout -- src'); os.remove(demo)
ok = (res['demo_on_clean'] == 'pass' and res['apply_rc'] == 0 and 'FAILED' not in res['suite_with_change']
      and 'error' not in res['suite_with_change'] and res['suite_with_change'].count('test result: ok') >= 3
      and res['demo_with_change'].startswith('FAILS'))
res['confirmed'] = ok
print(json.dumps(res, indent=1))
if ok:
    dst = os.path.join('/verif/seeded', sid); os.makedirs(dst, exist_ok=True)
    for f in ('patch.diff', 'demo.rs'):
        shutil.copy(os.path.join(od, f), dst)
    try: m = json.load(open(os.path.join(od, 'meta.json')))
    except Exception as e: m = {'property': sid[:3], 'summary': 'meta.json unreadable: %s' % e}
    m['confirmed_by_me'] = res
    json.dump(m, open(os.path.join(dst, 'meta.json'), 'w'), indent=1)
sys.exit(0 if ok else 1)
