#!/bin/sh
# usage: roundN.sh <worktree-root> <suffix> Cxx prop...   confirm the sub-agent's change in <root>/Cxx, store it as seeded/Cxx-<suffix>,
# evaluate it in the private clone (/tmp/vf2, /tmp/repo2), remove the worktree
root=$1; suf=$2; pid=$3; shift 3
python3 /verif/tools/confirm7.py $root/$pid $pid-$suf > $root/$pid.confirm.json 2>&1 || { echo "$pid NOT CONFIRMED"; tail -20 $root/$pid.confirm.json; exit 1; }
python3 /verif/tools/seed_eval2.py $pid-$suf "$@"
git -C /repo worktree remove --force $root/$pid
