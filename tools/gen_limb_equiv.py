#!/usr/bin/env python3
"""Generate Sm9/Gen/LimbEquiv.lean from Sm9/Gen/limb_meta.json + limb_report.json (written by rs2lean's
limb module): one theorem per function translated from the *current* arith.rs / u256.rs / u512.rs /
fields/fp.rs stating that it equals the hand-written limb model (Sm9/Model/{Limbs,Mont}.lean) for all
inputs, plus one theorem per array-index / shift-amount obligation the translator could not decide statically.
Regenerated on every run.   usage: gen_limb_equiv.py <lean/Sm9/Gen>"""
import json, sys, os, re

# key -> (model right-hand side as a function of the generated definition's parameter names,
#         extra hypotheses, tactic)
# `{0}`, `{1}`, ... are the parameters of the generated definition, in order (so a renamed Rust parameter
# does not matter).  A right-hand side that is not a model function is a hand-written specification
# (the model has no separate definition for that Rust function); these are marked SPEC.
MODEL = {
    'Arith.adc': ('Sm9.Limb.adc B64 {0} {1} {2}', [], None),
    'Arith.mac': ('Sm9.Limb.mac B64 {0} {1} {2} {3}', [], None),
    'Arith.sbb': ('(((({0} + 2 ^ 128 - ({1} + {2} >>> 63)) % 2 ^ 128) % B64), ((({0} + 2 ^ 128 - ({1} + {2} >>> 63)) % 2 ^ 128) / B64))', [], None),  # SPEC
    'Arith.mac_discard': ('(Sm9.Limb.mac B64 {0} {1} {2} 0).2', [], None),  # SPEC (old carry is ignored)
    'Arith.mac_with_carry_macro': ('((Sm9.Limb.mac B64 {0} {1} {2} {3}).2, (Sm9.Limb.mac B64 {0} {1} {2} {3}).1)', [], None),
    'Arith.adc_macro': ('((Sm9.Limb.adc B64 {0} {1} {2}).2, (Sm9.Limb.adc B64 {0} {1} {2}).1)', [], None),
    'U256.zero': ('(0 : Nat)', [], None),  # SPEC
    'U256.one': ('(1 : Nat)', [], None),  # SPEC
    'U256.is_zero': ('({0} == 0)', [], None),  # SPEC
    'U256.is_one': ('({0} == 1)', [], None),  # SPEC
    'U256.is_even': ('Sm9.Big.is_even {0}', [], None),
    'U256.is_odd': ('Sm9.Big.is_odd {0}', [], None),
    'U256.set_bit': ('Sm9.U256.set_bit {0} {1} {2}', ['{0} < W256'], 'limb_set_bit'),
    'U256.get_bit': ('Sm9.U256.get_bit {0} {1}', [], None),
    'U256.subtract_modulus_with_carry': ('Sm9.U256.subtract_modulus_with_carry {0} {1} {2}', [], None),
    'U256.add_carry': ('Sm9.U256.add_carry {0} {1} {2}', [], None),
    'U256.add': ('Sm9.U256.add {0} {1} {2}', [], None),
    'U256.sub': ('Sm9.U256.sub {0} {1} {2}', [], None),
    'U256.mul2': ('Sm9.U256.mul2 {0} {1}', [], None),
    'U256.div2': ('Sm9.U256.div2 {0} {1}', [], None),
    'U256.neg': ('Sm9.U256.neg {0} {1}', [], None),
    'U256.mul_without_cond_subtract': ('Sm9.U256.mul_without_cond_subtract {0} {1} {2} {3}', [], None),
    'U256.mul': ('Sm9.U256.mul {0} {1} {2} {3}', [], None),
    'U256.square': ('Sm9.U256.square {0} {1} {2}', [], None),
    'U256.invert': ('Sm9.U256.invert {0} {1} {2}', [], None),
    'U512.bit_length': ('Sm9.Big.num_bits {0}', [], None),
    'U512.get_bit': ('(if {1} ≥ 512 then none else some (Sm9.Big.get_bit {0} {1}))', [], None),  # SPEC
    'Fp.into_u256': ('Sm9.Fp.into_u256 {0} {1}', [], None),
    'Fp.zero': ('Sm9.Fp.zero', [], None),
    'Fp.is_zero': ('Sm9.Fp.is_zero {1}', [], None),
    'Fp.one': ('Sm9.Fp.one {0}', [], None),
    'Fp.is_one': ('({1} == Sm9.Fp.one {0})', [], None),  # SPEC (FqL.is_one at P = paramsQ)
    'Fp.new': ('Sm9.Fp.new {0} {1}', [], None),
    'Fp.new_mul_factor': ('Sm9.Fp.new_mul_factor {0} {1}', [], None),
    'Fp.add_inplace': ('Sm9.Fp.add {0} {1} {2}', [], None),
    'Fp.sub_inplace': ('Sm9.Fp.sub {0} {1} {2}', [], None),
    'Fp.mul_inplace': ('Sm9.Fp.mul {0} {1} {2}', [], None),
    'Fp.neg_inplace': ('Sm9.Fp.neg {0} {1}', [], None),
    'Fp.inverse': ('Sm9.Fp.inverse {0} {1}', [], None),
    'Fp.double': ('Sm9.Fp.double {0} {1}', [], None),
    'Fp.triple': ('Sm9.Fp.triple {0} {1}', [], None),
    'Fp.squared': ('Sm9.Fp.squared {0} {1}', [], None),
    'Fp.set_bit': ('(Sm9.Fp.set_bit {0} {1} {2} {3})', ['Sm9.Fp.into_u256 {0} {1} < W256'], None),
    'Fp.modulus': ('{0}.modulus', [], None),  # SPEC
    'Fp.raw': ('{1}', [], None),  # SPEC
    'Fq.div2': ('Sm9.Fp.div2 Sm9.FqL.P {0}', [], None),
    'Fq.sqrt': ('Sm9.FqL.sqrt {0}', [], None),
    'Fq.sum_of_products': ('Sm9.FqL.sum_of_products {0} {1}', [], 'limb_sop'),
}

PARAMS_MODEL = {'Fq': 'Sm9.paramsQ', 'Fr': 'Sm9.paramsR'}

# fuel-recursive auxiliary definitions (one per `while` loop): statement and proof.
# `{g}` the generated loop, `{0}`.. its parameters after the fuel, `{eqs}` the callee equivalences.
AUX = {
    'U256.add_carry.loop1': ('∀ ({ps} : Nat), {g} fuel {args} = Sm9.U256.add_carry fuel {0} {1}', 'limb_loop fuel {g} Sm9.U256.add_carry [{eqs}]'),
    'U256.invert.loop2': ('∀ ({ps} : Nat), {g} fuel {args} = Sm9.U256.halve fuel {0} {1} {2}', 'limb_loop fuel {g} Sm9.U256.halve [{eqs}]'),
    'U256.invert.loop3': ('∀ ({ps} : Nat), {g} fuel {args} = Sm9.U256.halve fuel {0} {1} {2}', 'limb_loop fuel {g} Sm9.U256.halve [{eqs}]'),
    # the model's outer loop also performs the final selection `if u == 1 then b else c`
    'U256.invert.loop1': ('∀ ({ps} : Nat), Option.map (fun (s : Nat × Nat × Nat × Nat) => if s.1 == 1 then s.2.2.1 else s.2.2.2) ({g} fuel {args}) = Sm9.U256.invLoop fuel {0} {1} {2} {3} {4}',
        """
  induction fuel with
  | zero => intros; rfl
  | succ k ih =>
    intro u v b c m
    unfold {g} Sm9.U256.invLoop
    simp only [{eqs}, bne]
    by_cases hc : (!u == 1 && !v == 1) = true
    case neg => rw [if_neg hc, if_neg hc]; rfl
    rw [if_pos hc, if_pos hc]
    cases Sm9.U256.halve 600 u b m with
    | none => rfl
    | some p =>
      cases Sm9.U256.halve 600 v c m with
      | none => rfl
      | some q =>
        simp only [Option.bind_some]
        split <;> simp [← ih, *]"""),
}

# fully unrolled carry chains: evaluate both sides in the kernel, do not rewrite inside the big term
HEAVY = {'U256.mul_without_cond_subtract', 'U256.square'}

# main theorems that need more than the generic tactic
SPECIAL = {
    'U256.invert': """
  unfold {g} Sm9.U256.invert
  simp only [← U256_invert_loop1_equiv, {eqs0}]
  cases Sm9.Gen.L.U256.invert.loop1 1200 {0} {1} {2} 0 {1} <;> simp""",
}


def thm_name(key):
    return key.replace('.', '_') + '_equiv'


def main(gen_dir):
    rep = json.load(open(os.path.join(gen_dir, 'limb_report.json')))
    meta = json.load(open(os.path.join(gen_dir, 'limb_meta.json')))
    L = ['-- GENERATED by tools/gen_limb_equiv.py on every run — do not edit.',
         'import Sm9.Gen.LimbRust', 'import Sm9.Gen.LimbEquivTactics',
         '/-! Every limb-level definition translated from the current Rust source equals the hand-written limb model. -/',
         'set_option maxRecDepth 100000', 'set_option linter.unusedSimpArgs false', 'set_option linter.unusedVariables false',
         'namespace Sm9.GenL', 'open Sm9', '']
    names, unproved = [], []
    param_eqs = []
    for p in meta['params']:
        m = PARAMS_MODEL.get(p['name'])
        if m:
            L.append(f"theorem params_{p['name']}_equiv : Sm9.Gen.L.{p['name']}.P = {m} := rfl")
            names.append(f"params_{p['name']}_equiv")
            param_eqs.append(f"params_{p['name']}_equiv")
    L.append('')
    for o in meta['obligations']:
        hyps = ' '.join(f'(h{i} : {h})' for i, h in enumerate(o['hyps']))
        nm = o['name'].replace('.', '_')
        L.append(f"/-- in-range obligation left by the translator for `{o['name'].rsplit('.', 1)[0]}` -/")
        L.append(f"theorem {nm} {o['binders']} {hyps} : {o['goal']} := by limb_bound")
        names.append(nm)
    L.append('')
    proved = set()
    for f in meta['fns']:
        key = f['key']
        g = f['lean']
        for note in f['notes']:
            L.append(f'-- note ({key}): {note}')
        eqs = [thm_name(c) for c in f['calls'] if c in proved]
        missing = [c for c in f['calls'] if c not in proved]
        if key.startswith('Fq.') or key.startswith('Fr.'):
            eqs += param_eqs + ['Sm9.FqL.P', 'Sm9.FqL.is_one']
        ok = True
        eqs0 = list(eqs)
        for aux in f['aux']:
            m = re.match(r'(\S+)\s*(.*)$', aux)
            aname = m.group(1)
            ps = re.findall(r'\((\w+) : [^)]*\)', m.group(2))
            akey = aname
            if akey not in AUX:
                L.append(f'-- {akey}: while loop without a configured model counterpart (NO THEOREM)')
                unproved.append(akey)
                ok = False
                continue
            stmt, proof = AUX[akey]
            gl = 'Sm9.Gen.L.' + aname
            fmt = dict(g=gl, ps=' '.join(ps), args=' '.join(ps), eqs=', '.join(eqs))
            nm = thm_name(akey)
            L.append(f"theorem {nm} (fuel : Nat) : {stmt.format(*ps, **fmt)} := by {proof.format(*ps, **fmt)}")
            names.append(nm)
            eqs = eqs + [nm]
        if key not in MODEL:
            L.append(f'-- {key}: translated, but no model counterpart is configured in tools/gen_limb_equiv.py (NO THEOREM)')
            unproved.append(key)
            continue
        if missing:
            L.append(f"-- {key}: calls {', '.join(missing)} whose equivalence is not available")
        rhs, hyps, tac = MODEL[key]
        ps = [p[0] for p in f['params']]
        rhs = rhs.format(*ps)
        binders = ' '.join(f'({n} : {t})' for n, t in f['params'])
        hy = ' '.join(f'(h{i} : {h.format(*ps)})' for i, h in enumerate(hyps))
        nm = thm_name(key)
        fmt = dict(g=g, eqs=', '.join(eqs), eqs0=', '.join(eqs0))
        mm = re.match(r'\(?(Sm9\.[\w.]+)', rhs)
        if key in SPECIAL:
            proof = SPECIAL[key].format(*ps, **fmt)
        elif key in HEAVY:
            proof = f"limb_heavy {g}"
        elif tac:
            proof = f"{tac} {g} [{', '.join(eqs)}]"
        elif mm and not rhs.startswith('((') and f['partial']:
            proof = f"limb_partial {g} {mm.group(1)} [{', '.join(eqs)}]"
        elif mm and not rhs.startswith('(('):
            proof = f"limb_equiv {g} {mm.group(1)} [{', '.join(eqs)}]"
        else:
            proof = f"limb_spec {g} [{', '.join(eqs)}]"
        L.append(f"theorem {nm} {binders} {hy} : {g} {' '.join(ps)} = {rhs} := by {proof}")
        names.append(nm)
        proved.add(key)
    L.append('')
    for key, status in sorted(rep.items()):
        if status != 'translated':
            L.append(f'-- {key}: {status}')
    L += ['', 'end Sm9.GenL', '']
    text = '\n'.join(L)
    path = os.path.join(gen_dir, 'LimbEquiv.lean')
    if not os.path.exists(path) or open(path).read() != text:
        open(path, 'w').write(text)
    translated = {f['key'] for f in meta['fns']}
    missing = sorted(k for k in MODEL if k not in translated)
    print(json.dumps({'limb_equiv_theorems': len(names), 'limb_no_theorem': unproved, 'limb_model_functions_not_translated': missing}))


if __name__ == '__main__':
    main(sys.argv[1])
