#!/usr/bin/env python3
"""Generate Sm9/Gen/LimbEquiv.lean from Sm9/Gen/limb_meta.json + limb_report.json (written by rs2lean's
limb module): one theorem per function translated from the *current* arith.rs / u256.rs / u512.rs /
fields/fp.rs (+ FieldElement::pow of fields.rs) stating that it equals the hand-written limb model
(Sm9/Model/{Limbs,Mont}.lean) for all inputs, plus one theorem per obligation the translator could not decide
statically (array index, shift amount, slice bound, equal lengths, no underflow, `isSome`).
Regenerated on every run.   usage: gen_limb_equiv.py <lean/Sm9/Gen>"""
import json, sys, os, re

# key -> dict(rhs=..., hyps=[...], tac=..., lhs=..., proof=...)
#   rhs   model right-hand side; `{0}`, `{1}`, ... are the parameters of the generated definition, in order
#         (so a renamed Rust parameter does not matter).  A right-hand side that is not a model function is a
#         hand-written specification (the model has no separate definition for that Rust function): SPEC.
#   hyps  explicit hypotheses (values of Rust type U256 are < 2^256, ...)
#   tac   tactic name taking `G [eqs]`; default: limb_equiv / limb_partial / limb_spec chosen from the shape
#   nf    model-side normal-form lemma to rewrite with first (hand-proved in LimbEquivTactics.lean)
#   lhs   left-hand side if it is not simply `G params`
#   proof full tactic script (`{g}` generated definition, `{eqs}` equivalences of the callees, `{0}`.. parameters)
def M(rhs, hyps=(), **kw):
    d = dict(rhs=rhs, hyps=list(hyps))
    d.update(kw)
    return d

MODEL = {
    'Arith.adc': M('Sm9.Limb.adc B64 {0} {1} {2}'),
    'Arith.mac': M('Sm9.Limb.mac B64 {0} {1} {2} {3}'),
    'Arith.sbb': M('(((({0} + 2 ^ 128 - ({1} + {2} >>> 63)) % 2 ^ 128) % B64), ((({0} + 2 ^ 128 - ({1} + {2} >>> 63)) % 2 ^ 128) / B64))'),  # SPEC
    'Arith.mac_discard': M('(Sm9.Limb.mac B64 {0} {1} {2} 0).2'),  # SPEC (old carry is ignored)
    'Arith.mac_with_carry_macro': M('((Sm9.Limb.mac B64 {0} {1} {2} {3}).2, (Sm9.Limb.mac B64 {0} {1} {2} {3}).1)'),
    'Arith.adc_macro': M('((Sm9.Limb.adc B64 {0} {1} {2}).2, (Sm9.Limb.adc B64 {0} {1} {2}).1)'),
    'U256.zero': M('(0 : Nat)'),  # SPEC
    'U256.one': M('(1 : Nat)'),  # SPEC
    'U256.is_zero': M('({0} == 0)'),  # SPEC
    'U256.is_one': M('({0} == 1)'),  # SPEC
    'U256.is_even': M('Sm9.Big.is_even {0}'),
    'U256.is_odd': M('Sm9.Big.is_odd {0}'),
    'U256.set_bit': M('Sm9.U256.set_bit {0} {1} {2}', ['{0} < W256'], tac='limb_set_bit'),
    'U256.get_bit': M('Sm9.U256.get_bit {0} {1}'),
    'U256.subtract_modulus_with_carry': M('Sm9.U256.subtract_modulus_with_carry {0} {1} {2}'),
    'U256.add_carry': M('Sm9.U256.add_carry {0} {1} {2}'),
    'U256.add': M('Sm9.U256.add {0} {1} {2}'),
    'U256.sub': M('Sm9.U256.sub {0} {1} {2}'),
    'U256.mul2': M('Sm9.U256.mul2 {0} {1}'),
    'U256.div2': M('Sm9.U256.div2 {0} {1}'),
    'U256.neg': M('Sm9.U256.neg {0} {1}'),
    'U256.mul_without_cond_subtract': M('Sm9.U256.mul_without_cond_subtract {0} {1} {2} {3}'),
    'U256.mul': M('Sm9.U256.mul {0} {1} {2} {3}'),
    'U256.square': M('Sm9.U256.square {0} {1} {2}'),
    'U256.invert': M('Sm9.U256.invert {0} {1} {2}'),
    'U256.from_slice': M('Sm9.U256.from_slice {0}', nf='Bytes.from_slice32_nf'),
    # the model takes the length of the output buffer instead of the buffer
    'U256.to_big_endian': M('Sm9.U256.to_big_endian {0} (List.length {1})', lhs='Option.map (fun _ => ({g} {0} {1}).1) ({g} {0} {1}).2'),
    'BitIterator.next': M('Bits.nextSpec {0}'),  # SPEC (hand-written in LimbEquivTactics.lean)
    'U256.bits': M('({0}, 256)'),  # SPEC
    'U256.bits_without_leading_zeros': M('bitsMSB {0}', ['{0} < W256'], proof="""
  unfold {g}
  have e : Sm9.Gen.L.BitIterator.next = Bits.nextSpec := funext BitIterator_next_equiv
  rw [e]
  exact Bits.bits_nf {0} h0"""),
    'U512.random': M('(List.drop 8 {0}, Limb.value B64 (List.take 8 {0}))'),  # SPEC (a script of drawn u64s, as the model's Fp.random)
    'U256.random': M('(List.drop 8 {0}, (Sm9.U512.divrem (Limb.value B64 (List.take 8 {0})) {1}).1.2)', ['{1} < W256']),  # SPEC
    'U512.from_slice': M('Sm9.U512.from_slice {0}', nf='Bytes.from_slice64_nf'),
    'U512.new': M('Sm9.U512.new {0} {1} {2}', ['{0} < W256', '{2} < W256'], nf='(U512L.new_model_nf _ _ _ h0 h1)'),
    # the loop body is compared under the invariant "the quotient so far is < 2^256" (needed for `set_bit`)
    'U512.divrem': M('Sm9.U512.divrem {0} {1}', ['{1} < W256'], proof="""
  unfold {g} Sm9.U512.divrem
  simp only [U256_zero_equiv, U512_bit_length_equiv]
  obtain ⟨hfold, hinv⟩ := U512L.foldl_congr_inv U512L.QInv (fun st x => Sm9.Gen.L.U512.divrem.for1 {0} {1} st x) (Sm9.U512.divStep {0} {1})
    (fun s x hs => U512_divrem_for1_equiv {0} {1} s x hs) (fun s x hs => U512L.divStep_inv {0} {1} s x hs)
    (List.reverse (List.range (Big.num_bits {0}))) (some 0, 0) U512L.QInv_init
  rw [hfold]
  generalize List.foldl (Sm9.U512.divStep {0} {1}) (some 0, 0) (List.range (Big.num_bits {0})).reverse = st at hinv ⊢
  obtain ⟨q, r⟩ := st
  cases q with
  | none => rfl
  | some qv =>
    have hqv : qv < W256 := hinv qv rfl
    simp only [U512_new_equiv _ _ _ hqv h0, U512L.beq_comm_nat {0}]
    (repeat' split) <;> first | rfl | simp_all"""),
    'U512.bit_length': M('Sm9.Big.num_bits {0}'),
    'U512.get_bit': M('(if {1} ≥ 512 then none else some (Sm9.Big.get_bit {0} {1}))'),  # SPEC
    'U512.one': M('(1 : Nat)'),  # SPEC
    'U512.interpret': M('(Outcome.unwrap (Sm9.U512.from_slice {0}))'),  # SPEC (inlined in the model's Fp.interpret)
    'Fp.into_u256': M('Sm9.Fp.into_u256 {0} {1}'),
    'Fp.zero': M('Sm9.Fp.zero'),
    'Fp.is_zero': M('Sm9.Fp.is_zero {1}'),
    'Fp.one': M('Sm9.Fp.one {0}'),
    'Fp.is_one': M('({1} == Sm9.Fp.one {0})'),  # SPEC (FqL.is_one at P = paramsQ)
    'Fp.new': M('Sm9.Fp.new {0} {1}'),
    'Fp.new_mul_factor': M('Sm9.Fp.new_mul_factor {0} {1}'),
    'Fp.add_inplace': M('Sm9.Fp.add {0} {1} {2}'),
    'Fp.sub_inplace': M('Sm9.Fp.sub {0} {1} {2}'),
    'Fp.mul_inplace': M('Sm9.Fp.mul {0} {1} {2}'),
    'Fp.neg_inplace': M('Sm9.Fp.neg {0} {1}'),
    'Fp.inverse': M('Sm9.Fp.inverse {0} {1}'),
    'Fp.double': M('Sm9.Fp.double {0} {1}'),
    'Fp.triple': M('Sm9.Fp.triple {0} {1}'),
    'Fp.squared': M('Sm9.Fp.squared {0} {1}'),
    'Fp.set_bit': M('(Sm9.Fp.set_bit {0} {1} {2} {3})', ['Sm9.Fp.into_u256 {0} {1} < W256']),
    'Fp.modulus': M('{0}.modulus'),  # SPEC
    'Fp.raw': M('{1}'),  # SPEC
    'Fp.from_slice': M('Sm9.Fp.from_slice {0} {1}'),
    'Fp.to_slice': M('(Outcome.ok (Sm9.Fp.to_slice {0} {1}))'),
    'Fp.interpret': M('Sm9.Fp.interpret {0} {1}', ['{0}.modulus < W256']),
    'Fr.from_hash': M('Sm9.FrL.from_hash {0}', proof="""
  unfold {g} Sm9.FrL.from_hash
  split
  · rfl
  · have hmin : min (64 - List.length {0}) 64 = 64 - List.length {0} := Nat.min_eq_left (Nat.sub_le _ _)
    simp (disch := limb_lt) only [{eqs}, List.take_replicate, hmin]
    cases Sm9.U512.from_slice (List.replicate (64 - List.length {0}) 0 ++ {0}) <;> simp"""),
    'Fp.from_str': M('Sm9.Fp.from_str {0} {1}', proof="""
  unfold {g} Sm9.Fp.from_str
  simp only [{eqs0}, Option.bind_fun_some]
  congr 1
  funext st c
  unfold Sm9.Gen.L.Fp.from_str.for1
  simp only [{eqs0}, Option.bind_fun_some]
  cases st with
  | none => rfl
  | some res =>
    simp only [Option.bind_some]
    cases hd : Char.isDigit c
    · simp
    · simp only [if_true]; kernel_rfl"""),
    'Fp.random': M('(List.drop 8 {1}, Sm9.Fp.random {0} {1})', ['{0}.modulus < W256']),
    'Fp.pow': M('Sm9.Fp.pow {0} {1} {2}', ['Sm9.Fp.into_u256 {0} {2} < W256']),
    'Fq.div2': M('Sm9.Fp.div2 Sm9.FqL.P {0}'),
    'Fq.sqrt': M('Sm9.FqL.sqrt {0}'),
    'Fq.sum_of_products': M('Sm9.FqL.sum_of_products {0} {1}', tac='limb_sop'),
}

PARAMS_MODEL = {'Fq': 'Sm9.paramsQ', 'Fr': 'Sm9.paramsR'}

# ---- lib.rs wrappers (`impl Fr`, `impl Fq`, FromStr, TryFrom, From<..> for [u8; 32]) --------------------------------
# For each wrapper: (a) `<name>_equiv` against the composition of limb-model functions, and (b) `<name>_refines`
# against the value-level API model (Sm9/Model/Api.lean, Prim.lean) through the abstraction
# "stored Montgomery value x < p denotes ofMont x = x·R⁻¹ mod p" (hand lemmas: Sm9/Proofs/LibScalar.lean).
# {PP} parameter set, {F} modulus, {N} value type, {om} abstraction, {ok} P.Ok, {fr}/{fq}: Api name prefix.
LIB_COMMON = ['from_slice', 'zero', 'one', 'pow', 'inverse', 'is_zero', 'interpret', 'to_slice', 'new_mul_factor', 'add_inplace', 'sub_inplace',
              'mul_inplace', 'neg_inplace', 'from_str', 'try_from', 'into_bytes']
LIB_EXPECTED = {'Fr': LIB_COMMON + ['from_hash', 'random', 'set_bit', 'into_bytes_ref'], 'Fq': LIB_COMMON + ['is_even', 'to_big_endian', 'sqrt', 'into_u256']}


def lib_entry(w, fn):
    PP, F, N, ok, pre = ('Sm9.paramsR', 'Consts.FR', 'Sm9.Fr', 'paramsR_ok', 'fr') if w == 'Fr' else ('Sm9.paramsQ', 'Consts.FQ', 'Sm9.Fq', 'paramsQ_ok', 'fq')
    om = N + '.ofMont'
    A = f'Lib{w}_{fn}_equiv'
    into_lt_W = lambda x: f'(lt_trans (Sm9.Fp.into_lt {ok} {x} (by assumption)) {ok}.lt)'
    binop = {'add_inplace': ('add', '+'), 'sub_inplace': ('sub', '-'), 'mul_inplace': ('mul', '*')}
    T = {
      'zero': dict(rhs='Sm9.Fp.zero', b=f'{om} {{g}} = 0 ∧ {{g}} < {F}', bp=f'rw [{A}]; exact ⟨{N}.ofMont_zero, {N}.zero_canon⟩'),
      'one': dict(rhs=f'Sm9.Fp.one {PP}', b=f'{om} {{g}} = 1 ∧ {{g}} < {F}', bp=f'rw [{A}]; exact ⟨{N}.ofMont_one, {N}.one_canon⟩'),
      'pow': dict(rhs=f'Sm9.Fp.pow {PP} {{0}} {{1}}', hyps=[f'Sm9.Fp.into_u256 {PP} {{1}} < W256'], bh=[f'{{0}} < {F}', f'{{1}} < {F}'],
                  b=f'{{g}} {{0}} {{1}} < {F} ∧ {om} ({{g}} {{0}} {{1}}) = ({om} {{0}}).pow ({om} {{1}}).val',
                  bp=f'rw [{A} _ _ {into_lt_W("{1}")}, {N}.ofMont_val {{1}} h1]; exact {N}.pow_refines {{0}} {{1}} h0'),
      'inverse': dict(rhs=f'Sm9.Fp.inverse {PP} {{0}}', bh=[f'{{0}} < {F}'],
                  b=f'∃ o, {{g}} {{0}} = some o ∧ o.map {om} = ({om} {{0}}).inverse ∧ ∀ y, o = some y → y < {F}',
                  bp=f'rw [{A}]; exact {N}.inverse_refines {{0}} h0'),
      'is_zero': dict(rhs='Sm9.Fp.is_zero {0}', bh=[f'{{0}} < {F}'], b=f'{{g}} {{0}} = ({om} {{0}}).is_zero', bp=f'rw [{A}]; exact {N}.is_zero_refines {{0}} h0'),
      'interpret': dict(rhs=f'Sm9.Fp.interpret {PP} {{0}}', bh=['List.length {0} = 64'],
                  b=f'∃ y, {{g}} {{0}} = Outcome.ok y ∧ y < {F} ∧ {om} y = {N}.ofNat (beVal {{0}})', bp=f'rw [{A}]; exact {N}.interpret_refines {{0}} h0'),
      'to_slice': dict(rhs=f'(Outcome.ok (Sm9.Fp.to_slice {PP} {{0}}))', bh=[f'{{0}} < {F}'],
                  b=f'{{g}} {{0}} = Outcome.ok (Sm9.Api.{pre}ToSlice ({om} {{0}}))', bp=f'rw [{A}, {N}.to_slice_refines {{0}} h0]'),
      'new_mul_factor': dict(rhs=f'Sm9.Fp.new_mul_factor {PP} {{0}}', bh=['{0} < W256'],
                  b=f'{{g}} {{0}} < {F} ∧ {om} ({{g}} {{0}}) = {N}.ofNat {{0}}', bp=f'rw [{A}]; exact {N}.new_mul_factor_refines {{0}} h0'),
      'neg_inplace': dict(rhs=f'Sm9.Fp.neg {PP} {{0}}', bh=[f'{{0}} < {F}'],
                  b=f'{{g}} {{0}} < {F} ∧ {om} ({{g}} {{0}}) = - {om} {{0}}', bp=f'rw [{A}]; exact {N}.neg_refines {{0}} h0'),
      'from_str': dict(rhs=f'Sm9.Fp.from_str {PP} {{0}}',
                  b=f'({{g}} {{0}}).map {om} = Sm9.Api.{pre}FromStr {{0}} ∧ ∀ y, {{g}} {{0}} = some y → y < {F}', bp=f'rw [{A}]; exact {N}.from_str_refines {{0}}'),
      'from_slice': dict(rhs=f'Sm9.Fp.lib_from_slice {PP} {{0}}',
                  b=f'∃ o, {{g}} {{0}} = Outcome.ok o ∧ o.map {om} = Sm9.Api.{pre}FromSlice {{0}} ∧ ∀ y, o = some y → y < {F}', bp=f'rw [{A}]; exact {N}.lib_from_slice_refines {{0}}'),
    }
    T['try_from'] = T['from_slice']
    T['into_bytes'] = T['to_slice']
    T['into_bytes_ref'] = T['to_slice']
    for k, (m, op) in binop.items():
        T[k] = dict(rhs=f'Sm9.Fp.{m} {PP} {{0}} {{1}}', bh=[f'{{0}} < {F}', f'{{1}} < {F}'],
                    b=f'{{g}} {{0}} {{1}} < {F} ∧ {om} ({{g}} {{0}} {{1}}) = {om} {{0}} {op} {om} {{1}}', bp=f'rw [{A}]; exact {N}.{m}_refines {{0}} {{1}} h0 h1')
    if w == 'Fr':
        T['from_hash'] = dict(rhs='Sm9.FrL.from_hash {0}',
                  b=f'∃ o, {{g}} {{0}} = Outcome.ok o ∧ o.map {om} = Sm9.Api.frFromHash {{0}} ∧ ∀ y, o = some y → y < {F}', bp=f'rw [{A}]; exact Sm9.Fr.from_hash_refines {{0}}')
        T['random'] = dict(rhs=f'(List.drop 8 {{0}}, Sm9.Fp.random {PP} {{0}})',
                  b=f'({{g}} {{0}}).2 = Sm9.Api.frRandomRaw {{0}} ∧ ({{g}} {{0}}).2 < {F} ∧ ({{g}} {{0}}).1 = List.drop 8 {{0}}',
                  bp=f'rw [{A}]; exact ⟨(Sm9.Fr.random_refines {{0}}).2, (Sm9.Fr.random_refines {{0}}).1, rfl⟩')
        T['set_bit'] = dict(rhs=f'(Sm9.Fp.set_bit {PP} {{0}} {{1}} {{2}})', hyps=[f'Sm9.Fp.into_u256 {PP} {{0}} < W256'], bh=[f'{{0}} < {F}'],
                  b=f'{{g}} {{0}} {{1}} {{2}} < {F} ∧ {om} ({{g}} {{0}} {{1}} {{2}}) = Sm9.Api.frSetBit ({om} {{0}}) {{1}} {{2}}',
                  bp=f'rw [{A} _ _ _ {into_lt_W("{0}")}]; exact Sm9.Fr.set_bit_refines {{0}} {{1}} {{2}} h0')
    else:
        T['into_u256'] = dict(rhs=f'Sm9.Fp.into_u256 {PP} {{0}}', bh=[f'{{0}} < {F}'], b=f'{{g}} {{0}} = ({om} {{0}}).val', bp=f'rw [{A}]; exact {N}.into_u256_refines {{0}} h0')
        T['is_even'] = dict(rhs=f'Sm9.Big.is_even (Sm9.Fp.into_u256 {PP} {{0}})', bh=[f'{{0}} < {F}'], b=f'{{g}} {{0}} = ({om} {{0}}).is_even', bp=f'rw [{A}]; exact {N}.is_even_refines {{0}} h0')
        T['sqrt'] = dict(rhs='Sm9.FqL.sqrt {0}', bh=[f'{{0}} < {F}'],
                  b=f'({{g}} {{0}}).map {om} = ({om} {{0}}).sqrt ∧ ∀ y, {{g}} {{0}} = some y → y < {F}', bp=f'rw [{A}]; exact {N}.sqrt_refines {{0}} h0')
        T['to_big_endian'] = dict(rhs=f'Sm9.U256.to_big_endian (Sm9.Fp.into_u256 {PP} {{0}}) (List.length {{1}})', lhs='Option.map (fun _ => ({g} {0} {1}).1) ({g} {0} {1}).2', bh=[f'{{0}} < {F}'],
                  b=f'Option.map (fun _ => ({{g}} {{0}} {{1}}).1) ({{g}} {{0}} {{1}}).2 = Sm9.Api.fqToBigEndian ({om} {{0}}) (List.length {{1}})',
                  bp=f'rw [{A}]; exact {N}.to_big_endian_refines {{0}} h0 _')
    return T.get(fn)


# auxiliary definitions: ('fuel' | 'body', statement, proof).
#   'fuel': one per `while` loop; the theorem is stated as `(fuel : Nat) : ∀ params, ...`
#   'body': one per dynamic `for` loop; the parameters of the body definition are the theorem's binders
# `{g}` the auxiliary definition, `{0}`.. its parameters, `{eqs}` the callee equivalences.
AUX = {
    'U256.add_carry.loop1': ('fuel', '∀ ({ps} : Nat), {g} fuel {args} = Sm9.U256.add_carry fuel {0} {1}', 'limb_loop fuel {g} Sm9.U256.add_carry [{eqs}]'),
    'U256.invert.loop2': ('fuel', '∀ ({ps} : Nat), {g} fuel {args} = Sm9.U256.halve fuel {0} {1} {2}', 'limb_loop fuel {g} Sm9.U256.halve [{eqs}]'),
    'U256.invert.loop3': ('fuel', '∀ ({ps} : Nat), {g} fuel {args} = Sm9.U256.halve fuel {0} {1} {2}', 'limb_loop fuel {g} Sm9.U256.halve [{eqs}]'),
    # the model's outer loop also performs the final selection `if u == 1 then b else c`
    'U256.invert.loop1': ('fuel', '∀ ({ps} : Nat), Option.map (fun (s : Nat × Nat × Nat × Nat) => if s.1 == 1 then s.2.2.1 else s.2.2.2) ({g} fuel {args}) = Sm9.U256.invLoop fuel {0} {1} {2} {3} {4}',
        """
  induction fuel with
  | zero => intros; rfl
  | succ k ih =>
    intro u v b c m
    unfold {g} Sm9.U256.invLoop
    simp only [{eqs}, bne]
    by_cases hc : (!u == 1 && !v == 1) = true
    case neg => rw [if_neg hc, if_neg hc]; rfl
    rw [if_pos hc, if_pos hc]
    cases Sm9.U256.halve 600 u b m with
    | none => rfl
    | some p =>
      cases Sm9.U256.halve 600 v c m with
      | none => rfl
      | some q =>
        simp only [Option.bind_some]
        split <;> simp [← ih, *]"""),
}

AUX['U512.divrem.for1'] = ('body', '∀ (st : Option Nat × Nat) (i : Nat), U512L.QInv st → {g} {0} {1} st i = Sm9.U512.divStep {0} {1} st i', """
  intro ⟨q, r⟩ i hq
  unfold {g} Sm9.U512.divStep
  have hr : (Big.mul2 W256 r).1 < W256 := by simp only [Big.mul2, W256]; omega
  cases q with
  | none =>
    simp (disch := limb_lt) only [U256_set_bit_equiv _ _ _ hr]
    (repeat' split) <;> limb_fin []
  | some q0 =>
    have hq0 : q0 < W256 := hq q0 rfl
    simp (disch := limb_lt) only [U256_set_bit_equiv _ _ _ hr, U256_set_bit_equiv _ _ _ hq0]
    (repeat' split) <;> limb_fin []""")

# fully unrolled carry chains: evaluate both sides in the kernel, do not rewrite inside the big term
HEAVY = {'U256.mul_without_cond_subtract', 'U256.square'}

# main theorems that need more than the generic tactic
SPECIAL = {
    'U256.invert': """
  unfold {g} Sm9.U256.invert
  simp only [← U256_invert_loop1_equiv, {eqs0}]
  cases Sm9.Gen.L.U256.invert.loop1 1200 {0} {1} {2} 0 {1} <;> simp""",
}

OMIT = set(filter(None, os.environ.get('LIMB_OMIT', '').split(',')))


def thm_name(key):
    return key.replace('.', '_') + '_equiv'


def main(gen_dir):
    rep = json.load(open(os.path.join(gen_dir, 'limb_report.json')))
    meta = json.load(open(os.path.join(gen_dir, 'limb_meta.json')))
    L = ['-- GENERATED by tools/gen_limb_equiv.py on every run — do not edit.',
         'import Sm9.Gen.LimbRust', 'import Sm9.Gen.LimbEquivTactics',
         '/-! Every limb-level definition translated from the current Rust source equals the hand-written limb model. -/',
         'set_option maxRecDepth 100000', 'set_option linter.unusedSimpArgs false', 'set_option linter.unusedVariables false',
         'namespace Sm9.GenL', 'open Sm9', '']
    names, unproved = [], []
    param_eqs = []
    for p in meta['params']:
        m = PARAMS_MODEL.get(p['name'])
        if m:
            L.append(f"theorem params_{p['name']}_equiv : Sm9.Gen.L.{p['name']}.P = {m} := rfl")
            names.append(f"params_{p['name']}_equiv")
            param_eqs.append(f"params_{p['name']}_equiv")
    L.append('')
    for o in meta['obligations']:
        hyps = ' '.join(f'(h{i} : {h})' for i, h in enumerate(o['hyps']))
        nm = o['name'].replace('.', '_')
        L.append(f"/-- obligation left by the translator for `{o['name'].rsplit('.', 1)[0]}` -/")
        L.append(f"theorem {nm} {o['binders']} {hyps} : {o['goal']} := by limb_bound")
        names.append(nm)
    L.append('')
    proved = set()
    for f in meta['fns']:
        key = f['key']
        g = f['lean']
        for note in f['notes']:
            L.append(f'-- note ({key}): {note}')
        eqs = [thm_name(c) for c in f['calls'] if c in proved]
        missing = [c for c in f['calls'] if c not in proved]
        if key.startswith('Fq.') or key.startswith('Fr.'):
            eqs += param_eqs + ['Sm9.FqL.P', 'Sm9.FqL.is_one', 'Sm9.FrL.P']
        eqs0 = list(eqs)
        for aux in f['aux']:
            m = re.match(r'(\S+)\s*(.*)$', aux)
            aname = m.group(1)
            pts = re.findall(r'\((\w+) : ([^)]*)\)', m.group(2))
            ps = [p[0] for p in pts]
            gl = 'Sm9.Gen.L.' + aname
            if aname not in AUX:
                if '.for' in aname:
                    eqs = eqs + [gl]   # loop body without a model counterpart of its own: unfolded in place
                else:
                    L.append(f'-- {aname}: while loop without a configured model counterpart (NO THEOREM)')
                    unproved.append(aname)
                continue
            kind, stmt, proof = AUX[aname]
            fmt = dict(g=gl, ps=' '.join(ps), args=' '.join(ps), eqs=', '.join(eqs))
            nm = thm_name(aname)
            binders = '(fuel : Nat)' if kind == 'fuel' else ' '.join(f'({n} : {t})' for n, t in pts)
            L.append(f"theorem {nm} {binders} : {stmt.format(*ps, **fmt)} := by {proof.format(*ps, **fmt)}")
            names.append(nm)
            eqs = eqs + [nm]
        lib = None
        if key.startswith('LibFr.') or key.startswith('LibFq.'):
            lib = lib_entry(key[3:5], key.split('.', 1)[1])
            if lib is not None:
                MODEL[key] = M(lib['rhs'], lib.get('hyps', []), tac='limb_lib', **({'lhs': lib['lhs']} if 'lhs' in lib else {}))
                eqs = eqs + param_eqs + ['Sm9.FqL.P', 'Sm9.FrL.P']
        if key not in MODEL or key in OMIT:
            L.append(f'-- {key}: translated, but no model counterpart is configured in tools/gen_limb_equiv.py (NO THEOREM)')
            unproved.append(key)
            continue
        if missing:
            L.append(f"-- {key}: calls {', '.join(missing)} whose equivalence is not available")
        e = MODEL[key]
        ps = [p[0] for p in f['params']]
        rhs = e['rhs'].format(*ps)
        binders = ' '.join(f'({n} : {t})' for n, t in f['params'])
        hy = ' '.join(f'(h{i} : {h.format(*ps)})' for i, h in enumerate(e['hyps']))
        nm = thm_name(key)
        fmt = dict(g=g, eqs=', '.join(eqs), eqs0=', '.join(eqs0))
        lhs = e['lhs'].format(*ps, **fmt) if 'lhs' in e else f"{g} {' '.join(ps)}"
        mm = re.match(r'\(?(Sm9\.[\w.]+)', rhs)
        elist = ', '.join(eqs)
        if 'proof' in e:
            proof = e['proof'].format(*ps, **fmt)
        elif key in SPECIAL:
            proof = SPECIAL[key].format(*ps, **fmt)
        elif key in HEAVY:
            proof = f"limb_heavy {g}"
        elif 'nf' in e:
            proof = f"limb_nf {g} [{elist}] {e['nf']}"
        elif 'tac' in e:
            proof = f"{e['tac']} {g} [{elist}]"
        elif mm and not rhs.startswith('((') and (f['partial'] or f.get('panics')):
            proof = f"limb_partial {g} {mm.group(1)} [{elist}]"
        elif mm and not rhs.startswith('(('):
            proof = f"limb_equiv {g} {mm.group(1)} [{elist}]"
        else:
            proof = f"limb_spec {g} [{elist}]"
        L.append(f"theorem {nm} {binders} {hy} : {lhs} = {rhs} := by {proof}")
        names.append(nm)
        proved.add(key)
        if lib is not None:
            # (b) value-level refinement
            bh = ' '.join(f'(h{i} : {h.format(*ps)})' for i, h in enumerate(lib.get('bh', [])))
            stmt = lib['b'].format(*ps, g=g)
            bproof = lib['bp'].format(*ps, g=g)
            rn = key.replace('.', '_') + '_refines'
            L.append(f"theorem {rn} {binders} {bh} : {stmt} := by {bproof}")
            names.append(rn)
    L.append('')
    for key, status in sorted(rep.items()):
        if status != 'translated':
            L.append(f'-- {key}: {status}')
    L += ['', 'end Sm9.GenL', '']
    text = '\n'.join(L)
    path = os.path.join(gen_dir, 'LimbEquiv.lean')
    if not os.path.exists(path) or open(path).read() != text:
        open(path, 'w').write(text)
    translated = {f['key'] for f in meta['fns']}
    expected = set(MODEL)
    for w in ('Fr', 'Fq'):
        for fn in LIB_EXPECTED[w]:
            expected.add(f'Lib{w}.{fn}')
    missing = sorted(k for k in expected if k not in translated)
    print(json.dumps({'limb_equiv_theorems': len(names), 'limb_no_theorem': unproved, 'limb_model_functions_not_translated': missing}))


if __name__ == '__main__':
    main(sys.argv[1])
