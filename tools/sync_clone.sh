#!/bin/sh
# developer tool: bring the private evaluation clone (/tmp/vf2, repo copy /tmp/repo2) up to date with /verif
rsync -a --exclude .lake --exclude target --exclude .work --exclude .git --exclude 'harness/Cargo.toml' --exclude evidence \
  --exclude 'lean/Sm9/Gen/Consts.lean' --exclude 'lean/Sm9/Gen/Rust.lean' --exclude 'lean/Sm9/Gen/Equiv.lean' --exclude 'lean/Sm9/Gen/LimbRust.lean' \
  --exclude 'lean/Sm9/Gen/LimbEquiv.lean' --exclude 'lean/Sm9/Gen/*.json' --exclude 'lean/Sm9/Audit' /verif/ /tmp/vf2/
cp /verif/rs2lean/target/release/rs2lean /tmp/vf2/rs2lean/target/release/rs2lean
