"""Orchestrator behind ./check — see DESIGN.md §5."""
import sys, os, json, time, subprocess, random, hashlib, fcntl, re, shutil, glob

VERIF = os.path.dirname(os.path.dirname(os.path.abspath(__file__)))
REPO = os.environ.get('VERIF_REPO', '/repo')
LEAN = os.path.join(VERIF, 'lean')
HARNESS = os.path.join(VERIF, 'harness')
WORKROOT = os.path.join(VERIF, '.work')
GUARD = 'john_yu_sm9_core_verif'
ALLOWED_AXIOMS = {'propext', 'Classical.choice', 'Quot.sound'}
FORBIDDEN = re.compile(r'\b(sorry|admit|native_decide|bv_decide|implemented_by|unsafe)\b|^\s*axiom\s|maxHeartbeats\s+0\b', re.M)

import gen
import fingerprint

PROPS = ['C%02d' % i for i in range(1, 19)]

TRUSTED_BASE = [
    'Lean 4.33 kernel; Mathlib v4.33 as a library of proved statements',
    'axioms allowed in any property theorem: propext, Classical.choice, Quot.sound (audited by #print axioms on every run); no native_decide, no bv_decide, no sorry, no axioms of our own',
    'tools/extract_consts.py (constants are re-extracted from /repo/src on every run)',
    'rs2lean (syn-based translator) + tools/gen_equiv.py: the functions of the tower/group/pairing layers listed under tie.translated_functions are re-translated from /repo/src on every run and proved equal to the model definitions (Sm9/Gen/Equiv.lean)',
    'rs2lean limb module + tools/gen_limb_equiv.py: the carry-chain / Montgomery functions of arith.rs, u256.rs, u512.rs, fields/fp.rs listed under tie.limb_translated_functions are re-translated on every run (u64/u128 semantics made explicit; ark-ff BigInt primitives mapped to the trusted Big.* model functions) and proved equal to the limb-level model (Sm9/Gen/LimbEquiv.lean)',
    'tools/fingerprint.py: every other hand-modelled function is tied to the exact token stream it was written from; a changed function breaks the tie',
    'the correspondence check (harness + sm9drv): differential testing of model and spec against the compiled crate in two build profiles, bounded by its generators',
    'modelled, not verified: ark-ff BigInt primitives, byteorder, rand (as a u64 script), rustc integer/overflow/debug_assert/panic semantics, lazy_static, alloc::Vec',
]


def sh(cmd, cwd=None, env=None, timeout=None):
    e = dict(os.environ)
    e.update({'CARGO_NET_OFFLINE': 'true', 'PIP_NO_INDEX': '1', 'GOPROXY': 'off'})
    if env:
        e.update(env)
    p = subprocess.run(cmd, cwd=cwd, env=e, stdout=subprocess.PIPE, stderr=subprocess.STDOUT, timeout=timeout, text=True, errors='replace')
    return p.returncode, p.stdout


class Lock:
    def __init__(self, path):
        os.makedirs(os.path.dirname(path), exist_ok=True)
        self.f = open(path, 'w')
    def __enter__(self):
        fcntl.flock(self.f, fcntl.LOCK_EX)
    def __exit__(self, *a):
        fcntl.flock(self.f, fcntl.LOCK_UN)


# ---------------------------------------------------------------- Lean side
def prop_theorems(prop):
    """names of the theorems of Props/<prop>.lean, with their line numbers, and statements"""
    path = os.path.join(LEAN, 'Sm9', 'Props', prop + '.lean')
    if not os.path.exists(path):
        return path, []
    out = []
    ns = []
    text = open(path).read()
    # blank out comments, keeping line numbers
    text = re.sub(r'/-.*?-/', lambda m: re.sub(r'[^\n]', ' ', m.group(0)), text, flags=re.S)
    text = re.sub(r'--[^\n]*', '', text)
    for i, line in enumerate(text.splitlines(), 1):
        m = re.match(r'\s*namespace\s+([\w.]+)', line)
        if m:
            ns.append(m.group(1))
        m = re.match(r'\s*end\s+([\w.]+)', line)
        if m and ns and ns[-1] == m.group(1):
            ns.pop()
        m = re.match(r'\s*(?:@\[[^\]]*\]\s*)?theorem\s+([\w.\']+)', line)
        if m:
            out.append(('.'.join(ns + [m.group(1)]), i))
    return path, out


RS2LEAN = os.path.join(VERIF, 'rs2lean', 'target', 'release', 'rs2lean')

# which generated-equals-model theorems a property rests on (prefix of the theorem name in Gen/Equiv.lean)
EQUIV_PREFIX = {
    'C06': ['Arith_', 'params_'], 'C07': ['Arith_', 'params_'], 'C13': ['params_'], 'C18': ['Arith_'],
    'C12': ['Fq2_', 'Arith_', 'params_Fq'], 'C14': [], 'C11': ['Fq12_', 'Fq4_'], 'C17': ['Fq4_', 'Fq12_', 'G2m_', 'G2Prepared_'],
    'C04': ['G1_', 'G2_'], 'C05': ['G1_mul', 'G2_mul', 'G1_double', 'G2_double', 'G1_add', 'G2_add'],
    'C15': ['G1_eq', 'G2_eq', 'G1_to_affine', 'G2_to_affine', 'G1_is_zero', 'G2_is_zero', 'G1_zero', 'G2_zero'],
    'C16': ['G1_', 'G2_'], 'C09': ['G1_mul', 'G2_mul', 'G1_add', 'G2_add', 'G1_eq', 'G2_eq'],
    'C10': ['G1_to_affine', 'G2_to_affine'], 'C08': [],
    'C01': ['G2m_', 'Fq12_final', 'G2Prepared_'], 'C02': ['G2m_', 'Fq12_final', 'G2Prepared_', 'Fq12_'],
    'C03': ['G2m_', 'Fq12_final', 'G2Prepared_'],
}


_REL_CACHE = {}


def equiv_relevant(name, prop, all_names=(), layered=True):
    """does `prop` rest on the generated-equals-model theorem `name`?  By prefix table, or because the
    theorem covers a source function that the fingerprint rules (incl. the layer closure) attach to the property."""
    if any(name.startswith(p) for p in EQUIV_PREFIX.get(prop, [])):
        return True
    names = frozenset(all_names) | {name}
    ck = (prop, layered, names)
    if ck not in _REL_CACHE:
        try:
            golden = json.load(open(os.path.join(VERIF, 'fingerprints.json')))
        except Exception:
            golden = {}
        rel = set()
        for key in golden:
            if prop in fingerprint.props_of(key, layered):
                rel |= set(fp_cover(key, names) or [])
        _REL_CACHE[ck] = rel
    return name in _REL_CACHE[ck]


def run_translator(log, exclude=()):
    """returns {'ok': bool, 'report': {fn: status}, 'theorems': [names], 'error': str}"""
    gen = os.path.join(LEAN, 'Sm9', 'Gen')
    out = {'ok': False, 'report': {}, 'theorems': [], 'error': ''}
    if not os.path.exists(RS2LEAN):
        rc, o = sh(['cargo', 'build', '--offline', '--release'], cwd=os.path.join(VERIF, 'rs2lean'), timeout=1800)
        if rc != 0:
            out['error'] = 'rs2lean does not build: ' + o[-400:]
            return out
    # names of the functions the pinned table knows, per file: a function that is NOT among them is an added helper, which
    # the translator inlines into its callers (rs2lean/src/inline.rs)
    known_path = os.path.join(WORKROOT, 'known_fns.tsv')
    try:
        os.makedirs(WORKROOT, exist_ok=True)
        golden = json.load(open(os.path.join(VERIF, 'fingerprints.json')))
        with open(known_path, 'w') as f:
            for key in sorted(golden):
                rel, _, rest = key.partition('::')
                f.write(rel + '\t' + re.sub(r'#\d+$', '', rest.rpartition('::')[2]) + '\n')
    except Exception:
        known_path = ''
    rc, o = sh([RS2LEAN, os.path.join(REPO, 'src'), gen] + ([','.join(sorted(exclude))] if exclude else []), timeout=300,
               env=dict(os.environ, RS2LEAN_KNOWN=known_path, RS2LEAN_LOCALS=os.path.join(VERIF, 'local_names.tsv')))
    if rc != 0:
        out['error'] = 'rs2lean failed: ' + o[-400:]
        return out
    rc2, o2 = sh([sys.executable, os.path.join(VERIF, 'tools', 'gen_equiv.py'), gen], timeout=120)
    if rc2 != 0:
        out['error'] = 'gen_equiv failed: ' + o2[-400:]
        return out
    try:
        out['report'] = json.load(open(os.path.join(gen, 'rs2lean_report.json')))
    except Exception as e:
        out['error'] = f'report unreadable: {e}'
        return out
    txt = open(os.path.join(gen, 'Equiv.lean')).read()
    out['theorems'] = re.findall(r'^theorem\s+(\w+)', txt, flags=re.M)
    # limb level (arith.rs, u256.rs, u512.rs, fields/fp.rs): Gen/LimbRust.lean + Gen/LimbEquiv.lean
    out['limb_theorems'], out['limb_report'], out['limb_deps'] = [], {}, {}
    rc3, o3 = sh([sys.executable, os.path.join(VERIF, 'tools', 'gen_limb_equiv.py'), gen], timeout=120)
    if rc3 != 0:
        out['error'] = 'gen_limb_equiv failed: ' + o3[-400:]
        return out
    try:
        out['limb_report'] = json.load(open(os.path.join(gen, 'limb_report.json')))
        ltxt = open(os.path.join(gen, 'LimbEquiv.lean')).read()
        out['limb_theorems'] = re.findall(r'^theorem\s+(\w+)', ltxt, flags=re.M)
        # which earlier theorems each one uses (the rewrite lists of the generated proofs)
        blocks = re.split(r'^(?=theorem\s)', ltxt, flags=re.M)
        for b in blocks:
            m = re.match(r'theorem\s+(\w+)', b)
            if m:
                out['limb_deps'][m.group(1)] = sorted(set(re.findall(r'\b(\w+_equiv|params_\w+)\b', b)) - {m.group(1)})
    except Exception as e:
        out['error'] = f'limb report unreadable: {e}'
        return out
    out['ok'] = True
    log.append(('rs2lean', o.strip() + ' ' + o2.strip() + ' ' + o3.strip()))
    return out


def write_audit(prop, thms, equiv_names=(), with_equiv=True, limb_names=(), with_limb=True):
    path = os.path.join(LEAN, 'Sm9', 'Audit', prop + '.lean')
    text = f'import Sm9.Props.{prop}\n' + ('import Sm9.Gen.Equiv\n' if with_equiv else '') + ('import Sm9.Gen.LimbEquiv\n' if with_limb and limb_names else '') + \
        f'-- GENERATED by ./check: axiom audit of every theorem of Props/{prop}.lean and of the generated-equals-model theorems it rests on\n' + \
        ''.join(f'#print axioms {n}\n' for n, _ in thms) + ''.join(f'#print axioms Sm9.GenEquiv.{n}\n' for n in equiv_names) + \
        (''.join(f'#print axioms Sm9.GenL.{n}\n' for n in limb_names) if with_limb else '')
    if not os.path.exists(path) or open(path).read() != text:
        os.makedirs(os.path.dirname(path), exist_ok=True)
        open(path, 'w').write(text)
    return path


def strip_lean_comments(s):
    s = re.sub(r'/-.*?-/', '', s, flags=re.S)
    return re.sub(r'--[^\n]*', '', s)


def grep_gate():
    bad = []
    for path in glob.glob(os.path.join(LEAN, 'Sm9', '**', '*.lean'), recursive=True) + [os.path.join(LEAN, 'Main.lean')]:
        txt = strip_lean_comments(open(path).read())
        for m in FORBIDDEN.finditer(txt):
            bad.append(f'{os.path.relpath(path, LEAN)}: {m.group(0).strip()}')
    return bad


def lean_phase(prop, tier, log):
    """regenerate, build, audit.  Returns dict with per-theorem status."""
    res = {'theorems': [], 'build_ok': True, 'driver_ok': True, 'errors': [], 'gate': []}
    rc, out = sh([sys.executable, os.path.join(VERIF, 'tools', 'extract_consts.py'), REPO, os.path.join(LEAN, 'Sm9', 'Gen', 'Consts.lean')])
    log.append(('extract_consts', out.strip()))
    if rc != 0:
        res['build_ok'] = False
        res['driver_ok'] = False
        res['errors'].append('constant extraction failed: ' + out.strip()[-400:])
        return res
    # translator: regenerate Sm9/Gen/Rust.lean + Equiv.lean from the current source
    res['translator'] = run_translator(log)
    # a translated function whose generated text does not elaborate (e.g. the source now calls something
    # of another type) is left out and reported as untranslated, instead of taking every other function with it
    excl = set()
    for _round in range(3):
        if not res['translator']['ok']:
            break
        rcr, outr = sh(['lake', 'build', 'Sm9.Gen.Rust'], cwd=LEAN, timeout=1800)
        if rcr == 0:
            break
        gtxt = open(os.path.join(LEAN, 'Sm9', 'Gen', 'Rust.lean')).read().splitlines()
        gstarts = [(i + 1, re.match(r'def\s+([\w.]+)', l).group(1)) for i, l in enumerate(gtxt) if l.startswith('def ')]
        new = set()
        for l in outr.splitlines():
            m = re.match(r'error: (\S+?Gen/Rust\.lean):(\d+):(\d+): (.*)', l)
            if m:
                owner = [n for (st, n) in gstarts if st <= int(m.group(2))]
                if owner:
                    new.add(re.sub(r'\.frob\d+$', '.frobenius_map', owner[-1].rstrip('_') if owner[-1].endswith('from_') else owner[-1]))
        if not new or new <= excl:
            break
        excl |= new
        log.append(('rs2lean', 'generated text does not elaborate, left out: ' + ', '.join(sorted(new))))
        res['translator'] = run_translator(log, exclude=excl)
    path, thms = prop_theorems(prop)
    _all = res['translator'].get('theorems', []) + res['translator'].get('limb_theorems', [])
    # C18 (profile independence) rests on a value-level function only through "it still translates": the value-level
    # subset has no machine-integer arithmetic and no debug assertion, whatever the function now computes
    equiv_names = [n for n in res['translator'].get('theorems', []) if equiv_relevant(n, prop, _all, layered=(prop != 'C18'))]
    limb_names = [n for n in res['translator'].get('limb_theorems', []) if equiv_relevant(n, prop, _all)]
    # a limb theorem rests on the earlier ones it rewrites with
    deps = res['translator'].get('limb_deps', {})
    grow = True
    while grow:
        grow = False
        for n in list(limb_names):
            for d in deps.get(n, []):
                if d in deps and d not in limb_names:
                    limb_names.append(d); grow = True
    limb_names = [n for n in res['translator'].get('limb_theorems', []) if n in set(limb_names)]
    write_audit(prop, thms, equiv_names, limb_names=limb_names)
    t0 = time.time()
    rc, out = sh(['lake', 'build', 'sm9drv'], cwd=LEAN, timeout=3600)
    if rc != 0:
        res['driver_ok'] = False
        res['errors'].append('model driver does not build:\n' + '\n'.join(l for l in out.splitlines() if 'error' in l)[:2000])
    res['equiv'] = []
    rce, oute = sh(['lake', 'build', 'Sm9.Gen.Equiv'], cwd=LEAN, timeout=3600)
    equiv_failed = {}
    if rce != 0:
        etxt = open(os.path.join(LEAN, 'Sm9', 'Gen', 'Equiv.lean')).read().splitlines() if os.path.exists(os.path.join(LEAN, 'Sm9', 'Gen', 'Equiv.lean')) else []
        starts = [(i + 1, re.match(r'theorem\s+(\w+)', l).group(1)) for i, l in enumerate(etxt) if l.startswith('theorem')]
        generic = None
        for l in oute.splitlines():
            m = re.match(r'error: (\S+?\.lean):(\d+):(\d+): (.*)', l)
            if not m:
                continue
            if m.group(1).endswith('Equiv.lean'):
                ln = int(m.group(2))
                owner = [n for (st, n) in starts if st <= ln]
                if owner:
                    equiv_failed.setdefault(owner[-1], m.group(4))
            else:
                generic = f'{m.group(1)}:{m.group(2)}: {m.group(4)}'
        if generic and not equiv_failed:
            # the generated definitions themselves do not elaborate: every equivalence is unproved
            for n in res['translator'].get('theorems', []):
                equiv_failed[n] = 'generated definitions do not build: ' + generic
        elif equiv_failed:
            # leave the failing theorems out and rebuild, so that the others are still checked and audited
            sh([sys.executable, os.path.join(VERIF, 'tools', 'gen_equiv.py'), os.path.join(LEAN, 'Sm9', 'Gen'), ','.join(sorted(equiv_failed))], timeout=120)
            rce2, oute2 = sh(['lake', 'build', 'Sm9.Gen.Equiv'], cwd=LEAN, timeout=3600)
            if rce2 == 0:
                rce = 0
                pass
            else:
                for n in res['translator'].get('theorems', []):
                    equiv_failed.setdefault(n, 'Equiv.lean does not build even without the failing theorems')
    # limb-level equivalences
    limb_failed = {}
    rcl = 0
    if limb_names:
        rcl, outl = sh(['lake', 'build', 'Sm9.Gen.LimbEquiv'], cwd=LEAN, timeout=3600)
        if rcl != 0:
            ltxt = open(os.path.join(LEAN, 'Sm9', 'Gen', 'LimbEquiv.lean')).read().splitlines()
            lstarts = [(i + 1, re.match(r'theorem\s+(\w+)', l).group(1)) for i, l in enumerate(ltxt) if l.startswith('theorem')]
            lgeneric = None
            for l in outl.splitlines():
                m = re.match(r'error: (\S+?\.lean):(\d+):(\d+): (.*)', l)
                if not m:
                    continue
                if m.group(1).endswith('LimbEquiv.lean'):
                    owner = [n for (st, n) in lstarts if st <= int(m.group(2))]
                    if owner:
                        limb_failed.setdefault(owner[-1], m.group(4))
                else:
                    lgeneric = f'{m.group(1)}:{m.group(2)}: {m.group(4)}'
            if not limb_failed:
                for n in res['translator'].get('limb_theorems', []):
                    limb_failed[n] = 'generated limb-level definitions do not build: ' + (lgeneric or outl[-300:])
            else:
                # everything that rewrites with a failed theorem is unproved too
                grow = True
                while grow:
                    grow = False
                    for n, ds in deps.items():
                        if n not in limb_failed and any(d in limb_failed for d in ds):
                            limb_failed[n] = 'rests on ' + next(d for d in ds if d in limb_failed) + ', which no longer checks'
                            grow = True
            pass
    rc, out = sh(['lake', 'build', f'Sm9.Props.{prop}'], cwd=LEAN, timeout=7200)
    log.append(('lake build', f'{time.time()-t0:.1f}s rc={rc} equiv_rc={rce} limb_rc={rcl}'))
    failed_lines = []
    if rc != 0:
        res['build_ok'] = False
        for l in out.splitlines():
            m = re.match(r'error: (\S+?\.lean):(\d+):(\d+): (.*)', l)
            if m:
                failed_lines.append((m.group(1), int(m.group(2)), m.group(4)))
        res['errors'].append('\n'.join(l for l in out.splitlines() if l.startswith('error'))[:3000])
    axioms = {}
    # the audit file lists exactly what was built: a file that did not build cannot be imported
    write_audit(prop, thms, [n for n in equiv_names if n not in equiv_failed] if rce == 0 else (), with_equiv=(rce == 0),
                limb_names=limb_names, with_limb=(rcl == 0))
    if rc == 0:
        rc2, out2 = sh(['lake', 'env', 'lean', os.path.join('Sm9', 'Audit', prop + '.lean')], cwd=LEAN, timeout=1800)
        for m in re.finditer(r"'([^']+)' depends on axioms: \[([^\]]*)\]", out2):
            axioms[m.group(1)] = [x.strip() for x in m.group(2).replace('\n', ' ').split(',') if x.strip()]
        for m in re.finditer(r"'([^']+)' does not depend on any axioms", out2):
            axioms[m.group(1)] = []
        if rc2 != 0:
            res['errors'].append('axiom audit failed: ' + out2[-800:])
    res['gate'] = grep_gate()
    props_rel = os.path.join('Sm9', 'Props', prop + '.lean')
    for idx, (name, line) in enumerate(thms):
        nxt = thms[idx + 1][1] if idx + 1 < len(thms) else 10**9
        st = 'proved'
        why = ''
        if not res['build_ok']:
            own = [e for e in failed_lines if e[0].endswith(props_rel) and line <= e[1] < nxt]
            dep = [e for e in failed_lines if not e[0].endswith(props_rel)]
            if own:
                st, why = 'failed', own[0][2]
            elif dep:
                st, why = 'failed', f'dependency {dep[0][0]}:{dep[0][1]} does not build: {dep[0][2]}'
            else:
                st, why = 'unaudited', 'file did not build'
        else:
            ax = axioms.get(name)
            if ax is None:
                ax = axioms.get('Sm9.' + name)
            if ax is None:
                st, why = 'failed', 'no axiom report'
            elif not set(ax) <= ALLOWED_AXIOMS:
                st, why = 'failed', 'disallowed axioms: ' + ', '.join(sorted(set(ax) - ALLOWED_AXIOMS))
            if res['gate']:
                st, why = 'failed', 'forbidden token in Lean sources: ' + '; '.join(res['gate'][:3])
        res['theorems'].append({'name': name, 'status': st, 'axioms': axioms.get(name, axioms.get('Sm9.' + name)), 'why': why})
    # generated-equals-model obligations of this property
    for n in equiv_names:
        if not res['translator']['ok']:
            st, why = 'failed', res['translator']['error']
        elif n in equiv_failed:
            st, why = 'failed', equiv_failed[n]
        elif rce != 0 and not equiv_failed:
            st, why = 'failed', 'Gen/Equiv.lean did not build'
        else:
            ax = axioms.get('Sm9.GenEquiv.' + n)
            if rc != 0:
                st, why = 'proved', 'built; axioms not audited in this run (property file failed)'
            elif ax is None:
                st, why = 'failed', 'no axiom report'
            elif not set(ax) <= ALLOWED_AXIOMS:
                st, why = 'failed', 'disallowed axioms'
            else:
                st, why = 'proved', ''
        res['equiv'].append({'name': 'GenEquiv.' + n, 'status': st, 'axioms': axioms.get('Sm9.GenEquiv.' + n), 'why': why})
    for n in limb_names:
        if not res['translator']['ok']:
            st, why = 'failed', res['translator']['error']
        elif n in limb_failed:
            st, why = 'failed', limb_failed[n]
        elif rcl != 0:
            st, why = 'proved', 'elaborated without error; axioms not audited in this run (another theorem of Gen/LimbEquiv.lean failed)'
        else:
            ax = axioms.get('Sm9.GenL.' + n)
            if rc != 0:
                st, why = 'proved', 'built; axioms not audited in this run (property file failed)'
            elif ax is None:
                st, why = 'failed', 'no axiom report'
            elif not set(ax) <= ALLOWED_AXIOMS:
                st, why = 'failed', 'disallowed axioms'
            else:
                st, why = 'proved', ''
        res['equiv'].append({'name': 'GenL.' + n, 'status': st, 'axioms': axioms.get('Sm9.GenL.' + n), 'why': why})
    res['equiv_failed'] = dict(equiv_failed, **limb_failed)
    ok_names = set()
    if res['translator']['ok'] and (rce == 0 or equiv_failed):
        ok_names = set(res['translator']['theorems']) - set(equiv_failed)
    if res['translator']['ok']:
        ok_names |= set(res['translator'].get('limb_theorems', [])) - set(limb_failed)
    res['equiv_ok_names'] = sorted(ok_names)
    if tier == 'thorough' and res['build_ok']:
        rc3, out3 = sh(['lake', 'env', 'leanchecker', f'Sm9.Props.{prop}'], cwd=LEAN, timeout=3600)
        log.append(('leanchecker', f'rc={rc3} {out3.strip()[-200:]}'))
        if rc3 != 0:
            res['errors'].append('leanchecker rejected the module: ' + out3[-500:])
            for t in res['theorems']:
                t['status'], t['why'] = 'failed', 'leanchecker'
    return res


def fp_cover(key, all_names):
    """equivalence theorems that cover a fingerprinted function (None = not covered by the translator)"""
    rel, _, rest = key.partition('::')
    ctx, _, fn = rest.rpartition('::')
    fn = re.sub(r'#\d+$', '', fn.split(' ')[0])
    tower = {'fields/fq2.rs': 'Fq2', 'fields/fq4.rs': 'Fq4', 'fields/fq12.rs': 'Fq12'}
    names = None
    if rel in tower:
        T = tower[rel]
        if re.fullmatch(rf'impl (FieldElement for |Zero for |One for )?{T}', ctx):
            if fn == 'frobenius_map':
                names = [n for n in all_names if n.startswith(f'{T}_frob')]
            elif T == 'Fq2' and fn == 'from_slice':
                names = ['Fq2_from_slice', 'Fq2_from_slice_toOption']
            else:
                names = [f'{T}_{fn}']
    elif rel == 'groups.rs':
        pats = {r'impl < P : GroupParams > Add < G < P >> for G < P >': ['add'], r'impl < P : GroupParams > Sub < G < P >> for G < P >': ['sub'],
                r'impl < P : GroupParams > Neg for G < P >': ['neg'], r'impl < P : GroupParams > PartialEq for G < P >': ['eq'],
                r'impl < P : GroupParams > Mul < Fr > for G < P >': ['mul'], r'impl < P : GroupParams > Zero for G < P >': ['zero', 'is_zero'],
                r'impl < P : GroupParams > GroupElement for G < P >': ['double'], r'impl < P : GroupParams > G < P >': ['to_affine']}
        # plumbing: constructor / accessors / Clone / `one` / `random`, the reference and assign forms of `+`
        plumbing = {r'impl < P : GroupParams > G < P >': ['new', 'x', 'y', 'z', 'x_mut', 'y_mut', 'z_mut'], r'impl < P : GroupParams > Clone for G < P >': ['clone'],
                    r'impl < P : GroupParams > GroupElement for G < P >': ['one', 'random']}
        addforms = {r'impl < P : GroupParams > Add < & G < P >> for G < P >': 'AddValRef', r'impl < P : GroupParams > Add < G < P >> for & G < P >': 'AddRefVal',
                    r'impl < P : GroupParams > AddAssign < G < P >> for G < P >': 'AddAssignVal', r'impl < P : GroupParams > AddAssign < & G < P >> for G < P >': 'AddAssignRef'}
        affine = {r'impl < P : GroupParams > AffineG < P >': ['new', 'to_jacobian', 'x', 'y', 'x_mut', 'y_mut'], r'impl < P : GroupParams > Clone for AffineG < P >': ['clone'],
                  r'impl < P : GroupParams > Neg for AffineG < P >': ['neg'], r'impl < P : GroupParams > PartialEq for AffineG < P >': ['eq']}
        if ctx in pats and fn in pats[ctx]:
            names = [f'G1_{fn}', f'G2_{fn}']
        elif ctx in plumbing and fn in plumbing[ctx]:
            names = [f'G1_{fn}', f'G2_{fn}']
        elif ctx in addforms and fn in ('add', 'add_assign'):
            names = [f'G1{addforms[ctx]}_{fn}', f'G2{addforms[ctx]}_{fn}']
        elif ctx in affine and fn in affine[ctx]:
            names = [f'AffineG1_{fn}', f'AffineG2_{fn}']
        elif re.fullmatch(r'impl GroupParams for G[12]Params', ctx) and fn in ('name', 'one', 'coeff_b', 'check_order'):
            P = ctx.split()[-1]
            names = [f'{P}_{fn}'] + ([f'{P}_coeff_b_value'] if fn == 'coeff_b' else []) + ([f'{P}_one_unwrap_ok'] if fn == 'one' else [])
        elif ctx.startswith('trait GroupParams') and fn == 'check_order':
            names = ['G1Params_check_order']      # the default body, inherited by `G1Params`
    elif rel == 'pairings.rs':
        if ctx == 'impl Fq12' and fn in ('final_exponentiation_first_chunk', 'final_exponentiation_last_chunk', 'final_exp_last_chunk'):
            names = [f'Fq12_{fn}']
        elif ctx == 'impl G2' and fn in ('point_pi1', 'point_pi2', 'eval_g_tangent', 'eval_g_line', 'q_power_frobenius', 'g_line', 'g_tangent', 'miller_loop'):
            names = [f'G2m_{fn}']
        elif ctx == 'impl Fq12' and fn in ('final_exponentiation', 'final_exp', 'pow'):
            names = [f'Fq12_{fn}']
        elif ctx == 'impl G2Prepared' and fn in ('get_fq12', 'miller_loop'):
            names = [f'G2Prepared_{fn}']
        elif ctx == 'impl From < G2 > for G2Prepared' and fn == 'from':
            names = ['G2Prepared_from']
        elif ctx == '' and fn in ('pairing', 'fast_pairing', 'bit'):
            names = [f'Pairings_{fn}']
    elif rel == 'fields/utils.rs':
        # operator-plumbing macros: one polymorphic definition per operator form (`Ops.<fn>_<self form>_<rhs form>`)
        m = re.fullmatch(r'macro_rules! \w+ / impl\s+(\w+)(?: < (& \'b )?\$ rhs >)? for (& \'a )?\$ (?:lhs|output)', ctx)
        if m:
            sf, rf = ('ref' if m.group(3) else 'val'), ('ref' if m.group(2) else 'val')
            if fn.endswith('_assign'):
                names = [f'Ops_{fn}_{rf}']
            elif fn == 'neg':
                names = [f'Ops_neg_{sf}']
            else:
                names = [f'Ops_{fn}_{sf}_{rf}']
    elif rel in ('arith.rs', 'u256.rs', 'u512.rs', 'fields/fp.rs', 'fields.rs'):
        # limb level: every theorem of Gen/LimbEquiv.lean about this function (equivalence, loop lemmas, in-range obligations)
        T = None
        if rel == 'arith.rs' and ctx == '':
            T = 'Arith'
        elif rel == 'u256.rs' and ctx == 'impl U256':
            T = 'U256'
        elif rel == 'u256.rs' and 'Iterator for BitIterator' in ctx:
            T = 'BitIterator'
        elif rel == 'u512.rs' and ctx == 'impl U512':
            T = 'U512'
        elif rel == 'fields/fp.rs' and ctx in ('impl Fq', 'impl Fr'):
            T = ctx.split()[1]
        elif rel == 'fields/fp.rs' and ctx == 'macro_rules! field_impl / impl From < $ name > for U256' and fn == 'from':
            T, fn = 'Fp', 'into_u256'
        elif rel == 'fields/fp.rs' and re.fullmatch(r'macro_rules! field_impl / impl (FieldElement for |One for |Zero for )?\$ name', ctx):
            T = 'Fp'
        elif rel == 'fields.rs' and fn == 'pow' and 'FieldElement' in ctx:
            T = 'Fp'
        if T:
            pat = re.compile(rf'{T}_{re.escape(fn)}_(equiv|refines|bound\d+|loop\d+_equiv|for\d+_equiv)')
            names = sorted(n for n in all_names if pat.fullmatch(n))
            if not any(n == f'{T}_{fn}_equiv' for n in names):
                names = None
    elif rel == 'lib.rs' and ctx == '' and fn == 'from':
        # `impl From<Fr> / From<&Fr> / From<Fq> / From<Fq2> for [u8; N]` (the `;` of the header hides the context), in file order
        which = {'lib.rs::::from': 'LibFr_into_bytes', 'lib.rs::::from#2': 'LibFr_into_bytes_ref', 'lib.rs::::from#3': 'LibFq_into_bytes'}.get(key)
        names = [f'{which}_equiv', f'{which}_refines'] if which else None
        if key == 'lib.rs::::from#4':
            names = ['LibFq2_from']        # `impl From<Fq2> for [u8; 64]`
    elif rel == 'lib.rs' and re.fullmatch(r'impl (F[rq])|impl (FromStr|TryFrom < & \[ u8 \] >) for (F[rq])', ctx):
        # scalar / base field wrappers: limb level (Gen/LimbEquiv.lean: `LibFr_*`, `LibFq_*`, equivalence + value-level refinement)
        T = 'Lib' + (re.search(r'F[rq]$', ctx).group(0))
        pat = re.compile(rf'{T}_{re.escape(fn)}_(equiv|refines|bound\d+)')
        names = sorted(n for n in all_names if pat.fullmatch(n))
        if not any(n == f'{T}_{fn}_equiv' for n in names):
            names = None
    elif rel == 'lib.rs':
        m = re.fullmatch(r'impl (G[12])', ctx)
        if m and fn in ('from_compressed', 'to_compressed', 'to_uncompressed', 'from_uncompressed', 'to_slice', 'from_slice'):
            names = [f'Lib{m.group(1)}_{fn}']
        m = re.fullmatch(r'impl Group for (G[12])', ctx)
        if m and fn == 'normalize':
            names = [f'Lib{m.group(1)}_normalize']
        m = re.fullmatch(r'impl (G[12])', ctx)
        if m and fn == 'new':
            names = [f'Lib{m.group(1)}_new']
        m = re.fullmatch(r'impl Group for (G[12])', ctx)
        if m and fn in ('zero', 'one', 'is_zero'):
            names = [f'Lib{m.group(1)}_{fn}']
        m = re.fullmatch(r'impl (Add|Sub) < (G[12]) > for G[12]|impl (Neg) for (G[12])|impl (Mul) < Fr > for (G[12])', ctx)
        if m and fn in ('add', 'sub', 'neg', 'mul'):
            g = m.group(2) or m.group(4) or m.group(6)
            names = [f'Lib{g}_{fn}']
        if ctx == 'impl Gt' and fn in ('one', 'pow', 'inverse', 'to_slice'):
            names = [f'LibGt_{fn}']
        if ctx == 'impl Mul < Gt > for Gt' and fn == 'mul':
            names = ['LibGt_mul']
        m = re.fullmatch(r'impl (AffineG[12])', ctx)
        if m and fn == 'from_jacobian':
            names = [f'Lib{m.group(1)}_from_jacobian']
        if ctx == 'impl G2Prepared' and fn == 'pairing':
            names = ['LibG2Prepared_pairing']
        if ctx == 'impl From < G2 > for G2Prepared' and fn == 'from':
            names = ['LibG2Prepared_from']
        if ctx == '' and fn in ('pairing', 'fast_pairing'):
            names = [f'Lib_{fn}']
        # value-level wrappers: `impl Fq2`, `TryFrom<&[u8]> for Fq2`, affine constructors / accessors / setters,
        # `From<AffineGx> for Gx`, coordinate accessors / setters of G1 / G2, `Fr * Gx`
        if ctx == 'impl Fq2' and fn in ('one', 'zero', 'new', 'is_zero', 'is_even', 'real', 'imaginary', 'sqrt', 'from_slice', 'to_slice',
                                        'add_inplace', 'sub_inplace', 'mul_inplace', 'neg_inplace'):
            names = [f'LibFq2_{fn}']
        if ctx == 'impl TryFrom < & [ u8 ] > for Fq2' and fn == 'try_from':
            names = ['LibFq2_try_from']
        m = re.fullmatch(r'impl (AffineG[12])', ctx)
        if m and fn in ('new', 'x', 'y', 'set_x', 'set_y'):
            names = [f'Lib{m.group(1)}_{fn}']
        m = re.fullmatch(r'impl From < AffineG([12]) > for G([12])', ctx)
        if m and m.group(1) == m.group(2) and fn == 'from':
            names = [f'LibG{m.group(1)}_from']
        m = re.fullmatch(r'impl (G[12])', ctx)
        if m and fn in ('x', 'y', 'z', 'b', 'set_x', 'set_y', 'set_z'):
            names = [f'Lib{m.group(1)}_{fn}']
        m = re.fullmatch(r'impl Mul < (G[12]) > for Fr', ctx)
        if m and fn == 'mul':
            names = [f'LibFr{m.group(1)}_mul']
    if not names or any(n not in all_names for n in names):
        return None
    return names


# ---------------------------------------------------------------- harness side
def build_harness(log):
    """returns {profile: path or None}, hooks flag, error text"""
    bins = {}
    err = ''
    hooks = True
    for attempt in ('int', 'pub'):
        env = {'RUSTFLAGS': f'--cfg {GUARD}'} if attempt == 'int' else {}
        ok = True
        for prof, flag in (('release', ['--release']), ('dev', [])):
            t0 = time.time()
            rc, out = sh(['cargo', 'build', '--offline', '--target-dir', os.path.join('target', attempt)] + flag, cwd=HARNESS, env=env, timeout=1800)
            log.append((f'cargo build {attempt}/{prof}', f'{time.time()-t0:.1f}s rc={rc}'))
            if rc != 0:
                ok = False
                err += f'[{attempt}/{prof}] ' + '\n'.join(l for l in out.splitlines() if l.startswith('error'))[:1500] + '\n'
                break
            bins[prof] = os.path.join(HARNESS, 'target', attempt, 'release' if prof == 'release' else 'debug', 'sm9_harness')
        if ok:
            hooks = attempt == 'int'
            return bins, hooks, err
        bins = {}
    return {}, False, err


def run_sharded(cmd_of, lines, workdir, tag, nshards):
    """run an executable over shards of the op lines concurrently; returns output lines"""
    n = len(lines)
    if n == 0:
        return []
    k = max(1, min(nshards, (n + 39) // 40))
    procs = []
    for i in range(k):
        chunk = lines[i::k]          # interleaved: expensive op kinds are generated in runs
        if not chunk:
            continue
        ip = os.path.join(workdir, f'{tag}.{i}.ops')
        op = os.path.join(workdir, f'{tag}.{i}.out')
        open(ip, 'w').write('\n'.join(chunk) + '\n')
        fo = open(op, 'w')
        argv, stdin = cmd_of(ip)
        p = subprocess.Popen(argv, stdin=open(ip) if stdin else subprocess.DEVNULL, stdout=fo, stderr=subprocess.DEVNULL)
        procs.append((p, op, len(chunk), fo, i))
    out = [None] * n
    for p, op, cnt, fo, i in procs:
        p.wait()
        fo.close()
        got = open(op).read().splitlines()
        if len(got) < cnt:
            got += ['CRASH'] * (cnt - len(got))
        out[i::k] = got[:cnt]
    return out


def field_match(impl, spec):
    """impl vs spec with `*` wildcards per `|`-separated field"""
    if spec == '*':
        return True
    fa, fb = impl.split('|'), spec.split('|')
    if len(fa) != len(fb):
        return False
    return all(y == '*' or x == y for x, y in zip(fa, fb))


def nontrivial(line):
    """a case is trivial if every operand is one of 0, 1, the empty string or the canonical identity"""
    toks = line.split(' ')[1:]
    triv = 0
    for t in toks:
        parts = re.split(r'[:,]', t)
        if all(re.fullmatch(r'0*[01]?', p) or p in ('-', '') for p in parts):
            triv += 1
    return triv < len(toks) or len(toks) == 0


def compare(lines, labels, bins, driver, workdir, nshards=16, timeout_ms=30000):
    outs = {}
    for prof, b in bins.items():
        outs[prof] = run_sharded(lambda ip, b=b: ([b, ip, str(timeout_ms)], False), lines, workdir, 'impl_' + prof, nshards)
    drv = run_sharded(lambda ip: ([driver], True), lines, workdir, 'drv', nshards) if driver else ['NODRIVER\tNODRIVER'] * len(lines)
    results = []
    for i, line in enumerate(lines):
        d = drv[i].split('\t')
        model, spec = (d + ['CRASH', 'CRASH'])[:2] if len(d) >= 2 else ('CRASH', 'CRASH')
        rec = {'op': line, 'class': labels[i], 'model': model, 'spec': spec, 'impl': {p: outs[p][i] for p in outs}}
        kinds = []
        vals = list(rec['impl'].values())
        if len(set(vals)) > 1:
            kinds.append('profile-dependence')
        for p, v in rec['impl'].items():
            if v == 'NOHOOKS':
                continue
            if driver and spec != 'CRASH' and not field_match(v, spec):
                kinds.append('impl!=spec')          # only against an oracle that actually ran
            if driver and v != model:
                kinds.append('impl!=model')
        if driver and not field_match(model, spec):
            kinds.append('model!=spec')
        rec['kinds'] = sorted(set(kinds))
        results.append(rec)
    return results


def shorten(s, n=200):
    return s if len(s) <= n else s[:n] + f'...({len(s)} chars)'


# ---------------------------------------------------------------- known findings
def load_known():
    path = os.path.join(VERIF, 'known_findings.txt')
    opened = []
    if os.path.exists(path):
        for l in open(path):
            l = l.strip()
            m = re.match(r'open:\s+property=(\S+)\s+op=(.*?)\s+--\s+(.*)', l)
            if m:
                opened.append((m.group(1), m.group(2).strip(), m.group(3)))
    return opened


# ---------------------------------------------------------------- main
def main(prop, tier, seed, replay):
    t_start = time.time()
    if prop not in PROPS:
        print(f'unknown property {prop}')
        return 2
    os.makedirs(WORKROOT, exist_ok=True)
    workdir = os.path.join(WORKROOT, f'run-{prop}-{os.getpid()}')
    os.makedirs(workdir, exist_ok=True)
    replay_dir = os.path.join(WORKROOT, 'replays')
    os.makedirs(replay_dir, exist_ok=True)
    log = []
    try:
        with Lock(os.path.join(WORKROOT, 'lock')):
            fp = fingerprint.check(REPO, os.path.join(VERIF, 'fingerprints.json'), prop)
            lean = lean_phase(prop, tier, log)
            bins, hooks, herr = build_harness(log)
            driver = os.path.join(LEAN, '.lake', 'build', 'bin', 'sm9drv') if lean['driver_ok'] else None
            if driver:
                # private copy so that a concurrent rebuild cannot swap the binary under us
                d2 = os.path.join(workdir, 'sm9drv')
                shutil.copy2(driver, d2)
                driver = d2
            for p in list(bins):
                b2 = os.path.join(workdir, 'harness_' + p)
                shutil.copy2(bins[p], b2)
                bins[p] = b2
        return decide(prop, tier, seed, replay, lean, bins, hooks, herr, driver, fp, workdir, replay_dir, log, t_start)
    finally:
        shutil.rmtree(workdir, ignore_errors=True)


def gen_cases(prop, tier, seed, scale=1.0):
    rng = random.Random(f'{prop}-{seed}')
    n = max(1, int(gen.SIZES[tier][prop] * scale))
    cases = gen.GENERATORS[prop](rng, n)
    return [c[0] for c in cases], [c[1] for c in cases]


def corpus_cases(prop):
    labels, lines = [], []
    for path in sorted(glob.glob(os.path.join(VERIF, 'corpus', '*.ops'))):
        for l in open(path):
            l = l.rstrip('\n')
            if not l or l.startswith('#'):
                continue
            props, _, op = l.partition('\t')
            if prop in props.split(','):
                labels.append('corpus:' + os.path.basename(path))
                lines.append(op)
    return labels, lines


def decide(prop, tier, seed, replay, lean, bins, hooks, herr, driver, fp, workdir, replay_dir, log, t_start):
    violations = []        # (text, replay dict, found_input: bool)
    known = load_known()
    known_hits = []

    if replay:
        rp = json.load(open(replay))
        labels = ['replay'] * len(rp.get('ops', []))
        lines = rp.get('ops', [])
    else:
        cl, co = corpus_cases(prop)
        gl, go = gen_cases(prop, tier, seed)
        labels, lines = cl + gl, co + go
    needs_hooks = any(l.split(' ')[0].split('.')[0] in ('u256', 'fqraw', 'frraw', 'u512', 'fq4', 'fq12', 'miller') for l in lines)

    results = []
    if bins:
        results = compare(lines, labels, bins, driver, workdir)
    # ---- classify correspondence results
    impl_spec = [r for r in results if 'impl!=spec' in r['kinds'] or 'profile-dependence' in r['kinds']]
    impl_model = [r for r in results if 'impl!=model' in r['kinds'] and r not in impl_spec]
    model_spec = [r for r in results if r['kinds'] == ['model!=spec']]
    nohooks = [r for r in results if any(v == 'NOHOOKS' for v in r['impl'].values())]

    def replay_file(kind, payload):
        name = f'{prop}-{kind}-{seed}-{int(time.time())}.json'
        path = os.path.join(replay_dir, name)
        payload.update({'property': prop, 'seed': seed, 'tier': tier, 'kind': kind,
                        'how_to_replay': f'./check {prop} --replay {path}'})
        json.dump(payload, open(path, 'w'), indent=1)
        return path

    unknown_impl_spec = []
    for r_ in impl_spec:
        hit = [k for k in known if k[0] == prop and k[1] == r_['op']]
        if hit:
            known_hits.append((r_, hit[0][2]))
        else:
            unknown_impl_spec.append(r_)
    if unknown_impl_spec:
        # minimal replay: the single shortest failing op
        first = min(unknown_impl_spec, key=lambda r_: len(r_['op']))
        path = replay_file('impl-vs-spec', {'ops': [first['op']], 'observed': first, 'others': [x['op'] for x in unknown_impl_spec[:20]],
                                           'meaning': 'the implementation disagrees with the independent specification (or with itself across build profiles) on this input'})
        violations.append((f'implementation violates the property on input: {shorten(first["op"], 160)}', path, True))

    broken = []   # descriptions of broken obligations / correspondences without an exhibited failing input
    failed_thms = [t for t in lean['theorems'] if t['status'] != 'proved'] + [t for t in lean.get('equiv', []) if t['status'] != 'proved']
    # a changed function whose definition was re-translated and re-proved equal to the model is not a broken tie
    all_names = set(lean.get('translator', {}).get('theorems', [])) | set(lean.get('translator', {}).get('limb_theorems', []))
    ok_names = set(lean.get('equiv_ok_names', []))
    still_changed, retranslated = [], []
    treport = lean.get('translator', {}).get('report', {})
    src_toks = None
    for entry in fp['changed']:
        key = entry.rsplit(' (', 1)[0]
        if entry.endswith('(added)'):
            # an added private helper that the translator inlined into every one of its call sites: it has no behaviour
            # of its own left — its callers are compared with the model with the helper's body in place
            rel, _, rest = key.partition('::')
            fn = re.sub(r'#\d+$', '', rest.rpartition('::')[2])
            nsites = treport.get(f'inlined:{rel}::{fn}')
            if nsites is not None and str(nsites).isdigit() and int(nsites) > 0:
                src_toks = src_toks if src_toks is not None else fingerprint.all_tokens(REPO)
                if src_toks.count(fn) == int(nsites) + 1:
                    retranslated.append(entry + f' [helper inlined into its {nsites} call site(s)]')
                    continue
        cov = fp_cover(key, all_names) if entry.endswith('(changed)') else None
        value_level = set(lean.get('translator', {}).get('theorems', []))
        if cov and all(n in ok_names for n in cov):
            retranslated.append(entry)
        elif (prop == 'C18' and cov and all(n in value_level for n in cov) and prop not in fingerprint.props_of(key, False)):
            # still inside the value-level subset (no machine-integer arithmetic, no debug assertion): nothing in it can
            # depend on the build profile, even though it no longer equals the model
            retranslated.append(entry + ' [C18: still translates; value-level subset is profile-free]')
        else:
            still_changed.append(entry)
    fp = dict(fp, changed=still_changed, retranslated=retranslated)
    if failed_thms:
        broken.append('theorem(s) no longer check: ' + ', '.join(f"{t['name']} ({t['why'][:120]})" for t in failed_thms[:6]))
    if not lean['driver_ok']:
        broken.append('the executable model no longer builds against the constants/definitions extracted from the source: ' + '; '.join(lean['errors'])[:600])
    if not bins:
        broken.append('the correspondence harness does not build against /repo: ' + herr[:600])
    elif not hooks and needs_hooks:
        broken.append('verification hooks do not build; internal operations could not be exercised: ' + herr[:400])
    if impl_model:
        first = min(impl_model, key=lambda r_: len(r_['op']))
        broken.append(f'correspondence broken: model and implementation differ (though the implementation agrees with the spec) on: {shorten(first["op"], 160)}')
    if fp['changed']:
        broken.append('source of hand-modelled function(s) changed since the model was validated: ' + ', '.join(fp['changed'][:8]))

    if broken and not unknown_impl_spec:
        # failing-input search: deeper generation for this property
        found = None
        if bins and not replay:
            scale = 6.0 if tier == 'quick' else 2.0
            sl, so = gen_cases(prop, tier, seed + 1, scale)
            sr = compare(so, sl, bins, driver, workdir)
            bad = [x for x in sr if 'impl!=spec' in x['kinds'] or 'profile-dependence' in x['kinds']]
            if bad:
                found = min(bad, key=lambda r_: len(r_['op']))
            log.append(('failing-input search', f'{len(so)} extra cases, found={bool(found)}'))
            results += sr
        if found:
            path = replay_file('impl-vs-spec', {'ops': [found['op']], 'observed': found, 'broken': broken,
                                               'meaning': 'found by the failing-input search after an obligation/correspondence broke'})
            violations.append((f'implementation violates the property on input: {shorten(found["op"], 160)}', path, True))
        else:
            first_model = [r_ for r_ in impl_model[:3]]
            path = replay_file('broken-obligation', {'ops': [r_['op'] for r_ in first_model], 'broken': broken, 'lean_errors': lean['errors'][:3],
                                                    'observed': first_model,
                                                    'meaning': 'a proof obligation or the model/implementation correspondence no longer checks; no input on which the property itself fails was found'})
            violations.append(('; '.join(broken)[:300], path, False))

    # ---- evidence
    evals = len(results)
    distinct = len({r_['op'] for r_ in results if nontrivial(r_['op'])})
    classes = {}
    for r_ in results:
        c = r_['class'].split(':')[0] if r_['class'].startswith('corpus') else r_['class']
        classes[c] = classes.get(c, 0) + 1
    samples = []
    seen = set()
    for r_ in results:
        k = r_['class'].split(':')[0]
        if k not in seen and len(samples) < 8:
            seen.add(k)
            samples.append({'op': shorten(r_['op'], 300), 'impl': {p: shorten(v, 160) for p, v in r_['impl'].items()},
                            'model': shorten(r_['model'], 160), 'spec': shorten(r_['spec'], 160)})
    for t in lean['theorems'][:6]:
        samples.append({'obligation': t['name'], 'status': t['status'], 'axioms': t['axioms']})
    obligations = len(lean['theorems']) + len(lean.get('equiv', []))
    discharged = len([t for t in lean['theorems'] if t['status'] == 'proved']) + len([t for t in lean.get('equiv', []) if t['status'] == 'proved'])
    meta = PROP_META.get(prop, {})
    ev = {
        'property_id': prop, 'tier': tier, 'seed': seed, 'level': 'proof',
        'coverage': {
            'obligations': obligations, 'discharged': discharged,
            'checker_cmd': f'cd /verif/lean && lake build Sm9.Props.{prop} && lake env lean Sm9/Audit/{prop}.lean',
            'trusted_base': TRUSTED_BASE,
            'theorems': lean['theorems'],
            'full_strength_proved': meta.get('full_strength', False),
            'partial': meta.get('partial', []),
            'tie': {'constants': 'extracted from /repo/src on this run', 'fingerprints_checked': fp['checked'], 'fingerprints_changed': fp['changed'], 'added_functions_referenced_nowhere': fp.get('ignored_additions', []),
                    'changed_but_retranslated_and_reproved': fp.get('retranslated', []),
                    'translated_functions': len([v for v in lean.get('translator', {}).get('report', {}).values() if v == 'translated']),
                    'untranslated': {k: v for k, v in lean.get('translator', {}).get('report', {}).items() if v != 'translated'},
                    'limb_translated_functions': len([v for v in lean.get('translator', {}).get('limb_report', {}).values() if v == 'translated']),
                    'limb_untranslated': {k: v for k, v in lean.get('translator', {}).get('limb_report', {}).items() if v != 'translated'},
                    'generated_equals_model': lean.get('equiv', []),
                    'hooks_built': hooks},
            'evaluations': evals, 'distinct_nontrivial': distinct,
            'rule': 'cases = committed corpus + generator classes of tools/gen.py for this property (seeded PRNG); each case is executed by the real crate in the release and dev (debug-assertions+overflow-checks) profiles, by the Lean model and by the independent Lean spec, and the outputs compared field by field; a case is non-trivial unless every operand is 0, 1, empty or the canonical identity; distinct = distinct op lines',
            'classes_hit': dict(sorted(classes.items(), key=lambda kv: -kv[1])[:60]),
            'samples': samples,
            'impl_vs_spec_failures': len(impl_spec), 'model_disagreements': len(impl_model),
            'outside_proved_domain': len(model_spec),
            'profiles': sorted(bins.keys()),
            'known_findings_hit': len(known_hits),
            'log': log,
        },
        'assumptions': TRUSTED_BASE,
        'wall_s': round(time.time() - t_start, 2),
        'violations': len(violations),
    }
    os.makedirs(os.path.join(VERIF, 'evidence'), exist_ok=True)
    json.dump(ev, open(os.path.join(VERIF, 'evidence', prop + '.json'), 'w'), indent=1)

    for r_, what in known_hits:
        print(f'KNOWN-FINDING: property={prop} {what}')
    for text, path, found in violations:
        print(f'{prop}: {text}')
        print(f'VIOLATION property={prop} replay={path}' + ('' if found else ' no-failing-input-found'))
    if replay:
        for r_ in results:
            print(json.dumps({k: r_[k] for k in ('op', 'impl', 'model', 'spec', 'kinds')}, indent=1)[:3000])
    if not violations:
        print(f'{prop}: OK  obligations {discharged}/{obligations} discharged; {evals} cases ({distinct} distinct non-trivial) agree across '
              f'impl[{",".join(sorted(bins))}]/model/spec; wall {time.time()-t_start:.1f}s')
        return 0
    return 1


# per-property statement of what is / is not proved at full strength (kept next to the check so that
# the evidence says it on every run); updated as theorems land
PROP_META = {}
try:
    PROP_META = json.load(open(os.path.join(VERIF, 'prop_meta.json')))
except Exception:
    PROP_META = {}
