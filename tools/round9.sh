#!/bin/sh
# usage: round9.sh Cxx prop...   confirm the sub-agent's change in /tmp/w9/Cxx, store it as seeded/Cxx-i, evaluate, remove the worktree
pid=$1; shift
python3 /verif/tools/confirm7.py /tmp/w9/$pid $pid-i > /tmp/w9/$pid.confirm.json 2>&1 || { echo "$pid NOT CONFIRMED"; tail -20 /tmp/w9/$pid.confirm.json; exit 1; }
python3 /verif/tools/seed_eval2.py $pid-i "$@"
git -C /repo worktree remove --force /tmp/w9/$pid
