"""Developer tool (not a registered check): apply behaviour-preserving rewrites to /repo one at a time, run the
checks of the properties they touch, undo.  Every line should end in OK.  usage: harmless_battery.py [case ...]"""
import subprocess, sys, re, json, os
REPO = os.environ.get('EVAL_REPO', '/repo'); VERIF = os.environ.get('EVAL_VERIF', '/verif')
EXTRA = os.environ.get('BATTERY_EXTRA', '').split()   # further properties to run for every case (upper layers)
def sh(c): return subprocess.run(c, shell=True, stdout=subprocess.PIPE, stderr=subprocess.STDOUT, text=True).stdout
def edit(path, old, new, count=1):
    s=open(path,newline='').read()
    nl='\r\n' if '\r\n' in s else '\n'
    old=old.replace('\n',nl); new=new.replace('\n',nl)
    assert old in s, (path, old[:60])
    open(path,'w',newline='').write(s.replace(old,new,count))
CASES = {
 'lib-lencheck-flip': (lambda: edit(REPO + '/src/lib.rs', 'if bytes.len() != 64 {', 'if 64 != bytes.len() {'), ['C08','C10']),
 'u256-add-rename': (lambda: edit(REPO + '/src/u256.rs', 'let carry = self.0.add_with_carry(&other.0);\n        self.subtract_modulus_with_carry(modulo, carry);', 'let cy = self.0.add_with_carry(&other.0);\n        self.subtract_modulus_with_carry(modulo, cy);'), ['C06','C07']),
 'comment-only': (lambda: edit(REPO + '/src/groups.rs', 'fn double(&self) -> Self {', 'fn double(&self) -> Self {\n        // doubling, a = 0'), ['C04']),
 'added-unused-fn': (lambda: edit(REPO + '/src/u256.rs', '    pub fn is_even(&self) -> bool {', '    pub fn is_nonzero_dbg(&self) -> bool {\n        !self.is_zero()\n    }\n    #[inline]\n    pub fn is_even(&self) -> bool {'), ['C06','C13']),
 'pairings-early-return-style': (lambda: edit(REPO + '/src/pairings.rs', '        let mut f = Fq12::one();\n        if g1.is_zero() || self.coeffs.is_empty() {\n            // e(O, Q) = e(P, O) = 1\n            return f;\n        }', '        if g1.is_zero() || self.coeffs.is_empty() {\n            return Fq12::one();\n        }\n        let mut f = Fq12::one();'), ['C03','C01']),
 'groups-double-commute': (lambda: edit(REPO + '/src/groups.rs', 'let y1z1 = self.y * self.z;', 'let y1z1 = self.z * self.y;'), ['C04']),
 'groups-add-commute': (lambda: edit(REPO + '/src/groups.rs', 'let z1_squared = self.z.squared();', 'let z1_squared = self.z * self.z;'), ['C04']),
 'u256-mul-rename': (lambda: edit(REPO + '/src/u256.rs', 'let (carry, mut res) = self.mul_without_cond_subtract(other, modulo, inv);\n        res.subtract_modulus_with_carry(modulo, carry);', 'let (cy, mut res) = self.mul_without_cond_subtract(other, modulo, inv);\n        res.subtract_modulus_with_carry(modulo, cy);'), ['C06']),
 'lib-fr-from-slice-let': (lambda: edit(REPO + '/src/lib.rs', '            32 => U256::from_slice(hex).ok().map(Fr::new_mul_factor),', '            32 => {\n                let v = U256::from_slice(hex).ok();\n                v.map(Fr::new_mul_factor)\n            }'), ['C13']),
 'fp-sqrt-rename': (lambda: edit(REPO + '/src/fields/fp.rs', 'let a1a = self.pow(*FQ_MINUS1_DIV4);', 'let legendre_like = self.pow(*FQ_MINUS1_DIV4);') or edit(REPO + '/src/fields/fp.rs', 'a1a', 'legendre_like', 99), ['C14']),
 'gt-pow-let': (lambda: edit(REPO + '/src/lib.rs', '        Gt(self.0.pow(exp.0))', '        let e = exp.0;\n        Gt(self.0.pow(e))'), ['C11']),
 'pairing-match-swap-arms': (lambda: edit(REPO + '/src/pairings.rs', '(None, _) | (_, None) => Fq12::one(),', '(_, None) | (None, _) => Fq12::one(),'), ['C02']),
 'groups-helper-extract': (lambda: edit(REPO + '/src/groups.rs', '        let eight_c = c.double().double().double();', '        let eight_c = Self::eight_times(c);') or edit(REPO + '/src/groups.rs', '    pub fn x(&self) -> &P::Base {\n        &self.x\n    }', '    fn eight_times(v: P::Base) -> P::Base {\n        v.double().double().double()\n    }\n\n    pub fn x(&self) -> &P::Base {\n        &self.x\n    }'), ['C04','C05']),
 'groups-double-let-y3': (lambda: edit(REPO + '/src/groups.rs', '        G {\n            x: x3,\n            y: e * (d - x3) - eight_c,\n            z: y1z1.double(),\n        }', '        let y3 = e * (d - x3) - eight_c;\n        let z3 = y1z1.double();\n        G { x: x3, y: y3, z: z3 }'), ['C04']),
 'fq2-mul-temps': (lambda: edit(REPO + '/src/fields/fq2.rs', '        let a = self;\n        Fq2 {\n            c0: Fq::sum_of_products(&[a.c0, -a.c1.double()], &[b.c0, b.c1]),\n            c1: Fq::sum_of_products(&[a.c0, a.c1], &[b.c1, b.c0]),\n        }', '        let a = self;\n        let m2a1 = -a.c1.double();\n        let c0 = Fq::sum_of_products(&[a.c0, m2a1], &[b.c0, b.c1]);\n        let c1 = Fq::sum_of_products(&[a.c0, a.c1], &[b.c1, b.c0]);\n        Fq2 { c0, c1 }'), ['C12','C17']),
 'lib-g1-compressed-parity': (lambda: edit(REPO + '/src/lib.rs', '        let is_even = sign & 1 == 0;\n\n        if is_even != y.is_even() {\n            y = -y;\n        }\n\n        AffineG1::new(x, y)', '        let want_even = sign & 1 == 0;\n        if y.is_even() != want_even {\n            y = -y;\n        }\n        AffineG1::new(x, y)'), ['C08','C10']),
 'lib-g1-compressed-sign-test': (lambda: edit(REPO + '/src/lib.rs', '        let sign = bytes[0];\n        if sign != 2 && sign != 3 {\n            return Err(CurveError::InvalidEncoding);\n        }\n        // coordinates must be canonical', '        let sign = bytes[0];\n        if !(sign == 2 || sign == 3) {\n            return Err(CurveError::InvalidEncoding);\n        }\n        // coordinates must be canonical'), ['C08']),
 'groups-mul-loop-var': (lambda: edit(REPO + '/src/groups.rs', '        for i in U256::from(other).bits_without_leading_zeros() {\n            res = res.double();\n            if i {\n                res += self;\n            }\n        }', '        let k = U256::from(other);\n        for bit in k.bits_without_leading_zeros() {\n            res = res.double();\n            if bit {\n                res = res + self;\n            }\n        }'), ['C05']),
 'groups-double-reorder': (lambda: edit(REPO + '/src/groups.rs', '        let a = self.x.squared();\n        let b = self.y.squared();', '        let b = self.y.squared();\n        let a = self.x.squared();'), ['C04','C05']),
}
which = sys.argv[1:] or list(CASES)
for name in which:
    fn, props = CASES[name]
    sh(f'git -C {REPO} checkout -- .')
    try:
        fn()
    except AssertionError as e:
        print(name, 'EDIT FAILED', e); continue
    b = sh(f'cd {REPO} && cargo build --offline 2>&1 | tail -1')
    for p in props + [e for e in EXTRA if e not in props]:
        o = sh(f'cd {VERIF} && VERIF_REPO={REPO} ./check {p} 2>&1 | grep -v WARN | tail -2')
        print(f'{name:30s} {p}: {o.strip()[:260]}')
    sh(f'git -C {REPO} checkout -- .')
