#!/bin/sh
# developer convenience: aggregate Lean build (catches name clashes across proof files), all quick checks, schema validation
cd "$(dirname "$0")/.."
( cd lean && lake build Sm9 2>&1 | grep -E "^error|Build completed" | head -5 )
fail=0
for p in C01 C02 C03 C04 C05 C06 C07 C08 C09 C10 C11 C12 C13 C14 C15 C16 C17 C18; do
  out=$(./check $p --tier ${1:-quick} 2>&1 | tail -1 | cut -c1-170); echo "$out"
  case "$out" in *": OK"*) ;; *) fail=1;; esac
done
python3-vt -c "
import json,jsonschema
jsonschema.validate(json.load(open('MANIFEST.json')), json.load(open('/root/.vp/MANIFEST.schema.json')))
for i in range(1,19): jsonschema.validate(json.load(open('evidence/C%02d.json'%i)), json.load(open('/root/.vp/EVIDENCE.schema.json')))
print('schemas ok')"
exit $fail
