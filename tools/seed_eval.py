#!/usr/bin/env python3
"""apply a seeded mutation to /repo, run the given checks, undo.  usage: seed_eval.py <seed-dir> <prop> [<prop>...]"""
import sys, subprocess, os, json
sd = os.path.abspath(sys.argv[1]); props = sys.argv[2:]
def run(cmd, cwd='/verif'):
    p = subprocess.run(cmd, cwd=cwd, shell=True, stdout=subprocess.PIPE, stderr=subprocess.STDOUT, text=True)
    return p.returncode, p.stdout
rc, o = run(f'git -C /repo apply {sd}/patch.diff')
if rc != 0:
    print('patch does not apply', o); sys.exit(2)
results = {}
try:
    for p in props:
        rc, o = run(f'./check {p} --tier quick')
        lines = [l for l in o.splitlines() if l.startswith('VIOLATION') or l.startswith(p + ':')]
        results[p] = {'exit': rc, 'lines': [l[:400] for l in lines[-3:]]}
        print(p, rc, *[l[:300] for l in lines[-3:]], sep='\n   ')
finally:
    run('git -C /repo checkout -- .')
mp = os.path.join(sd, 'meta.json')
m = json.load(open(mp))
m['checks_run'] = results
m['caught_by'] = [p for p, r in results.items() if r['exit'] == 1]
json.dump(m, open(mp, 'w'), indent=1)
