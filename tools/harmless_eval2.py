#!/usr/bin/env python3
"""Evaluate behaviour-preserving refactorings written by a sub-agent (developer tool, private clone):
usage: harmless_eval2.py <root> <prefix> <worktree-id> <prop> [<prop>...]
For each of OUT/A.diff, B.diff, C.diff: apply to the clone's repo copy, run the crate's own test suite, run the clone's
checks, undo; store under /verif/seeded/harmless/<id>-<X>/ with the outcome (quiet / alarm with input / alarm without)."""
import sys, subprocess, os, json, shutil
ROOT = sys.argv[1]; PRE = sys.argv[2]; wid = sys.argv[3]; props = sys.argv[4:]
EV = os.environ.get('EVAL_VERIF', '/tmp/vf2'); ER = os.environ.get('EVAL_REPO', '/tmp/repo2')
wt = f'{ROOT}/{wid}'
def run(cmd, cwd=EV):
    p = subprocess.run(cmd, cwd=cwd, shell=True, stdout=subprocess.PIPE, stderr=subprocess.STDOUT, text=True,
                       env=dict(os.environ, VERIF_REPO=ER, CARGO_NET_OFFLINE='true'))
    return p.returncode, p.stdout
try: meta = json.load(open(f'{wt}/OUT/meta.json'))
except Exception as e: meta = {'meta_unreadable': str(e)}
for X in 'AB':
    d = f'{wt}/OUT/{X}.diff'
    if not os.path.exists(d):
        print(wid, X, 'missing'); continue
    run(f'git -C {ER} checkout -- .')
    rc, o = run(f'git -C {ER} apply {d}')
    if rc != 0:
        print(wid, X, 'does not apply', o[:200]); continue
    res = {}
    try:
        rc, o = run('cargo test --offline 2>&1 | grep -E "test result|FAILED|^error" ', cwd=ER)
        suite = o.strip().replace('\n', ' | ')
        res['suite'] = suite
        if 'FAILED' in suite or 'error' in suite or suite.count('test result: ok') < 3:
            print(wid, X, 'SUITE FAILS', suite[:200]); 
        for p in props:
            rc, o = run(f'./check {p} --tier quick')
            lines = [l for l in o.splitlines() if l.startswith('VIOLATION') or l.startswith(p + ':')]
            kind = 'quiet' if rc == 0 else ('alarm:no-failing-input-found' if any('no-failing-input-found' in l for l in lines) else 'alarm:with-input')
            res[p] = {'exit': rc, 'kind': kind, 'lines': [l[:500] for l in lines[-3:]]}
            print(wid, X, p, kind, *[l[:260] for l in lines[-2:]], sep='\n   ', flush=True)
    finally:
        run(f'git -C {ER} checkout -- .')
    dst = f'/verif/seeded/harmless/{PRE}{wid}-{X}'; os.makedirs(dst, exist_ok=True)
    shutil.copy(d, f'{dst}/patch.diff')
    json.dump({'area': meta.get('area'), 'what': meta.get(X), 'agent_ran': meta.get('ran'), 'checks_run': res}, open(f'{dst}/meta.json', 'w'), indent=1)
