#!/usr/bin/env python3
"""Generate Sm9/Gen/Equiv.lean: one theorem per translated Rust function stating that the
definition generated from the *current* source equals the hand-written model definition the
property theorems are about.  Regenerated on every run (from Gen/rs2lean_report.json)."""
import json, sys, os, re

# generated name -> model term
def model_of(ns, fn):
    if ns == 'Fq2' and fn == 'from_slice':
        return '@Sm9.fq2FromSliceE'      # SPEC (Gen/Support.lean): the model's `Api.fq2FromSlice` with the source's errors
    if ns in ('Fq2', 'Fq4', 'Fq12') and fn == 'random':
        return f'@Sm9.{ns}.randomS'      # SPEC (Gen/Support.lean): components drawn in source order from a script of draws
    if ns in ('Fq2', 'Fq4', 'Fq12'):
        if fn == 'frobenius_map':
            return None
        if fn == 'to_slice':
            return None          # stated separately (Outcome-valued translation vs total model function)
        if ns == 'Fq12' and fn == 'pow':
            return '@Sm9.Fq12.pow_u128'
        return f'@Sm9.{ns}.{fn}'
    if ns in ('G1', 'G2') and fn in G_PLUMBING:
        F = 'Fq' if ns == 'G1' else 'Fq2'
        if fn == 'new':
            return f'@Sm9.G.new {F}'
        if fn == 'one':
            return f'@Sm9.G.one {F} _ _'
        if fn == 'random':
            return f'@Sm9.G.randomS {F} _ _'                      # SPEC (Gen/Support.lean)
        if fn in ('x', 'y', 'z'):
            return f'(fun (p : G {F}) => p.{fn})'
        if fn.endswith('_mut'):
            return f'(fun (p : G {F}) => (p, p.{fn[0]}))'         # SPEC: `x_mut` leaves the point unchanged and designates the field `x`
        return f'(fun (p : G {F}) => p)'                          # SPEC: `clone` is the identity
    if ns in ('G1', 'G2'):
        F = 'Fq' if ns == 'G1' else 'Fq2'
        return f'@Sm9.G.{fn} {F} _'
    if re.fullmatch(r'G[12]Add(ValRef|RefVal|AssignVal|AssignRef)', ns):
        F = 'Fq' if ns[1] == '1' else 'Fq2'
        return f'@Sm9.G.add {F} _'                                # every reference / assign form of `+` is `G.add`
    if ns in ('G1Params', 'G2Params'):
        F = 'Fq' if ns == 'G1Params' else 'Fq2'
        return {'name': '"G1"' if ns == 'G1Params' else '"G2"',   # SPEC
                'one': f'@Sm9.G.one {F} _ _', 'coeff_b': f'(GroupParams.coeff_b : {F})', 'check_order': f'GroupParams.check_order {F}'}.get(fn)
    if ns == 'G2m':
        return f'@Sm9.G2m.{fn}'
    if ns == 'G2Prepared':
        return f'@Sm9.G2Prepared.{fn}_' if fn == 'from' else f'@Sm9.G2Prepared.{fn}'
    if ns == 'Pairings':
        return '@Sm9.bit' if fn == 'bit' else f'@Sm9.Pairings.{fn}'
    if ns == 'LibFq2':
        return {'one': '@Sm9.Fq2.one', 'zero': '@Sm9.Fq2.zero', 'new': '@Sm9.Fq2.new', 'is_zero': '@Sm9.Fq2.is_zero',
                'is_even': '@Sm9.Api.fq2IsEven', 'real': '@Sm9.Fq2.real', 'imaginary': '@Sm9.Fq2.imaginary', 'sqrt': '@Sm9.Fq2.sqrt',
                'from_slice': '@Sm9.Api.fq2FromSlice', 'to_slice': '@Sm9.Api.fq2ToSlice',
                # the tower's `+ - * -` on Fq2 are `Fq2.add_inplace` .. `Fq2.neg_inplace` (instances of Model/Tower.lean)
                'add_inplace': '(fun a b : Fq2 => a + b)', 'sub_inplace': '(fun a b : Fq2 => a - b)', 'mul_inplace': '(fun a b : Fq2 => a * b)',
                'neg_inplace': '(fun a : Fq2 => -a)',
                # SPEC right-hand sides (no hand-model definition)
                'try_from': '(fun hex => match Sm9.Api.fq2FromSlice hex with | some v => Except.ok v | none => Except.error FieldError.InvalidSliceLength)',
                'from': '@Sm9.Api.fq2ToSlice'}.get(fn)
    if ns in ('LibFrG1', 'LibFrG2'):
        G = 'G1' if ns == 'LibFrG1' else 'G2'
        return {'mul': f'(fun (s : Fr) (p : {G}) => Sm9.G.mul p s)'}.get(fn)      # SPEC: `Fr * G` is `G * Fr`
    if ns in ('LibG1', 'LibG2') and fn in ('from', 'x', 'y', 'z', 'b', 'set_x', 'set_y', 'set_z'):
        F = 'Fq' if ns == 'LibG1' else 'Fq2'
        if fn == 'from':
            return f'@Sm9.AffineG.to_jacobian {F} _'
        if fn == 'b':
            return '@Sm9.Api.g1B' if ns == 'LibG1' else '@Sm9.Api.g2B'
        if fn in ('x', 'y', 'z'):
            return f'(fun (p : G {F}) => p.{fn})'
        c = fn[-1]
        return f'(fun (p : G {F}) ({c} : {F}) => {{ p with {c} := {c} }})'       # SPEC: the setter is a record update
    if ns in ('LibG1', 'LibG2'):
        g = 'g1' if ns == 'LibG1' else 'g2'
        F = 'Fq' if ns == 'LibG1' else 'Fq2'
        if fn == 'normalize':
            return f'@Sm9.Api.normalize {F} _'
        if fn == 'new':
            return f'@Sm9.G.new {F}'
        if fn in ('zero', 'is_zero', 'add', 'sub', 'neg', 'mul'):
            return f'@Sm9.G.{fn} {F} _'
        if fn == 'one':
            return f'@Sm9.G.one {F} _ _'
        camel = ''.join(w.capitalize() for w in fn.split('_'))
        return f'@Sm9.Api.{g}{camel}'
    if ns == 'LibGt':
        return {'one': '@Sm9.Fq12.one', 'pow': '@Sm9.Api.gtPow', 'inverse': '@Sm9.Fq12.inverse',
                'to_slice': '@Sm9.Api.fq12ToSlice', 'mul': '(fun a b : Fq12 => a * b)'}.get(fn)
    if ns in ('LibAffineG1', 'LibAffineG2'):
        F = 'Fq' if ns == 'LibAffineG1' else 'Fq2'
        if fn in ('x', 'y'):
            return f'(fun (a : AffineG {F}) => a.{fn})'
        if fn in ('set_x', 'set_y'):
            c = fn[-1]
            return f'(fun (a : AffineG {F}) ({c} : {F}) => {{ a with {c} := {c} }})'   # SPEC: the setter is a record update
        return {'from_jacobian': f'@Sm9.G.to_affine {F} _', 'new': f'@Sm9.AffineG.new {F} _ _'}.get(fn)
    if ns == 'LibG2Prepared':
        return {'from': '@Sm9.Api.prepare', 'pairing': '@Sm9.Api.preparedPairing'}.get(fn)
    if ns == 'Lib':
        return f'@Sm9.Api.{fn}'
    if ns in ('AffineG1', 'AffineG2') and fn in ('x', 'y', 'x_mut', 'y_mut', 'clone', 'neg', 'eq'):
        F = 'Fq' if ns == 'AffineG1' else 'Fq2'
        if fn in ('x', 'y'):
            return f'(fun (a : AffineG {F}) => a.{fn})'
        if fn.endswith('_mut'):
            return f'(fun (a : AffineG {F}) => (a, a.{fn[0]}))'   # SPEC: designates the field
        if fn == 'clone':
            return f'(fun (a : AffineG {F}) => a)'                # SPEC
        if fn == 'neg':
            return f'@Sm9.AffineG.neg {F} _'
        return f'(fun (a b : AffineG {F}) => decide (a = b))'     # SPEC: `PartialEq` is structural equality
    if ns in ('AffineG1', 'AffineG2'):
        F = 'Fq' if ns == 'AffineG1' else 'Fq2'
        return f'@Sm9.AffineG.{fn} {F} _ _' if fn == 'new' else f'@Sm9.AffineG.{fn} {F} _'
    return None

G_PLUMBING = ('new', 'x', 'y', 'z', 'x_mut', 'y_mut', 'z_mut', 'clone', 'one', 'random')

def ops_statement(fn):
    """`Ops.<op>[_assign]_<forms>`: the intended meaning of an operator form is the inplace function of its family (SPEC)"""
    fam = fn.split('_')[0]
    binders = '(T : Type) (add_inplace sub_inplace mul_inplace : T → T → T) (neg_inplace : T → T)'
    if fam == 'neg':
        return f'fun {binders} (self : T) => neg_inplace self'
    return f'fun {binders} (self rhs : T) => {fam}_inplace self rhs'

FROB = {'Fq4': ['10', '11', '12', '21', '22', '30', '31', '32'], 'Fq12': ['1', '2', '3', '6']}

# functions whose equality needs more than `rfl` after funext: tactic text
ADD_PROOF = """
  funext a b
  unfold Sm9.Gen.{ns}.add Sm9.G.add
  cases ha : a.is_zero
  · cases hb : b.is_zero
    · simp only [Bool.false_eq_true, if_false]
      have e1 : FieldElement.beq a.z 1 = decide (a.z = {one}) := rfl
      have e2 : FieldElement.beq b.z 1 = decide (b.z = {one}) := rfl
      rw [e1, e2]
      cases h1 : decide (a.z = {one}) <;> cases h2 : decide (b.z = {one})
      · first
        | (bounded 200 => (
            simp only [G.add_ff, FieldElement.is_zero, FieldElement.squared, FieldElement.double]
            repeat' split
            all_goals (try simp_all)
            all_goals (try simp only [Fq2.squared_eq_mul, Fq2.double_eq, Fq.squared_eq_mul', Fq.double_eq', G.mk.injEq])
            all_goals (try (repeat' apply And.intro))
            all_goals (try trivial)
            all_goals (try ring1)
            done))
        | (simp only [G.add_ff]; g_close)
      · first
        | (bounded 200 => (
            simp only [G.add_ft, FieldElement.is_zero, FieldElement.squared, FieldElement.double]
            repeat' split
            all_goals (try simp_all)
            all_goals (try simp only [Fq2.squared_eq_mul, Fq2.double_eq, Fq.squared_eq_mul', Fq.double_eq', G.mk.injEq])
            all_goals (try (repeat' apply And.intro))
            all_goals (try trivial)
            all_goals (try ring1)
            done))
        | (simp only [G.add_ft]; g_close)
      · -- (true, false): `other + self` re-enters `add` and takes the (false, true) arm
        show G.add b a = G.add_ft b a
        unfold G.add
        have e3 : FieldElement.beq b.z 1 = decide (b.z = {one}) := rfl
        simp only [hb, ha, Bool.false_eq_true, if_false, e1, e3, h1, h2]
      · first
        | (bounded 200 => (
            simp only [G.add_tt, FieldElement.is_zero, FieldElement.squared, FieldElement.double]
            repeat' split
            all_goals (try simp_all)
            all_goals (try simp only [Fq2.squared_eq_mul, Fq2.double_eq, Fq.squared_eq_mul', Fq.double_eq', G.mk.injEq])
            all_goals (try (repeat' apply And.intro))
            all_goals (try trivial)
            all_goals (try ring1)
            done))
        | (simp only [G.add_tt]; g_close)
    · simp
  · simp"""

# the index list is generalised before any `rfl`, so that no proof step unrolls the 65-step loops
FROM_PROOF = """
  funext g2
  unfold Sm9.Gen.G2Prepared.from_ Sm9.G2Prepared.from_ G2Prepared.prepLoop loopIdx
  cases hz : g2.is_zero
  · simp only [Bool.false_eq_true, if_false, bits_eq]
    generalize (List.range loopBits).reverse = idxs
    rw [foldl_swap (G := G2Prepared.prepStep g2) (a := g2) (b := [])]
    · generalize List.foldl (G2Prepared.prepStep g2) (g2, []) idxs = st
      obtain ⟨p, cs⟩ := st
      unfold G2Prepared.prepTail
      simp only [pi1, Prod.swap]
      generalize G2m.q_power_frobenius g2 _ = r1
      cases r1 with
      | none => rfl
      | some ka =>
        simp only [Outcome.unwrap, bind, Outcome.bind]
        generalize G2m.q_power_frobenius ka _ = r2
        cases r2 <;> rfl
    · intro p cs i
      simp only [G2Prepared.prepStep, Prod.swap]
      split <;> rfl
  · simp only [↓reduceIte]; rfl"""

MILLER_PROOF = """
  funext self g1
  unfold Sm9.Gen.G2Prepared.miller_loop Sm9.G2Prepared.miller_loop loopIdx
  try simp only [Bool.or_comm self.coeffs.isEmpty]
  cases hc : (g1.is_zero || self.coeffs.isEmpty)
  · simp only [Bool.false_eq_true, if_false, bits_eq]
    generalize (List.range loopBits).reverse = idxs
    rfl
  · simp only [↓reduceIte]; rfl"""

def lib_proofs(ns):
    one = ns == 'LibG1'
    g = 'g1' if one else 'g2'
    el = 32 if one else 64                      # bytes per coordinate
    toS = 'Api.fqToSlice' if one else 'Api.fq2ToSlice'
    toSlen = 'Api.fqToSlice_length' if one else 'Api.fq2ToSlice_length'
    fromS = 'Api.fqFromSliceStrict' if one else 'Api.fq2FromSlice'
    even = 'y.is_even' if one else 'Api.fq2IsEven y'
    aeven = 'a.y.is_even' if one else 'Api.fq2IsEven a.y'
    B = 'Api.g1B' if one else 'Api.g2B'
    P = {}
    P['normalize'] = f'''
  funext p; unfold Sm9.Gen.{ns}.normalize Api.normalize; cases p.to_affine <;> rfl'''
    # decoders: a decision-tree equality; `grind` first (insensitive to how the source spells its tests:
    # `64 != len`, nested vs. combined conditions, order of independent checks), the explicit case split second
    P['from_slice'] = f'''
  funext bs
  unfold Sm9.Gen.{ns}.from_slice Sm9.Api.{g}FromSlice
  simp only [liftNew_eq, getD0]
  first
  | grind
  | (by_cases h : bs.length = {2*el}
     · simp only [h, decide_true, Bool.not_true, Bool.false_eq_true, if_false, ne_eq, not_true_eq_false]
       cases {fromS} (bs.take {el}) <;> cases {fromS} (bs.drop {el}) <;> rfl
     · simp [h])
  | lib_dtree'''
    P['from_uncompressed'] = f'''
  funext bs
  unfold Sm9.Gen.{ns}.from_uncompressed Sm9.Api.{g}FromUncompressed
  simp only [getD0]
  first
  | (by_cases h : bs.length = {2*el+1}
     · have := head_ne_iff bs 4 (by omega)
       grind
     · grind)
  | lib_dtree'''
    P['from_compressed'] = f'''
  funext bs
  unfold Sm9.Gen.{ns}.from_compressed Sm9.Api.{g}FromCompressed
  simp only [liftNew_eq, and_one_eq, getD0, not_decide_eq_bne, decide_eq_beq', bool_bne_comm, bool_beq_comm]
  first
  | grind
  | lib_dtree'''
    P['to_slice'] = f'''
  funext p
  unfold Sm9.Gen.{ns}.to_slice Sm9.Api.{g}ToSlice
  cases p.to_affine with
  | none => rfl
  | some a =>
    simp only [Outcome.unwrap, bind, Outcome.bind]
    first
    | (rw [sliceCopy_mid _ _ 0 {el} (by omega) (by simp) (by simp [{toSlen}])]
       simp only [Outcome.bind]
       rw [sliceCopy_tail _ _ {el} (by simp [{toSlen}])]
       simp [{toSlen}])
    -- any other order / spelling of the copies: evaluate every checked splice (the lengths are known) and compare the byte lists
    | simp [sliceCopy, {toSlen}, Outcome.bind]'''
    P['to_uncompressed'] = f'''
  funext p
  unfold Sm9.Gen.{ns}.to_uncompressed Sm9.Api.{g}ToUncompressed
  cases h : Api.{g}ToSlice p with
  | panic => simp only [bind, Outcome.bind]
  | ok s =>
    have hl : s.length = {2*el} := by
      unfold Api.{g}ToSlice at h
      cases hp : p.to_affine with
      | none => rw [hp] at h; cases h
      | some a => rw [hp] at h; cases h; simp [{toSlen}]
    simp only [bind, Outcome.bind, pure]
    rw [sliceCopy_tail _ _ 1 (by simp [hl])]
    rfl'''
    P['to_compressed'] = f'''
  funext p
  unfold Sm9.Gen.{ns}.to_compressed Sm9.Api.{g}ToCompressed
  cases p.to_affine with
  | none => rfl
  | some a =>
    simp only [Outcome.unwrap, bind, Outcome.bind]
    first
    | (rw [sliceCopy_tail _ _ 1 (by cases {aeven} <;> simp [{toSlen}])]
       cases {aeven} <;> rfl)
    | (cases {aeven} <;> simp [sliceCopy, {toSlen}, Outcome.bind])'''
    return {f'{ns}.{k}': v for k, v in P.items()}

POW_PROOF = '''
  funext x e
  unfold Sm9.Gen.Fq12.pow Sm9.Fq12.pow_u128
  by_cases h0 : e = 0
  · simp [h0]
  · have h0' : (e == 0) = false := by simpa using h0
    simp only [h0, h0', decide_false, Bool.false_eq_true, if_false]
    rw [whileFuel_congr 128 _ (fun s => decide ((s.2 &&& 1) = 0)) _ (fun s => (s.1.squared, s.2 >>> 1))
          (by rintro ⟨b, n⟩; first | rfl | simp only [and1_ne1, and1_ne0, decide_eq_comm (1 : Nat) _]) (by rintro ⟨b, n⟩; rfl), powStrip_while]
    generalize Fq12.powStrip 128 x e = st
    obtain ⟨b, n⟩ := st
    by_cases h1 : n = 1
    · simp [h1]
    · have h1' : (n == 1) = false := by simpa using h1
      simp only [h1, h1', decide_false, Bool.false_eq_true, if_false]
      rw [whileFuel_congr 128 _ (fun s => decide (s.2.2 > 1)) _
            (fun s => (if decide (((s.2.2 >>> 1) &&& 1) = 1) then s.1 * s.2.1.squared else s.1, s.2.1.squared, s.2.2 >>> 1))
            (by rintro ⟨a, b, n⟩; first | rfl | simp only [and1_ne1, and1_ne0, decide_eq_comm (1 : Nat) _]) (by rintro ⟨a, b, n⟩; first | rfl | simp only [and1_ne1, and1_ne0, decide_eq_comm (1 : Nat) _])]
      exact powAcc_while 128 b b n'''

SPECIAL = {
    'Fq2.sqrt': 'fq2_sqrt_equiv Sm9.Gen.Fq2.sqrt',
    'Fq2.from_slice': 'fq2_from_slice_equiv Sm9.Gen.Fq2.from_slice',
    'LibFq2.from_slice': 'funext hex; exact fq2FromSliceE_toOption hex',
    'Fq12.pow': POW_PROOF,
    **lib_proofs('LibG1'), **lib_proofs('LibG2'),
    'Pairings.bit': 'funext n pos; exact bit_equiv n pos',
    'Pairings.pairing': '''first
  | equiv_rfl
  | (funext p q; unfold Sm9.Gen.Pairings.pairing Sm9.Pairings.pairing; cases p.to_affine <;> cases q.to_affine <;> rfl)''',
    'G2Prepared.from': FROM_PROOF,
    'G2Prepared.miller_loop': MILLER_PROOF,
    'G1.add': ADD_PROOF.format(ns='G1', one='(1 : Fq)'),
    'G2.add': ADD_PROOF.format(ns='G2', one='Sm9.Fq2.one'),
    'Fq2.inverse': 'inverse_equiv Sm9.Gen.Fq2.inverse Sm9.Fq2.inverse',
    'Fq4.inverse': 'inverse_equiv Sm9.Gen.Fq4.inverse Sm9.Fq4.inverse',
    'Fq12.inverse': 'inverse_equiv Sm9.Gen.Fq12.inverse Sm9.Fq12.inverse',
    'AffineG1.new': 'dtree_equiv Sm9.Gen.AffineG1.new Sm9.AffineG.new',
    'AffineG2.new': 'dtree_equiv Sm9.Gen.AffineG2.new Sm9.AffineG.new',
    'G1.to_affine': 'to_affine_equiv Sm9.Gen.G1.to_affine',
    'G2.to_affine': 'to_affine_equiv Sm9.Gen.G2.to_affine',
}

def main(gen_dir, exclude=()):
    rep = json.load(open(os.path.join(gen_dir, 'rs2lean_report.json')))
    rust_text = open(os.path.join(gen_dir, 'Rust.lean')).read() if os.path.exists(os.path.join(gen_dir, 'Rust.lean')) else ''
    L = ['-- GENERATED by tools/gen_equiv.py on every run — do not edit.',
         'import Sm9.Gen.Rust', 'import Sm9.Gen.EquivTactics',
         '/-! Every definition translated from the current Rust source equals the model definition. -/',
         'namespace Sm9.GenEquiv', 'open Sm9', '']
    names = []
    for key, status in sorted(rep.items()):
        ns, fn = key.split('.', 1)
        if status != 'translated':
            L.append(f'-- {key}: {status}')
            continue
        if fn == 'frobenius_map':
            for k in FROB[ns]:
                nm = f'{ns}_frob{k}'
                if nm in exclude:
                    L.append(f'-- {nm}: did not check on this run')
                    continue
                L.append(f'theorem {nm} : @Sm9.Gen.{ns}.frob{k} = @Sm9.{ns}.frob{k} := by equiv_tac Sm9.Gen.{ns}.frob{k} Sm9.{ns}.frob{k}')
                names.append(nm)
            continue
        if ns in ('Fq2', 'Fq4', 'Fq12') and fn == 'to_slice':
            # the translation is Outcome-valued (`copy_from_slice` can panic); the model function is total
            nm = f'{ns}_to_slice'
            if nm in exclude:
                L.append(f'-- {nm}: did not check on this run')
                continue
            low = ns.lower()
            if ns == 'Fq12':
                pf = 'sliceCopy_three _ _ _ _ 128 (List.length_replicate ..) (fq4ToSlice_length _) (fq4ToSlice_length _) (fq4ToSlice_length _)'
            elif ns == 'Fq4':
                pf = 'sliceCopy_two _ _ _ 64 (List.length_replicate ..) (Api.fq2ToSlice_length _) (Api.fq2ToSlice_length _)'
            else:
                pf = 'sliceCopy_two _ _ _ 32 (List.length_replicate ..) (Api.fqToSlice_length _) (Api.fqToSlice_length _)'
            L.append(f'theorem {nm} (a : {ns}) : Sm9.Gen.{ns}.to_slice a = .ok (Sm9.Api.{low}ToSlice a) := by\n  unfold Sm9.Gen.{ns}.to_slice Sm9.Api.{low}ToSlice\n  exact {pf}')
            names.append(nm)
            continue
        m = ops_statement(fn) if ns == 'Ops' else model_of(ns, fn)
        if m is None:
            continue
        nm = f'{ns}_{fn}'
        if nm in exclude:
            L.append(f'-- {nm}: did not check on this run (left out so that the other theorems can be audited)')
            continue
        fnl = fn + '_' if fn in ('from', 'at', 'by') else fn
        if key == 'G2Prepared.get_fq12':
            # `&self` is an unused parameter in Rust; the model drops it
            L.append(f'theorem {nm} (s : G2Prepared) : @Sm9.Gen.{ns}.{fnl} s = {m} := by equiv_rfl')
            names.append(nm)
            continue
        if ns == 'Ops':
            default = 'rfl'
        elif ns in ('G1', 'G2') and fn in G_PLUMBING:
            default = 'equiv_rfl'
        elif ns in ('AffineG1', 'AffineG2') and fn == 'eq':
            default = f'affine_eq_equiv Sm9.Gen.{ns}.eq'
        elif ns in ('Fq2', 'Fq4', 'Fq12') and fn == 'random':
            default = 'equiv_rfl'
        elif ns in ('G1', 'G2'):
            default = f'g_tac Sm9.Gen.{ns}.{fnl} Sm9.G.{fn}'
        elif ns in ('Fq2', 'Fq4', 'Fq12') and not fn.startswith('final_'):
            default = f'equiv_tac Sm9.Gen.{ns}.{fnl} Sm9.{ns}.{fn}'
        elif ns == 'LibFq2' and fn.endswith('_inplace'):
            default = f'equiv_ring Sm9.Gen.{ns}.{fnl}'
        else:
            default = 'equiv_rfl'
        if default == 'equiv_rfl' and ns != 'Ops':
            mm = re.match(r'@(Sm9\.[\w.]+)', m)
            if mm:
                default = f'equiv_unf Sm9.Gen.{ns}.{fnl} {mm.group(1)}'
        tac = SPECIAL.get(key, default)
        # tactics that try several alternatives, each with its own budget (`bounded`, EquivTactics.lean): the theorem as a whole
        # gets more (the budget of a failed alternative still counts against the enclosing declaration)
        pre = 'set_option maxHeartbeats 1000000 in\n' if any(k in tac for k in ('bounded', 'g_tac', 'to_affine_equiv', 'equiv_unf')) else ''
        L.append(f'{pre}theorem {nm} : @Sm9.Gen.{ns}.{fnl} = {m} := by {tac}')
        names.append(nm)
        if key in ('G1Params.coeff_b', 'G2Params.coeff_b') and f'{nm}_value' not in exclude:
            # SPEC: the curve is y² = x³ + 5 (G2: the twist coefficient 5·u) — holds whatever constant the source and hence Consts.lean carry
            val = 'Sm9.Fq.ofNat 5' if ns == 'G1Params' else '({ c0 := 0, c1 := Sm9.Fq.ofNat 5 } : Fq2)'
            L.append(f'theorem {nm}_value : Sm9.Gen.{ns}.coeff_b = {val} := by first | rfl | decide +kernel')
            names.append(f'{nm}_value')
        if key in ('G1Params.one', 'G2Params.one') and f'{nm}_unwrap_ok' not in exclude:
            # side condition of reading `Fq::from_slice(&CONST).unwrap()` as `Fq.ofNat CONST`: the strict decoder accepts the constant
            d = re.search(r'^def ' + re.escape(f'{ns}.one') + r'\b.*?(?=^def |^/-- |\Z)', rust_text, flags=re.S | re.M)
            cs = sorted(set(re.findall(r'Sm9\.Fq\.ofNat Consts\.(\w+)', d.group(0)))) if d else []
            if cs:
                L.append(f'theorem {nm}_unwrap_ok : ' + ' ∧ '.join(f'Consts.{c} < Consts.FQ' for c in cs) + ' := by decide')
                names.append(f'{nm}_unwrap_ok')
        if key == 'Fq2.from_slice' and f'{nm}_toOption' not in exclude:
            # against the model's decoder, which keeps `Option`
            L.append(f'theorem {nm}_toOption (s : List UInt8) : (Sm9.Gen.Fq2.from_slice s).toOption = Sm9.Api.fq2FromSlice s := by\n  rw [{nm}]; exact fq2FromSliceE_toOption s')
            names.append(f'{nm}_toOption')
    L += ['', 'end Sm9.GenEquiv', '']
    text = '\n'.join(L)
    path = os.path.join(gen_dir, 'Equiv.lean')
    if not os.path.exists(path) or open(path).read() != text:
        open(path, 'w').write(text)
    print(json.dumps({'equiv_theorems': len(names)}))

if __name__ == '__main__':
    main(sys.argv[1], set(sys.argv[2].split(',')) if len(sys.argv) > 2 and sys.argv[2] else ())
