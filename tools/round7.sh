#!/bin/sh
# usage: round7.sh Cxx prop...   confirm the sub-agent's change in its worktree, store it, evaluate, remove the worktree
pid=$1; shift
python3 /verif/tools/confirm7.py /tmp/w7/$pid $pid-g > /tmp/w7/$pid.confirm.json 2>&1 || { echo "$pid NOT CONFIRMED"; tail -20 /tmp/w7/$pid.confirm.json; exit 1; }
python3 /verif/tools/seed_eval2.py $pid-g "$@"
git -C /repo worktree remove --force /tmp/w7/$pid
