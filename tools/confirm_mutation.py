#!/usr/bin/env python3
"""confirm a seeded mutation in its scratch worktree:
   usage: confirm_mutation.py <worktree> <outdir(a|b)> [--hooks]
   1. baseline: demo passes, 2. apply: suite passes, demo fails, 3. restore."""
import sys, subprocess, os, json, shutil
wt, out = sys.argv[1], sys.argv[2]
hooks = '--hooks' in sys.argv
env = dict(os.environ, CARGO_NET_OFFLINE='true')
def run(cmd, extra_env=None):
    e = dict(env); e.update(extra_env or {})
    p = subprocess.run(cmd, cwd=wt, env=e, shell=True, stdout=subprocess.PIPE, stderr=subprocess.STDOUT, text=True)
    return p.returncode, p.stdout
od = os.path.join(wt, 'OUT', out)
demo = os.path.join(wt, 'tests', f'zz_demo_{out}.rs')
# clean any demo files agents left
for f in os.listdir(os.path.join(wt, 'tests')):
    if f.startswith('demo_') or f.startswith('zz_demo_'):
        os.remove(os.path.join(wt, 'tests', f))
run('git checkout -- src')
shutil.copy(os.path.join(od, 'demo.rs'), demo)
demo_env = {'RUSTFLAGS': '--cfg john_yu_sm9_core_verif'} if hooks else {}
tdir = '--target-dir target/verif' if hooks else ''
res = {}
rc, o = run(f'cargo test --offline {tdir} --test zz_demo_{out} 2>&1 | tail -15', demo_env)
res['demo_on_clean'] = 'pass' if 'test result: ok' in o and 'FAILED' not in o else 'FAIL'
rc, o = run(f'git apply {od}/patch.diff')
res['apply'] = rc
os.rename(demo, demo + '.off')
rc, o = run('cargo test --offline 2>&1 | grep -E "test result|FAILED|error" ')
res['suite_with_mutation'] = o.strip().replace('\n', ' | ')
os.rename(demo + '.off', demo)
rc, o = run(f'cargo test --offline {tdir} --test zz_demo_{out} 2>&1 | tail -8', demo_env)
res['demo_with_mutation'] = 'FAILS(as expected)' if ('FAILED' in o or 'panicked' in o or 'error' in o) else 'passes?!'
res['demo_tail'] = o[-400:]
run('git checkout -- src')
os.remove(demo)
print(json.dumps(res, indent=1))
