#!/bin/sh
# usage: round10.sh Cxx prop...   confirm the sub-agent's change in /tmp/w10/Cxx, store it as seeded/Cxx-j, evaluate in the private clone, remove the worktree
pid=$1; shift
python3 /verif/tools/confirm7.py /tmp/w10/$pid $pid-j > /tmp/w10/$pid.confirm.json 2>&1 || { echo "$pid NOT CONFIRMED"; tail -20 /tmp/w10/$pid.confirm.json; exit 1; }
python3 /verif/tools/seed_eval2.py $pid-j "$@"
git -C /repo worktree remove --force /tmp/w10/$pid
