import sympy, sys
sys.setrecursionlimit(10000)
order=[]; cert={}
def pratt(p):
    if p in cert or p < 100: return
    f=sympy.factorint(p-1)
    for l in f: pratt(l)
    a=2
    while not (pow(a,p-1,p)==1 and all(pow(a,(p-1)//l,p)!=1 for l in f)): a+=1
    cert[p]=(a,f); order.append(p)
q=0xB640000002A3A6F1D603AB4FF58EC74521F2934B1A7AEEDBE56F9B27E351457D
r=0xB640000002A3A6F1D603AB4FF58EC74449F2934B18EA8BEEE56EE19CD69ECF25
pratt(q); pratt(r)
out=["import Pr.Basic","import Mathlib.Tactic.NormNum.Prime","","set_option maxRecDepth 100000",""]
def pr(l): return f"prime_{l}" if l>=100 else f"(by norm_num : Nat.Prime {l})"
for p in order:
    a,f=cert[p]
    fl=[l for l,e in f.items() for _ in range(e)]
    cases=" | ".join("rfl" for _ in fl)
    mem_proofs="\n".join(f"    · exact {pr(l)}" for l in fl)
    out.append(f"theorem prime_{p} : Nat.Prime {p} := by")
    out.append(f"  refine lucas_of_factors {p} {a} {fl} (by norm_num) ?_ (by decide +kernel) (by decide +kernel) ?_")
    out.append(f"  · intro f hf")
    out.append(f"    simp only [List.mem_cons, List.mem_nil_iff, or_false] at hf")
    out.append(f"    rcases hf with {cases}")
    out.append(mem_proofs)
    out.append(f"  · intro f hf")
    out.append(f"    simp only [List.mem_cons, List.mem_nil_iff, or_false] at hf")
    out.append(f"    rcases hf with {cases} <;> decide +kernel")
    out.append("")
out.append(f"theorem q_prime : Nat.Prime 0x{q:X} := prime_{q}")
out.append(f"theorem r_prime : Nat.Prime 0x{r:X} := prime_{r}")
out.append("#print axioms q_prime")
open("Pr/Cert.lean","w").write("\n".join(out)+"\n")
print(len(order),"primes")
