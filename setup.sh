#!/bin/sh
# Build the framework from files on disk only (offline).  Run once in /verif after a fresh restore.
set -e
cd "$(dirname "$0")"
export CARGO_NET_OFFLINE=true
mkdir -p .work evidence
( cd rs2lean && cargo build --offline --release )
rs2lean/target/release/rs2lean "${VERIF_REPO:-/repo}/src" lean/Sm9/Gen
python3 tools/gen_equiv.py lean/Sm9/Gen
python3 tools/gen_limb_equiv.py lean/Sm9/Gen
python3 tools/extract_consts.py "${VERIF_REPO:-/repo}" lean/Sm9/Gen/Consts.lean
( cd lean && lake build sm9drv && lake build Sm9 Sm9.Gen.Equiv Sm9.Gen.LimbEquiv )
( cd harness && RUSTFLAGS="--cfg john_yu_sm9_core_verif" cargo build --offline --release --target-dir target/int \
             && RUSTFLAGS="--cfg john_yu_sm9_core_verif" cargo build --offline --target-dir target/int )
echo setup done
