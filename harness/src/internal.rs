//! operations on crate internals, through `sm9_core::verif_hooks`
use crate::text::*;
use sm9_core::verif_hooks as vh;
use sm9_core::verif_hooks::{FieldElement, GroupElement};
use sm9_core::{One, Zero};

fn p_u256(s: &str) -> Option<vh::U256> {
    if s.len() != 64 {
        return None;
    }
    vh::U256::from_slice(&p_bytes(s)?).ok()
}
fn s_u256(a: &vh::U256) -> String {
    let mut b = [0u8; 32];
    a.to_big_endian(&mut b).unwrap();
    hex(&b)
}
fn limbs_of(s: &str) -> Option<[u64; 4]> {
    Some(vh::u256_limbs(&p_u256(s)?))
}
fn p_u64(s: &str) -> Option<u64> {
    u64::from_str_radix(s, 16).ok()
}
fn p_ifq(s: &str) -> Option<vh::Fq> {
    if s.len() != 64 {
        return None;
    }
    vh::Fq::from_slice(&p_bytes(s)?)
}
fn s_ifq(a: &vh::Fq) -> String {
    hex(&a.to_slice())
}
fn p_ifq2(s: &str) -> Option<vh::Fq2> {
    if s.len() != 128 {
        return None;
    }
    Some(vh::Fq2::new(p_ifq(&s[64..])?, p_ifq(&s[..64])?))
}
fn s_ifq2(a: &vh::Fq2) -> String {
    hex(&a.to_slice())
}
fn p_ifq4(s: &str) -> Option<vh::Fq4> {
    if s.len() != 256 {
        return None;
    }
    Some(vh::Fq4::new(p_ifq2(&s[128..])?, p_ifq2(&s[..128])?))
}
fn s_ifq4(a: &vh::Fq4) -> String {
    let h = hex(&a.to_slice());
    match p_ifq4(&h) {
        Some(c) if c == *a => h,
        _ => format!("{}|NONCANONICAL-LIMBS", h),
    }
}
fn p_ifq12(s: &str) -> Option<vh::Fq12> {
    if s.len() != 768 {
        return None;
    }
    Some(vh::Fq12::new(p_ifq4(&s[512..])?, p_ifq4(&s[256..512])?, p_ifq4(&s[..256])?))
}
fn s_ifq12(a: &vh::Fq12) -> String {
    // the canonical encoding; a value whose stored limbs are not the canonical ones (e.g. a coefficient stored as q instead
    // of 0) encodes like the canonical value but is a different value for the derived `==`: flag it
    let h = hex(&a.to_slice());
    match p_ifq12(&h) {
        Some(c) if c == *a => h,
        _ => format!("{}|NONCANONICAL-LIMBS", h),
    }
}
fn p_ig1(s: &str) -> Option<vh::G1> {
    let v: Vec<&str> = s.split(':').collect();
    if v.len() != 3 {
        return None;
    }
    Some(vh::G1::new(p_ifq(v[0])?, p_ifq(v[1])?, p_ifq(v[2])?))
}
fn p_ig2(s: &str) -> Option<vh::G2> {
    let v: Vec<&str> = s.split(':').collect();
    if v.len() != 3 {
        return None;
    }
    Some(vh::G2::new(p_ifq2(v[0])?, p_ifq2(v[1])?, p_ifq2(v[2])?))
}
fn s_opt12(o: Option<vh::Fq12>) -> String {
    s_opt(o.map(|v| s_ifq12(&v)))
}

pub fn run_op(parts: &[&str], _form: &str, args: &[&str]) -> Option<String> {
    let r = match (parts, args) {
        (["u256", "add"], [a, b, m]) => {
            let mut x = p_u256(a)?;
            x.add(&p_u256(b)?, &p_u256(m)?);
            s_u256(&x)
        }
        (["u256", "sub"], [a, b, m]) => {
            let mut x = p_u256(a)?;
            x.sub(&p_u256(b)?, &p_u256(m)?);
            s_u256(&x)
        }
        (["u256", "mul2"], [a, m]) => {
            let mut x = p_u256(a)?;
            x.mul2(&p_u256(m)?);
            s_u256(&x)
        }
        (["u256", "div2"], [a, m]) => {
            let mut x = p_u256(a)?;
            x.div2(&p_u256(m)?);
            s_u256(&x)
        }
        (["u256", "neg"], [a, m]) => {
            let mut x = p_u256(a)?;
            x.neg(&p_u256(m)?);
            s_u256(&x)
        }
        (["u256", "mul"], [a, b, m, inv]) => {
            let mut x = p_u256(a)?;
            x.mul(&p_u256(b)?, &p_u256(m)?, p_u64(inv)?);
            s_u256(&x)
        }
        (["u256", "square"], [a, m, inv]) => {
            let mut x = p_u256(a)?;
            x.square(&p_u256(m)?, p_u64(inv)?);
            s_u256(&x)
        }
        (["u256", "invert"], [a, m, r2]) => {
            let mut x = p_u256(a)?;
            x.invert(&p_u256(m)?, &p_u256(r2)?);
            format!("SOME {}", s_u256(&x))
        }
        (["fqraw", o], ws) => {
            let v: Option<Vec<vh::Fq>> = ws.iter().map(|w| limbs_of(w).map(vh::fq_from_raw)).collect();
            let v = v?;
            let raw = |x: &vh::Fq| s_u256(&vh::U256::from(vh::fq_raw(x)));
            match (*o, v.as_slice()) {
                ("add", [a, b]) => raw(&(*a + *b)),
                ("sub", [a, b]) => raw(&(*a - *b)),
                ("mul", [a, b]) => raw(&(*a * *b)),
                ("neg", [a]) => raw(&(-*a)),
                ("double", [a]) => raw(&a.double()),
                ("triple", [a]) => raw(&a.triple()),
                ("squared", [a]) => raw(&a.squared()),
                ("div2", [a]) => raw(&a.div2()),
                ("into", [a]) => s_u256(&vh::fq_into_u256(*a)),
                ("inverse", [a]) => s_opt(a.inverse().map(|x| raw(&x))),
                ("sop2", [a0, a1, b0, b1]) => raw(&vh::fq_sum_of_products2(&[*a0, *a1], &[*b0, *b1])),
                ("sop4", [a0, a1, a2, a3, b0, b1, b2, b3]) => {
                    raw(&vh::fq_sum_of_products4(&[*a0, *a1, *a2, *a3], &[*b0, *b1, *b2, *b3]))
                }
                _ => return None,
            }
        }
        (["frraw", o], ws) => {
            let v: Option<Vec<vh::Fr>> = ws.iter().map(|w| limbs_of(w).map(vh::fr_from_raw)).collect();
            let v = v?;
            let raw = |x: &vh::Fr| s_u256(&vh::U256::from(vh::fr_raw(x)));
            match (*o, v.as_slice()) {
                ("add", [a, b]) => raw(&(*a + *b)),
                ("sub", [a, b]) => raw(&(*a - *b)),
                ("mul", [a, b]) => raw(&(*a * *b)),
                ("neg", [a]) => raw(&(-*a)),
                ("squared", [a]) => raw(&a.squared()),
                ("into", [a]) => s_u256(&vh::fr_into_u256(*a)),
                _ => return None,
            }
        }
        (["u512", "divrem"], [n, m]) => {
            if n.len() != 128 {
                return None;
            }
            let n = vh::U512::from_slice(&p_bytes(n)?).ok()?;
            let (q, r) = n.divrem(&p_u256(m)?);
            format!("{}|{}", s_opt(q.map(|x| s_u256(&x))), s_u256(&r))
        }
        (["fq4", "mul"], [a, b]) => s_ifq4(&(p_ifq4(a)? * p_ifq4(b)?)),
        (["fq4", "mul_1"], [a, b]) => s_ifq4(&p_ifq4(a)?.mul_1(&p_ifq4(b)?)),
        (["fq4", "sq"], [a]) => s_ifq4(&p_ifq4(a)?.squared()),
        (["fq4", "inv"], [a]) => s_opt(p_ifq4(a)?.inverse().map(|v| s_ifq4(&v))),
        (["fq4", "frob"], [k, a]) => s_ifq4(&p_ifq4(a)?.frobenius_map(k.parse().ok()?)),
        (["fq12", "mul"], [a, b]) => s_ifq12(&(p_ifq12(a)? * p_ifq12(b)?)),
        (["fq12", "mul_015"], [a, b]) => s_ifq12(&p_ifq12(a)?.mul_015(&p_ifq12(b)?)),
        (["fq12", "sq"], [a]) => s_ifq12(&p_ifq12(a)?.squared()),
        (["fq12", "inv"], [a]) => {
            let x = p_ifq12(a)?;
            match x.inverse() {
                Some(i) => format!("SOME|{}|{}", s_ifq12(&i), s_ifq12(&(i * x))),
                None => "NONE".into(),
            }
        }
        (["fq12", "frob"], [k, a]) => s_ifq12(&p_ifq12(a)?.frobenius_map(k.parse().ok()?)),
        (["fq12", "pow"], [a, e]) => {
            let e = u128::from_str_radix(e, 16).ok()?;
            s_ifq12(&vh::pairing_hooks::fq12_pow(&p_ifq12(a)?, e))
        }
        (["fq12", "fe"], [a]) => s_opt12(p_ifq12(a)?.final_exponentiation()),
        (["fq12", "fexp"], [a]) => s_opt12(p_ifq12(a)?.final_exp()),
        (["miller", "g2"], [q, p]) => {
            let f = p_ig2(q)?.miller_loop(&p_ig1(p)?);
            format!("{}|{}", s_ifq12(&f), s_opt12(f.final_exp()))
        }
        (["miller", "prep"], [q, p]) => {
            let pr = vh::G2Prepared::from(p_ig2(q)?);
            let f = pr.miller_loop(&p_ig1(p)?);
            format!("{}|{}", s_ifq12(&f), s_opt12(f.final_exp()))
        }
        _ => return None,
    };
    let _ = (vh::Fq::one(), vh::Fq::zero(), vh::G1::one());
    Some(r)
}
