//! Correspondence harness: executes the line protocol against the real `sm9_core`.
//!
//! usage: sm9_harness <ops-file> [timeout-ms]
//! One output line per input line.  Every operation runs in its own thread under
//! `catch_unwind`; a panic prints `PANIC`, exceeding the time limit prints `TIMEOUT`.
use sm9_core::*;
use std::io::{BufRead, Write};
use std::sync::mpsc;
use std::time::Duration;

mod text;
use text::*;

#[cfg(john_yu_sm9_core_verif)]
mod internal;
mod prog;

/// scripted RNG: yields the given u64 words, then zeros
pub struct ScriptRng {
    pub words: Vec<u64>,
    pub pos: usize,
}
impl rand::RngCore for ScriptRng {
    fn next_u32(&mut self) -> u32 {
        self.next_u64() as u32
    }
    fn next_u64(&mut self) -> u64 {
        let v = self.words.get(self.pos).copied().unwrap_or(0);
        self.pos += 1;
        v
    }
    fn fill_bytes(&mut self, dest: &mut [u8]) {
        for chunk in dest.chunks_mut(8) {
            let b = self.next_u64().to_le_bytes();
            chunk.copy_from_slice(&b[..chunk.len()]);
        }
    }
    fn try_fill_bytes(&mut self, dest: &mut [u8]) -> Result<(), rand::Error> {
        self.fill_bytes(dest);
        Ok(())
    }
}

macro_rules! binop_forms {
    ($form:expr, $a:expr, $b:expr, $op:tt, $opa:tt) => {{
        let a = $a;
        let b = $b;
        match $form {
            "vv" | "" => Some(a $op b),
            "rv" => Some(&a $op b),
            "vr" => Some(a $op &b),
            "rr" => Some(&a $op &b),
            "av" => {
                let mut t = a;
                t $opa b;
                Some(t)
            }
            "ar" => {
                let mut t = a;
                t $opa &b;
                Some(t)
            }
            _ => None,
        }
    }};
}

fn fr_bin(o: &str, form: &str, a: Fr, b: Fr) -> Option<Fr> {
    match o {
        "add" => binop_forms!(form, a, b, +, +=),
        "sub" => binop_forms!(form, a, b, -, -=),
        "mul" => binop_forms!(form, a, b, *, *=),
        _ => None,
    }
}
fn fq_bin(o: &str, form: &str, a: Fq, b: Fq) -> Option<Fq> {
    match o {
        "add" => binop_forms!(form, a, b, +, +=),
        "sub" => binop_forms!(form, a, b, -, -=),
        "mul" => binop_forms!(form, a, b, *, *=),
        _ => None,
    }
}
fn fq2_bin(o: &str, form: &str, a: Fq2, b: Fq2) -> Option<Fq2> {
    match o {
        "add" => binop_forms!(form, a, b, +, +=),
        "sub" => binop_forms!(form, a, b, -, -=),
        "mul" => binop_forms!(form, a, b, *, *=),
        _ => None,
    }
}

fn curve_err(e: CurveError) -> String {
    match e {
        CurveError::InvalidEncoding => "ERR InvalidEncoding".into(),
        CurveError::NotMember => "ERR NotMember".into(),
        CurveError::Field(_) => "ERR Field".into(),
        CurveError::ToAffineConversion => "ERR ToAffineConversion".into(),
    }
}
fn group_err(e: GroupError) -> String {
    match e {
        GroupError::NotOnCurve => "ERR NotOnCurve".into(),
        GroupError::NotInSubgroup => "ERR NotInSubgroup".into(),
    }
}

fn ok_pt1(r: Result<G1, CurveError>) -> String {
    match r {
        Ok(p) => format!("OK|{}|{}", s_g1(&p), aff_g1(&p)),
        Err(e) => curve_err(e),
    }
}
fn ok_pt2(r: Result<G2, CurveError>) -> String {
    match r {
        Ok(p) => format!("OK|{}|{}", s_g2(&p), aff_g2(&p)),
        Err(e) => curve_err(e),
    }
}

pub fn run_op(op: &str, args: &[&str]) -> Option<String> {
    let (base, form) = match op.split_once('@') {
        Some((b, f)) => (b, f),
        None => (op, ""),
    };
    let parts: Vec<&str> = base.split('.').collect();
    let r = match (parts.as_slice(), args) {
        (["fr", "pow"], [a, b]) => s_fr(&p_fr(a)?.pow(p_fr(b)?)),
        (["fq", "pow"], [a, b]) => s_fq(&p_fq(a)?.pow(p_fq(b)?)),
        (["fq", "to_big_endian"], [a, n]) => {
            let x = p_fq(a)?;
            let n: usize = n.parse().ok()?;
            let mut buf = vec![0u8; n];
            match x.to_big_endian(&mut buf) {
                Ok(()) => format!("OK {}", hex(&buf)),
                Err(_) => "ERR".into(),
            }
        }
        (["fr", o], [a, b]) => s_fr(&fr_bin(o, form, p_fr(a)?, p_fr(b)?)?),
        (["fq", o], [a, b]) => s_fq(&fq_bin(o, form, p_fq(a)?, p_fq(b)?)?),
        (["fr", "neg"], [a]) => {
            let x = p_fr(a)?;
            s_fr(&if form == "r" { -&x } else { -x })
        }
        (["fq", "neg"], [a]) => {
            let x = p_fq(a)?;
            s_fq(&if form == "r" { -&x } else { -x })
        }
        (["fr", "inv"], [a]) => s_opt(p_fr(a)?.inverse().map(|v| s_fr(&v))),
        (["fq", "inv"], [a]) => s_opt(p_fq(a)?.inverse().map(|v| s_fq(&v))),
        (["fr", "is_zero"], [a]) => s_bool(p_fr(a)?.is_zero()),
        (["fq", "is_zero"], [a]) => s_bool(p_fq(a)?.is_zero()),
        (["fq", "is_even"], [a]) => s_bool(p_fq(a)?.is_even()),
        (["fq", "sqrt"], [a]) => s_opt(p_fq(a)?.sqrt().map(|v| s_fq(&v))),
        (["fr", "to_slice"], [a]) => {
            let x = p_fr(a)?;
            match form {
                "into" => hex(&<[u8; 32]>::from(x)),
                "intoref" => hex(&<[u8; 32]>::from(&x)),
                _ => hex(&x.to_slice()),
            }
        }
        (["fq", "to_slice"], [a]) => {
            let x = p_fq(a)?;
            match form {
                "into" => hex(&<[u8; 32]>::from(x)),
                _ => hex(&x.to_slice()),
            }
        }
        (["fr", "from_slice"], [h]) => {
            let bs = p_bytes(h)?;
            if form == "try" {
                s_opt(Fr::try_from(&bs[..]).ok().map(|v| s_fr(&v)))
            } else {
                s_opt(Fr::from_slice(&bs).map(|v| s_fr(&v)))
            }
        }
        (["fq", "from_slice"], [h]) => {
            let bs = p_bytes(h)?;
            if form == "try" {
                s_opt(Fq::try_from(&bs[..]).ok().map(|v| s_fq(&v)))
            } else {
                s_opt(Fq::from_slice(&bs).map(|v| s_fq(&v)))
            }
        }
        (["fr", "interpret"], [h]) => {
            let bs = p_bytes(h)?;
            let arr: [u8; 64] = bs.try_into().ok()?;
            s_fr(&Fr::interpret(&arr))
        }
        (["fq", "interpret"], [h]) => {
            let bs = p_bytes(h)?;
            let arr: [u8; 64] = bs.try_into().ok()?;
            s_fq(&Fq::interpret(&arr))
        }
        (["fr", "from_str"], [h]) => {
            let s = String::from_utf8(p_bytes(h)?).ok()?;
            s_opt(Fr::from_str(&s).ok().map(|v| s_fr(&v)))
        }
        (["fq", "from_str"], [h]) => {
            let s = String::from_utf8(p_bytes(h)?).ok()?;
            s_opt(Fq::from_str(&s).ok().map(|v| s_fq(&v)))
        }
        (["fr", "from_hash"], [h]) => s_opt(Fr::from_hash(&p_bytes(h)?).map(|v| s_fr(&v))),
        (["fr", "set_bit"], [a, i, v]) => {
            let mut x = p_fr(a)?;
            x.set_bit(i.parse().ok()?, *v == "1");
            s_fr(&x)
        }
        (["fr", "random"], ws) if ws.len() == 8 => {
            let words: Option<Vec<u64>> = ws.iter().map(|w| u64::from_str_radix(w, 16).ok()).collect();
            let mut rng = ScriptRng { words: words?, pos: 0 };
            s_fr(&Fr::random(&mut rng))
        }
        (["fq2", "neg"], [a]) => {
            let x = p_fq2(a)?;
            s_fq2(&if form == "r" { -&x } else { -x })
        }
        (["fq2", "parts"], [a]) => {
            let x = p_fq2(a)?;
            format!(
                "{}|{}|{}|{}",
                s_fq(&x.real()),
                s_fq(&x.imaginary()),
                s_bool(x.is_even()),
                s_bool(x.is_zero())
            )
        }
        (["fq2", "new"], [re, im]) => {
            let v = Fq2::new(p_fq(re)?, p_fq(im)?);
            if form == "into" {
                hex(&<[u8; 64]>::from(v))
            } else {
                hex(&v.to_slice())
            }
        }
        (["fq2", "from_slice"], [h]) => {
            let bs = p_bytes(h)?;
            if form == "try" {
                s_opt(Fq2::try_from(&bs[..]).ok().map(|v| s_fq2(&v)))
            } else {
                s_opt(Fq2::from_slice(&bs).map(|v| s_fq2(&v)))
            }
        }
        (["fq2", "sqrt"], [a]) => match p_fq2(a)?.sqrt() {
            Some(rt) => format!("SOME|{}|{}", s_fq2(&rt), s_fq2(&(rt * rt))),
            None => "NONE".into(),
        },
        (["fq2", "law"], [a, b]) => {
            // C07 on Fq2: the product is canonical — `==`, is_zero and later operations agree with its encoding
            let p = p_fq2(a)? * p_fq2(b)?;
            let enc = p.to_slice();
            let fresh = Fq2::from_slice(&enc)?;
            let mut laws = "LAWS-OK".to_string();
            if p != fresh {
                laws = "LAWFAIL:eq-vs-encoding".into();
            }
            if p.is_zero() != (enc == [0u8; 64]) {
                laws = "LAWFAIL:is_zero".into();
            }
            if p.real().is_zero() != (enc[32..] == [0u8; 32]) || p.imaginary().is_zero() != (enc[..32] == [0u8; 32]) {
                laws = "LAWFAIL:component-is_zero".into();
            }
            if (p + Fq2::one()).to_slice() != (fresh + Fq2::one()).to_slice() || (p - p).to_slice() != [0u8; 64] || !(p - fresh).is_zero() {
                laws = "LAWFAIL:later-op".into();
            }
            format!("{}|{}", hex(&enc), laws)
        }
        (["fq2", o], [a, b]) => s_fq2(&fq2_bin(o, form, p_fq2(a)?, p_fq2(b)?)?),
        // ---------------- groups ----------------
        (["g1", "add"], [a, b]) => out_g1(&(p_g1(a)? + p_g1(b)?)),
        (["g1", "sub"], [a, b]) => out_g1(&(p_g1(a)? - p_g1(b)?)),
        (["g1", "neg"], [a]) => out_g1(&(-p_g1(a)?)),
        (["g1", "mul"], [a, k]) => {
            let p = p_g1(a)?;
            let k = p_fr(k)?;
            out_g1(&if form == "rev" { k * p } else { p * k })
        }
        (["g1", "eq"], [a, b]) => s_bool(p_g1(a)? == p_g1(b)?),
        (["g1", "is_zero"], [a]) => s_bool(p_g1(a)?.is_zero()),
        (["g1", "normalize"], [a]) => {
            let mut p = p_g1(a)?;
            p.normalize();
            format!("{}|{}", out_g1(&p), s_bool(p.z() == Fq::one() || p.is_zero()))
        }
        (["g1", "affine"], [a]) => match AffineG1::from_jacobian(p_g1(a)?) {
            None => "NONE".into(),
            Some(af) => {
                let back: G1 = af.into();
                format!("SOME {}{}|{}", s_fq(&af.x()), s_fq(&af.y()), s_g1(&back))
            }
        },
        // setters, accessors and the curve coefficient: `set_<c>(v)` on a point given by raw coordinates
        (["g1", "set"], [a, c, v]) => {
            let mut p = p_g1(a)?;
            let v = p_fq(v)?;
            match *c { "x" => p.set_x(v), "y" => p.set_y(v), "z" => p.set_z(v), _ => return None }
            format!("{}|{}:{}:{}|{}", s_g1(&p), s_fq(&p.x()), s_fq(&p.y()), s_fq(&p.z()), s_fq(&G1::b()))
        }
        (["g1", "from_slice"], [h]) => ok_pt1(G1::from_slice(&p_bytes(h)?)),
        (["g1", "from_uncompressed"], [h]) => ok_pt1(G1::from_uncompressed(&p_bytes(h)?)),
        (["g1", "from_compressed"], [h]) => ok_pt1(G1::from_compressed(&p_bytes(h)?)),
        (["g1", "to_slice"], [a]) => format!("OK {}", hex(&p_g1(a)?.to_slice())),
        (["g1", "to_uncompressed"], [a]) => format!("OK {}", hex(&p_g1(a)?.to_uncompressed())),
        (["g1", "to_compressed"], [a]) => format!("OK {}", hex(&p_g1(a)?.to_compressed())),
        (["g2", "add"], [a, b]) => out_g2(&(p_g2(a)? + p_g2(b)?)),
        (["g2", "sub"], [a, b]) => out_g2(&(p_g2(a)? - p_g2(b)?)),
        (["g2", "neg"], [a]) => out_g2(&(-p_g2(a)?)),
        (["g2", "mul"], [a, k]) => {
            let p = p_g2(a)?;
            let k = p_fr(k)?;
            out_g2(&if form == "rev" { k * p } else { p * k })
        }
        (["g2", "eq"], [a, b]) => s_bool(p_g2(a)? == p_g2(b)?),
        (["g2", "is_zero"], [a]) => s_bool(p_g2(a)?.is_zero()),
        (["g2", "normalize"], [a]) => {
            let mut p = p_g2(a)?;
            p.normalize();
            format!("{}|{}", out_g2(&p), s_bool(p.z() == Fq2::one() || p.is_zero()))
        }
        (["g2", "affine"], [a]) => match AffineG2::from_jacobian(p_g2(a)?) {
            None => "NONE".into(),
            Some(af) => {
                let back: G2 = af.into();
                format!("SOME {}{}|{}", s_fq2(&af.x()), s_fq2(&af.y()), s_g2(&back))
            }
        },
        (["g2", "set"], [a, c, v]) => {
            let mut p = p_g2(a)?;
            let v = p_fq2(v)?;
            match *c { "x" => p.set_x(v), "y" => p.set_y(v), "z" => p.set_z(v), _ => return None }
            format!("{}|{}:{}:{}|{}", s_g2(&p), s_fq2(&p.x()), s_fq2(&p.y()), s_fq2(&p.z()), s_fq2(&G2::b()))
        }
        (["g2", "from_slice"], [h]) => ok_pt2(G2::from_slice(&p_bytes(h)?)),
        (["g2", "from_uncompressed"], [h]) => ok_pt2(G2::from_uncompressed(&p_bytes(h)?)),
        (["g2", "from_compressed"], [h]) => ok_pt2(G2::from_compressed(&p_bytes(h)?)),
        (["g2", "to_slice"], [a]) => format!("OK {}", hex(&p_g2(a)?.to_slice())),
        (["g2", "to_uncompressed"], [a]) => format!("OK {}", hex(&p_g2(a)?.to_uncompressed())),
        (["g2", "to_compressed"], [a]) => format!("OK {}", hex(&p_g2(a)?.to_compressed())),
        (["aff1", "new"], [x, y]) => match AffineG1::new(p_fq(x)?, p_fq(y)?) {
            Ok(_) => "OK".into(),
            Err(e) => group_err(e),
        },
        (["aff2", "new"], [x, y]) => match AffineG2::new(p_fq2(x)?, p_fq2(y)?) {
            Ok(_) => "OK".into(),
            Err(e) => group_err(e),
        },
        // ---------------- pairings ----------------
        (["pair", "pairing"], [p, q]) => hex(&pairing(p_g1(p)?, p_g2(q)?).to_slice()),
        (["pair", "fast"], [p, q]) => hex(&fast_pairing(p_g1(p)?, p_g2(q)?).to_slice()),
        (["pair", "prep"], [p, q]) => {
            let pq = G2Prepared::from(p_g2(q)?);
            hex(&pq.pairing(&p_g1(p)?).to_slice())
        }
        (["pair", "reuse"], rest) => prog::run_reuse(rest)?,
        (["prog", kind], rest) => prog::run(kind, rest)?,
        (["law", name], rest) => prog::run_law(name, form, rest)?,
        (["gtk", "ops"], rest) => prog::run_gtk(rest)?,
        _ => {
            #[cfg(john_yu_sm9_core_verif)]
            {
                return internal::run_op(&parts, form, args);
            }
            #[cfg(not(john_yu_sm9_core_verif))]
            {
                return Some("NOHOOKS".into());
            }
        }
    };
    Some(r)
}

fn main() {
    let args: Vec<String> = std::env::args().collect();
    let path = args.get(1).expect("usage: sm9_harness <ops-file> [timeout-ms]");
    let timeout_ms: u64 = args.get(2).and_then(|s| s.parse().ok()).unwrap_or(20000);
    std::panic::set_hook(Box::new(|_| {}));
    let f = std::fs::File::open(path).expect("open ops file");
    let out = std::io::stdout();
    let mut out = std::io::BufWriter::new(out.lock());
    for line in std::io::BufReader::new(f).lines() {
        let line = line.expect("read line");
        let l = line.trim().to_string();
        if l.is_empty() || l.starts_with('#') {
            writeln!(out, "#").unwrap();
            continue;
        }
        let (tx, rx) = mpsc::channel();
        std::thread::Builder::new()
            .stack_size(64 << 20)
            .spawn(move || {
                let res = std::panic::catch_unwind(|| {
                    let toks: Vec<&str> = l.split(' ').filter(|t| !t.is_empty()).collect();
                    run_op(toks[0], &toks[1..])
                });
                let s = match res {
                    Ok(Some(s)) => s,
                    Ok(None) => "BAD".to_string(),
                    Err(_) => "PANIC".to_string(),
                };
                let _ = tx.send(s);
            })
            .expect("spawn");
        let s = match rx.recv_timeout(Duration::from_millis(timeout_ms)) {
            Ok(s) => s,
            Err(_) => "TIMEOUT".to_string(),
        };
        writeln!(out, "{}", s).unwrap();
    }
    out.flush().unwrap();
    // stuck worker threads (TIMEOUT) must not keep the process alive
    std::process::exit(0);
}
