//! text encoding of the line protocol (must match lean/Sm9/Driver/Text.lean)
use sm9_core::*;

pub fn hex(b: &[u8]) -> String {
    if b.is_empty() {
        return "-".into();
    }
    let mut s = String::with_capacity(b.len() * 2);
    for x in b {
        s.push_str(&format!("{:02x}", x));
    }
    s
}
pub fn p_bytes(s: &str) -> Option<Vec<u8>> {
    if s == "-" {
        return Some(vec![]);
    }
    if s.len() % 2 != 0 {
        return None;
    }
    (0..s.len() / 2)
        .map(|i| u8::from_str_radix(s.get(2 * i..2 * i + 2)?, 16).ok())
        .collect()
}
pub fn p_fr(s: &str) -> Option<Fr> {
    if s.len() != 64 {
        return None;
    }
    Fr::from_slice(&p_bytes(s)?)
}
pub fn p_fq(s: &str) -> Option<Fq> {
    if s.len() != 64 {
        return None;
    }
    Fq::from_slice(&p_bytes(s)?)
}
pub fn p_fq2(s: &str) -> Option<Fq2> {
    if s.len() != 128 {
        return None;
    }
    let im = p_fq(&s[..64])?;
    let re = p_fq(&s[64..])?;
    Some(Fq2::new(re, im))
}
pub fn p_g1(s: &str) -> Option<G1> {
    let v: Vec<&str> = s.split(':').collect();
    if v.len() != 3 {
        return None;
    }
    Some(G1::new(p_fq(v[0])?, p_fq(v[1])?, p_fq(v[2])?))
}
pub fn p_g2(s: &str) -> Option<G2> {
    let v: Vec<&str> = s.split(':').collect();
    if v.len() != 3 {
        return None;
    }
    Some(G2::new(p_fq2(v[0])?, p_fq2(v[1])?, p_fq2(v[2])?))
}
pub fn s_fr(a: &Fr) -> String {
    hex(&a.to_slice())
}
pub fn s_fq(a: &Fq) -> String {
    hex(&a.to_slice())
}
pub fn s_fq2(a: &Fq2) -> String {
    hex(&a.to_slice())
}
pub fn s_g1(p: &G1) -> String {
    format!("{}:{}:{}", s_fq(&p.x()), s_fq(&p.y()), s_fq(&p.z()))
}
pub fn s_g2(p: &G2) -> String {
    format!("{}:{}:{}", s_fq2(&p.x()), s_fq2(&p.y()), s_fq2(&p.z()))
}
pub fn aff_g1(p: &G1) -> String {
    match AffineG1::from_jacobian(*p) {
        None => "INF".into(),
        Some(a) => format!("{}{}", s_fq(&a.x()), s_fq(&a.y())),
    }
}
pub fn aff_g2(p: &G2) -> String {
    match AffineG2::from_jacobian(*p) {
        None => "INF".into(),
        Some(a) => format!("{}{}", s_fq2(&a.x()), s_fq2(&a.y())),
    }
}
pub fn out_g1(p: &G1) -> String {
    format!("{}|{}", s_g1(p), aff_g1(p))
}
pub fn out_g2(p: &G2) -> String {
    format!("{}|{}", s_g2(p), aff_g2(p))
}
pub fn s_bool(b: bool) -> String {
    if b { "true".into() } else { "false".into() }
}
pub fn s_opt(o: Option<String>) -> String {
    match o {
        Some(s) => format!("SOME {}", s),
        None => "NONE".into(),
    }
}
