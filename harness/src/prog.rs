//! register-machine programs and law checks (C01, C03, C07, C11, C16) — public API only.
//! Semantics must match lean/Sm9/Driver/Prog.lean.
use crate::text::*;
use crate::ScriptRng;
use sm9_core::*;

fn split_args(s: &str) -> (&str, Vec<&str>) {
    match s.split_once(':') {
        None => (s, vec![]),
        Some((k, rest)) => (k, rest.split(',').collect()),
    }
}

macro_rules! field_prog {
    ($fname:ident, $T:ty, $is_fr:expr) => {
        fn $fname(steps: &[&str]) -> Option<String> {
            let mut regs: Vec<$T> = Vec::new();
            for st in steps {
                let (k, a) = split_args(st);
                let reg = |s: &str, regs: &Vec<$T>| -> Option<$T> { regs.get(s.parse::<usize>().ok()?).copied() };
                let z = <$T>::zero();
                let v: $T = match (k, a.as_slice()) {
                    ("const", [h]) => <$T>::from_slice(&p_bytes(h)?)?,
                    ("slice", [h]) => <$T>::from_slice(&p_bytes(h)?).unwrap_or(z),
                    ("str", [h]) => {
                        let s = String::from_utf8(p_bytes(h)?).ok()?;
                        <$T>::from_str(&s).unwrap_or(z)
                    }
                    ("hash", [h]) => field_hash::<$T>(&p_bytes(h)?, $is_fr)?,
                    ("random", ws) if ws.len() == 8 => {
                        let words: Option<Vec<u64>> = ws.iter().map(|w| u64::from_str_radix(w, 16).ok()).collect();
                        field_random::<$T>(words?, $is_fr)?
                    }
                    ("add", [i, j]) => reg(i, &regs)? + reg(j, &regs)?,
                    ("sub", [i, j]) => reg(i, &regs)? - reg(j, &regs)?,
                    ("mul", [i, j]) => reg(i, &regs)? * reg(j, &regs)?,
                    ("pow", [i, j]) => reg(i, &regs)?.pow(reg(j, &regs)?),
                    ("neg", [i]) => -reg(i, &regs)?,
                    ("dup", [i]) => reg(i, &regs)?,
                    ("inv", [i]) => reg(i, &regs)?.inverse().unwrap_or(z),
                    ("sqrt", [i]) => field_sqrt::<$T>(reg(i, &regs)?)?.unwrap_or(z),
                    ("setbit", [i, b, v]) => field_setbit::<$T>(reg(i, &regs)?, b.parse().ok()?, *v == "1")?,
                    _ => return None,
                };
                regs.push(v);
            }
            // C07 laws on the implementation: == iff equal encodings, is_zero iff value 0
            let encs: Vec<[u8; 32]> = regs.iter().map(|x| x.to_slice()).collect();
            let mut laws = String::from("LAWS-OK");
            for i in 0..regs.len() {
                if regs[i].is_zero() != (encs[i] == [0u8; 32]) {
                    laws = format!("LAWFAIL:is_zero:reg{}", i);
                }
                for j in 0..regs.len() {
                    if (regs[i] == regs[j]) != (encs[i] == encs[j]) {
                        laws = format!("LAWFAIL:eq:reg{},reg{}", i, j);
                    }
                }
                // a later operation on the value must behave like on a fresh copy of the same value
                let fresh = <$T>::from_slice(&encs[i])?;
                if (regs[i] + <$T>::one()).to_slice() != (fresh + <$T>::one()).to_slice()
                    || (regs[i] * regs[i]).to_slice() != (fresh * fresh).to_slice()
                {
                    laws = format!("LAWFAIL:later-op:reg{}", i);
                }
            }
            let vals: Vec<String> = encs.iter().map(|e| hex(e)).collect();
            Some(format!("{}|{}", vals.join(","), laws))
        }
    };
}

trait FieldKind: Sized + Copy {
    fn hash(_b: &[u8]) -> Option<Option<Self>> {
        None
    }
    fn random(_w: Vec<u64>) -> Option<Self> {
        None
    }
    fn sqrt_(self) -> Option<Option<Self>> {
        None
    }
    fn setbit(self, _b: usize, _v: bool) -> Option<Self> {
        None
    }
    fn zero_() -> Self;
}
impl FieldKind for Fr {
    fn hash(b: &[u8]) -> Option<Option<Self>> {
        Some(Fr::from_hash(b))
    }
    fn random(w: Vec<u64>) -> Option<Self> {
        let mut rng = ScriptRng { words: w, pos: 0 };
        Some(Fr::random(&mut rng))
    }
    fn setbit(mut self, b: usize, v: bool) -> Option<Self> {
        self.set_bit(b, v);
        Some(self)
    }
    fn zero_() -> Self {
        Fr::zero()
    }
}
impl FieldKind for Fq {
    fn sqrt_(self) -> Option<Option<Self>> {
        Some(self.sqrt())
    }
    fn zero_() -> Self {
        Fq::zero()
    }
}
fn field_hash<T: FieldKind>(b: &[u8], _is_fr: bool) -> Option<T> {
    Some(T::hash(b)?.unwrap_or(T::zero_()))
}
fn field_random<T: FieldKind>(w: Vec<u64>, _is_fr: bool) -> Option<T> {
    T::random(w)
}
fn field_sqrt<T: FieldKind>(x: T) -> Option<Option<T>> {
    x.sqrt_()
}
fn field_setbit<T: FieldKind>(x: T, b: usize, v: bool) -> Option<T> {
    x.setbit(b, v)
}

field_prog!(prog_fr, Fr, true);
field_prog!(prog_fq, Fq, false);

#[derive(Clone, Copy)]
enum Reg {
    P1(G1),
    P2(G2),
}

fn enc_dec1(fmt: &str, p: G1) -> Option<G1> {
    if p.is_zero() {
        return Some(p);
    }
    match fmt {
        "slice" => G1::from_slice(&p.to_slice()).ok(),
        "uncompressed" => G1::from_uncompressed(&p.to_uncompressed()).ok(),
        _ => G1::from_compressed(&p.to_compressed()).ok(),
    }
}
fn enc_dec2(fmt: &str, p: G2) -> Option<G2> {
    if p.is_zero() {
        return Some(p);
    }
    match fmt {
        "slice" => G2::from_slice(&p.to_slice()).ok(),
        "uncompressed" => G2::from_uncompressed(&p.to_uncompressed()).ok(),
        _ => G2::from_compressed(&p.to_compressed()).ok(),
    }
}

fn three_pairings(p: G1, q: G2) -> String {
    let a = hex(&pairing(p, q).to_slice());
    let b = hex(&fast_pairing(p, q).to_slice());
    let c = hex(&G2Prepared::from(q).pairing(&p).to_slice());
    format!("{},{},{}", a, b, c)
}

fn prog_group(steps: &[&str]) -> Option<String> {
    let mut regs: Vec<Reg> = Vec::new();
    for st in steps {
        let (k, a) = split_args(st);
        let reg = |s: &str, regs: &Vec<Reg>| -> Option<Reg> { regs.get(s.parse::<usize>().ok()?).copied() };
        let v = match (k, a.as_slice()) {
            ("one1", []) => Reg::P1(G1::one()),
            ("one2", []) => Reg::P2(G2::one()),
            ("zero1", []) => Reg::P1(G1::zero()),
            ("zero2", []) => Reg::P2(G2::zero()),
            ("add", [i, j]) => match (reg(i, &regs)?, reg(j, &regs)?) {
                (Reg::P1(x), Reg::P1(y)) => Reg::P1(x + y),
                (Reg::P2(x), Reg::P2(y)) => Reg::P2(x + y),
                _ => return None,
            },
            ("sub", [i, j]) => match (reg(i, &regs)?, reg(j, &regs)?) {
                (Reg::P1(x), Reg::P1(y)) => Reg::P1(x - y),
                (Reg::P2(x), Reg::P2(y)) => Reg::P2(x - y),
                _ => return None,
            },
            ("neg", [i]) => match reg(i, &regs)? {
                Reg::P1(x) => Reg::P1(-x),
                Reg::P2(x) => Reg::P2(-x),
            },
            ("mul", [i, ks]) => {
                let kk = p_fr(ks)?;
                match reg(i, &regs)? {
                    Reg::P1(x) => Reg::P1(x * kk),
                    Reg::P2(x) => Reg::P2(x * kk),
                }
            }
            ("normalize", [i]) => match reg(i, &regs)? {
                Reg::P1(mut x) => {
                    x.normalize();
                    Reg::P1(x)
                }
                Reg::P2(mut x) => {
                    x.normalize();
                    Reg::P2(x)
                }
            },
            ("affine", [i]) => match reg(i, &regs)? {
                Reg::P1(x) => Reg::P1(AffineG1::from_jacobian(x).map(Into::into).unwrap_or(x)),
                Reg::P2(x) => Reg::P2(AffineG2::from_jacobian(x).map(Into::into).unwrap_or(x)),
            },
            ("encdec", [i, fmt]) => match reg(i, &regs)? {
                Reg::P1(x) => Reg::P1(enc_dec1(fmt, x)?),
                Reg::P2(x) => Reg::P2(enc_dec2(fmt, x)?),
            },
            _ => return None,
        };
        regs.push(v);
    }
    let jac: Vec<String> = regs.iter().map(|r| match r { Reg::P1(p) => s_g1(p), Reg::P2(p) => s_g2(p) }).collect();
    let aff: Vec<String> = regs.iter().map(|r| match r { Reg::P1(p) => aff_g1(p), Reg::P2(p) => aff_g2(p) }).collect();
    let mut eqm = String::new();
    for a in &regs {
        for b in &regs {
            eqm.push(match (a, b) {
                (Reg::P1(x), Reg::P1(y)) => if x == y { '1' } else { '0' },
                (Reg::P2(x), Reg::P2(y)) => if x == y { '1' } else { '0' },
                _ => '-',
            });
        }
    }
    let zs: String = regs.iter().map(|r| match r {
        Reg::P1(p) => if p.is_zero() { '1' } else { '0' },
        Reg::P2(p) => if p.is_zero() { '1' } else { '0' },
    }).collect();
    let mut l1 = None;
    let mut l2 = None;
    for r in &regs {
        match r {
            Reg::P1(p) => l1 = Some(*p),
            Reg::P2(p) => l2 = Some(*p),
        }
    }
    let pr = match (l1, l2) {
        (Some(p), Some(q)) => three_pairings(p, q),
        _ => "-".into(),
    };
    Some(format!("{}|{}|{}/{}|{}", jac.join(","), aff.join(","), eqm, zs, pr))
}

fn entry(e: &str, p: G1, q: G2) -> Gt {
    match e {
        "pairing" => pairing(p, q),
        "fast" => fast_pairing(p, q),
        _ => G2Prepared::from(q).pairing(&p),
    }
}

fn law(name: &str, e: &str, args: &[&str]) -> Option<String> {
    let e = if e.is_empty() { "pairing" } else { e };
    let g1k = |k: Fr| G1::one() * k;
    let g2k = |k: Fr| G2::one() * k;
    Some(match (name, args) {
        ("bilin", [a, b]) => {
            let (a, b) = (p_fr(a)?, p_fr(b)?);
            s_bool(entry(e, g1k(a), g2k(b)) == entry(e, G1::one(), G2::one()).pow(a * b))
        }
        ("additive", [a, a2, b, c]) => {
            let (a, a2, b, c) = (p_fr(a)?, p_fr(a2)?, p_fr(b)?, p_fr(c)?);
            let m1 = entry(e, g1k(a) + g1k(a2), g2k(b)) == entry(e, g1k(a), g2k(b)) * entry(e, g1k(a2), g2k(b));
            let m2 = entry(e, g1k(a), g2k(b) + g2k(c)) == entry(e, g1k(a), g2k(b)) * entry(e, g1k(a), g2k(c));
            format!("{},{}", s_bool(m1), s_bool(m2))
        }
        ("additive2", [p1, p2, q1, q2]) => {
            // additivity on explicit Jacobian representatives (any representative of any point, identity included)
            let (p1, p2, q1, q2) = (p_g1(p1)?, p_g1(p2)?, p_g2(q1)?, p_g2(q2)?);
            let m1 = entry(e, p1 + p2, q1) == entry(e, p1, q1) * entry(e, p2, q1);
            let m2 = entry(e, p1, q1 + q2) == entry(e, p1, q1) * entry(e, p1, q2);
            format!("{},{}", s_bool(m1), s_bool(m2))
        }
        ("prepreuse", [a, b]) => {
            // bilinearity through ONE prepared value queried repeatedly (P, then -P, then 2P, then P again, and through a
            // clone taken in between): a memo or any other state inside the prepared value would show up here
            let (a, b) = (p_fr(a)?, p_fr(b)?);
            let (p, q) = (g1k(a), g2k(b));
            let prep = G2Prepared::from(q);
            let e1 = prep.pairing(&p);
            let en = prep.pairing(&(-p));
            let cl = prep.clone();
            let e2 = cl.pairing(&(p + p));
            let e1b = prep.pairing(&p);
            let one = Gt::one();
            format!("{},{},{},{}", s_bool(en * e1 == one), s_bool(e2 == e1 * e1), s_bool(e1b == e1), s_bool(e1 == pairing(p, q)))
        }
        ("identity", [o1, o2]) => {
            let (o1, o2) = (p_g1(o1)?, p_g2(o2)?);
            let one = Gt::one();
            format!(
                "{},{},{}",
                s_bool(entry(e, o1, G2::one()) == one),
                s_bool(entry(e, G1::one(), o2) == one),
                s_bool(entry(e, o1, o2) == one)
            )
        }
        ("nondegenerate", []) => {
            let g = entry(e, G1::one(), G2::one());
            format!("{},{}", s_bool(g != Gt::one()), s_bool(g.pow(-Fr::one()) * g == Gt::one()))
        }
        _ => return None,
    })
}

fn gtk(args: &[&str]) -> Option<String> {
    if let [k1, k2, a, b] = args {
        let (k1, k2, a, b) = (p_fr(k1)?, p_fr(k2)?, p_fr(a)?, p_fr(b)?);
        let g = pairing(G1::one() * k1, G2::one());
        let h = pairing(G1::one(), G2::one() * k2);
        let one = Gt::one();
        let inv = match g.inverse() {
            Some(i) => s_bool(i * g == one),
            None => "NONE".into(),
        };
        let q = hex_q();
        let gh = (g * h).to_slice();
        let limbs_ok = (0..12).all(|i| gh[32 * i..32 * i + 32] < q[..]);
        // identities with a history: the inverse of a computed identity and of `one` itself is `one`, by `==` and by
        // encoding, and is neutral afterwards
        let idh = match g.inverse() {
            Some(i) => {
                let e = i * g;
                match (e.inverse(), one.inverse()) {
                    (Some(ei), Some(oi)) => s_bool(ei == one && oi == one && ei.to_slice() == one.to_slice() && oi.to_slice() == one.to_slice()
                        && g * ei == g && (ei == e) == (ei.to_slice() == e.to_slice())),
                    _ => "NONE".into(),
                }
            }
            None => "NONE".into(),
        };
        Some(format!(
            "{}|{}|{}|{}|{}|{}|{}|{}|{}|{}|{}|{}|{}",
            hex(&gh),
            s_bool(g * h == h * g),
            s_bool(g * one == g),
            inv,
            hex(&g.pow(a).to_slice()),
            s_bool(g.pow(a) * g.pow(b) == g.pow(a + b)),
            s_bool(g.pow(a).pow(b) == g.pow(a * b)),
            s_bool((g * h).pow(a) == g.pow(a) * h.pow(a)),
            s_bool(g.pow(Fr::zero()) == one),
            s_bool(g.pow(Fr::one()) == g),
            s_bool((g == h) == (g.to_slice() == h.to_slice())),
            s_bool(limbs_ok),
            idh
        ))
    } else {
        None
    }
}

fn hex_q() -> [u8; 32] {
    // q - 1 encodes as the largest canonical value; q itself = that + 1
    let mut m = (-Fq::one()).to_slice();
    // add one (big-endian)
    for i in (0..32).rev() {
        let (v, c) = m[i].overflowing_add(1);
        m[i] = v;
        if !c {
            break;
        }
    }
    m
}

fn reuse(args: &[&str]) -> Option<String> {
    if args.len() < 3 {
        return None;
    }
    let q = p_g2(args[0])?;
    let order: Option<Vec<usize>> = args[1].split(',').map(|s| s.parse().ok()).collect();
    let pts: Option<Vec<G1>> = args[2..].iter().map(|s| p_g1(s)).collect();
    let pts = pts?;
    let prep = G2Prepared::from(q);
    let mut outs = Vec::new();
    let mut cl: Option<G2Prepared> = None;
    for (n, i) in order?.iter().enumerate() {
        let p = pts.get(*i)?;
        // alternate between the prepared value and a clone taken after the first use
        let v = if n % 2 == 1 {
            if cl.is_none() {
                cl = Some(prep.clone());
            }
            cl.as_ref().unwrap().pairing(p)
        } else {
            prep.pairing(p)
        };
        outs.push(hex(&v.to_slice()));
    }
    Some(outs.join(","))
}

pub fn run(kind: &str, rest: &[&str]) -> Option<String> {
    match kind {
        "fr" => prog_fr(rest),
        "fq" => prog_fq(rest),
        "group" => prog_group(rest),
        _ => None,
    }
}

pub fn run_law(name: &str, form: &str, args: &[&str]) -> Option<String> {
    law(name, form, args)
}
pub fn run_gtk(args: &[&str]) -> Option<String> {
    gtk(args)
}
pub fn run_reuse(args: &[&str]) -> Option<String> {
    reuse(args)
}
